"""C13, L3 -- a wrong passkey, a mismatching confirm value or a failed DHKey check never yields stored keys.

Every phase-2 handler that compares a received value with a computed one (Session.check_expected_value) is run on
both outcomes.  On a mismatch: exactly one Pairing Failed goes out, with the reason the specification gives for that
check, nothing else is sent (no next-step command), encryption is not started, the key material of the session is
unchanged, the failure is reported once and the session is `completed` -- and a completed session's on_pairing stores
nothing (contract of Session.on_pairing in c13_pairing.py: 'stored-once', 'nothing-stored-again').

The cryptographic toolbox is replaced by recorded stubs returning *arbitrary* values (ghost fields), so "the values
match" and "the values differ" are both explored without any assumption on c1 / f4 / f5 / f6 / s1 (C14 owns those).
"""
import asyncio

from bumble import crypto, hci, smp
from pyvc.contracts import Any, Bool, Bytes, Callback, Const, Event, Inst, Int, IntRange, OneOf, Opaque, contract, implies, lemma, model
from pyvc.ext_c13 import drive

ENVIRONMENT = [
    'phase-2 handlers: the cryptographic functions (crypto.c1, s1, f4, f5, f6, g2, r) are stubs returning arbitrary '
    'byte strings; whether an honest peer\'s value matches is crypto (C14) plus the two-party exchange, not claimed here',
    'display_or_input_passkey is a recorded call. The confirmation prompts (prompt_user_for_confirmation / '
    '_numeric_comparison) are the real functions; the delegate (confirm / compare_numbers) is a stub answering accept, '
    'reject or raising (ghost.answer), and it answers AT ONCE: the prompt coroutine handed to cancel_on_disconnection is '
    'executed at the call (A1), so "the user answers after the peer\'s DHKey check arrived" is not one execution here; '
    'it is covered by the two handler contracts separately (the future the responder\'s continuation awaits exists and '
    'is unresolved when the random handler returns; the DHKey handler sends nothing while that future is unresolved)',
    'an `await` on the confirmation future (ghost.confirmed = it was resolved) does what CPython does: resolved -> goes on; '
    'pending -> the coroutine stops there (engine: SuspendSig). That nobody but Session code resolves the future is by '
    'reading (grep wait_before_continuing: 5 places, all in the two handlers under contract)',
    'Session.on_smp_command catches any exception of a handler and sends Pairing Failed (UNSPECIFIED_REASON) WITHOUT '
    'calling on_pairing_failure: the AssertionError exits of the handlers (no confirm value received yet) are listed in '
    '`raises`; that the session is not failed locally in that case is outside the statement\'s three checks',
]

PM = smp.PairingMethod
EC = smp.ErrorCode


# ---------------------------------------------------------------------------
# what leaves the session: SMP commands (Manager.send_command), HCI_LE_Enable_Encryption (start_encryption), reports
# ---------------------------------------------------------------------------
def rec_send_command(ghost, connection, command):
    if isinstance(command, smp.SMP_Pairing_Failed_Command):
        ghost.n_failed_cmd = ghost.n_failed_cmd + 1
        ghost.fail_reason = command.reason
    elif isinstance(command, smp.SMP_Pairing_Random_Command):
        ghost.n_random = ghost.n_random + 1
        ghost.random_value = command.random_value
    elif isinstance(command, smp.SMP_Pairing_Confirm_Command):
        ghost.n_confirm = ghost.n_confirm + 1
    elif isinstance(command, smp.SMP_Pairing_DHKey_Check_Command):
        ghost.n_dhkey = ghost.n_dhkey + 1
        ghost.dhkey_value = command.dhkey_check
    else:
        ghost.n_other = ghost.n_other + 1


def rec_send_command_sync(ghost, command):
    """Host.send_command_sync: only start_encryption uses it"""
    ghost.n_enc = ghost.n_enc + 1
    ghost.enc_key = command.long_term_key


def rec_on_pairing_failure(ghost, session, reason):
    ghost.failure_reports = ghost.failure_reports + 1
    ghost.reported_reason = reason


def rec_on_pairing(ghost, session, identity_address, keys):
    ghost.stored = ghost.stored + 1


def fut_done(ghost):
    return ghost.result_done


def fut_set_result(ghost, value):
    assert not ghost.result_done, 'future-set-once'
    ghost.result_done = True
    ghost.result_ok = True


def fut_set_exception(ghost, error):
    assert not ghost.result_done, 'future-set-once'
    ghost.result_done = True
    ghost.result_ok = False


def rec_prompt(ghost, *args):
    ghost.prompts = ghost.prompts + 1


def user_answers(ghost, *args, **kwargs):
    """PairingDelegate.confirm() / compare_numbers(code, digits): the local user's answer (ghost.answer: 0 reject,
    1 accept, 2 the delegate raises)"""
    ghost.prompts = ghost.prompts + 1
    if ghost.answer == 2:
        raise RuntimeError('delegate failed')
    return ghost.answer == 1


def rec_cancel_on_disconnection(ghost, awaitable):
    ghost.tasks = ghost.tasks + 1
    drive(awaitable)  # native harness: run the coroutine up to its first pending await (symbolically it ran at its call)


def new_future(ghost):
    """loop.create_future(): a new, unresolved future"""
    ghost.futures = ghost.futures + 1
    ghost.confirmed = False
    return ghost.fresh_waiter


def note_await(ghost):
    """bookkeeping at `await <confirmation future>` (symbolically: await hook; natively: NativeWaiter.__await__)"""
    ghost.awaited = ghost.awaited + 1
    ghost.dhkey_at_await = ghost.n_dhkey


def is_confirmed(ghost):
    return ghost.confirmed


def confirmation_await_hook(path, v, node):
    """await on the session's confirmation future: resolved (ghost.confirmed) -> the coroutine goes on; still
    pending -> it stops here (the rest of its body runs in a later activation, if ever)"""
    from pyvc.engine import SuspendSig
    from pyvc.values import Ref

    if isinstance(v, Ref) and getattr(getattr(path.obj(v), 'model', None), 'name', None) == 'ghost:Waiter#h':
        path.cfg.spec_eval(path, note_await, {})
        if not path.branch(path.cfg.spec_eval(path, is_confirmed, {})):
            raise SuspendSig()
        return None
    return v


class NativeWaiter:
    """native stand-in of the confirmation future: awaiting it returns at once when ghost.confirmed, else never"""

    def __init__(self, ghost):
        self._ghost = ghost

    def __await__(self):
        note_await(self._ghost)
        if not self._ghost.confirmed:
            yield self
        return None

    def __deepcopy__(self, memo):
        return self


model('ghost:Future#h', fields={}, methods={
    'done': Callback('done', effect=fut_done),
    'set_result': Callback('set_result', effect=fut_set_result),
    'set_exception': Callback('set_exception', effect=fut_set_exception),
})
model('ghost:Host#h', fields={}, methods={'send_command_sync': Callback('send_command_sync', effect=rec_send_command_sync)})
model('ghost:Device#h', fields=dict(host=Inst('ghost:Host#h')))
model('ghost:Manager#h', fields=dict(device=Inst('ghost:Device#h')), methods={
    'send_command': Callback('send_command', effect=rec_send_command),
    'on_pairing_failure': Callback('on_pairing_failure', effect=rec_on_pairing_failure),
    'on_pairing': Callback('on_pairing', effect=rec_on_pairing, is_async=True),
})
model('ghost:Link#h', fields=dict(handle=IntRange(0, 0xEFF)), methods={
    'cancel_on_disconnection': Callback('cancel_on_disconnection', effect=rec_cancel_on_disconnection),
})
def rec_release(ghost, waiter, value):
    ghost.released = ghost.released + 1
    if waiter is ghost.fresh_waiter:
        ghost.released_fresh = ghost.released_fresh + 1
    ghost.confirmed = True


model('ghost:Waiter#h', fields={}, methods={'set_result': Callback('set_result', effect=rec_release, with_self=True)},
      build=lambda fields, builder: NativeWaiter(builder.ghost))
model('ghost:Delegate#h', fields={}, methods={'confirm': Callback('confirm', effect=user_answers, is_async=True, raises=(RuntimeError,)),
                                             'compare_numbers': Callback('compare_numbers', effect=user_answers, is_async=True, raises=(RuntimeError,))})
model('ghost:PairingConfig#h', fields=dict(delegate=Inst('ghost:Delegate#h')))
model('bumble.crypto:EccKey#h', fields=dict(x=Bytes, y=Bytes), methods={'dh': Callback('dh', effect=lambda ghost, x, y: ghost.v_dh)})
model('bumble.smp:OobSharedData#h', fields=dict(c=Bytes, r=Bytes))

H_GHOST = dict(
    n_failed_cmd=Int, fail_reason=Int, n_random=Int, random_value=Bytes, n_confirm=Int, n_dhkey=Int, dhkey_value=Bytes, n_other=Int,
    n_enc=Int, enc_key=Bytes, failure_reports=Int, reported_reason=Int, stored=Int, result_done=Bool, result_ok=Bool, prompts=Int, tasks=Int,
    # what the crypto stubs return (arbitrary)
    v_c1=Bytes, v_s1=Bytes, v_f4=Bytes, v_mackey=Bytes, v_f5ltk=Bytes, v_f6a=Bytes, v_f6b=Bytes, v_g2=Int, v_r=Bytes, f6_calls=Int, v_dh=Bytes, released=Int,
    # the local user and the confirmation future (Session.wait_before_continuing): answer 0 reject / 1 accept / 2 the delegate raises;
    # confirmed = the future was resolved; fresh_waiter = what loop.create_future() returns next; awaited / dhkey_at_await = see note_await
    answer=IntRange(0, 2), confirmed=Bool, futures=Int, released_fresh=Int, awaited=Int, dhkey_at_await=Int,
    fresh_waiter=Inst('ghost:Waiter#h'), loop=Inst('ghost:Loop#h'),
)
H_MODIFIES_OUT = ['ghost.n_failed_cmd', 'ghost.fail_reason', 'ghost.n_random', 'ghost.random_value', 'ghost.n_confirm', 'ghost.n_dhkey',
                  'ghost.dhkey_value', 'ghost.n_other', 'ghost.n_enc', 'ghost.enc_key', 'ghost.failure_reports', 'ghost.reported_reason',
                  'ghost.result_done', 'ghost.result_ok', 'ghost.prompts', 'ghost.tasks', 'ghost.f6_calls', 'ghost.released',
                  'ghost.confirmed', 'ghost.futures', 'ghost.released_fresh', 'ghost.awaited', 'ghost.dhkey_at_await']


def stub_f6(ghost, *args):
    """first call computes Ea, second Eb (on_smp_pairing_random_command_secure_connections)"""
    ghost.f6_calls = ghost.f6_calls + 1
    return ghost.v_f6a if ghost.f6_calls % 2 == 1 else ghost.v_f6b


CRYPTO_STUBS = {
    crypto.c1: Callback('c1', effect=lambda ghost, *args: ghost.v_c1),
    crypto.s1: Callback('s1', effect=lambda ghost, *args: ghost.v_s1),
    crypto.f4: Callback('f4', effect=lambda ghost, *args: ghost.v_f4),
    crypto.f5: Callback('f5', effect=lambda ghost, *args: (ghost.v_mackey, ghost.v_f5ltk)),
    crypto.f6: Callback('f6', effect=stub_f6),
    crypto.g2: Callback('g2', effect=lambda ghost, *args: ghost.v_g2),
    crypto.r: Callback('r', effect=lambda ghost: ghost.v_r),
    asyncio.get_running_loop: Callback('get_running_loop', effect=lambda ghost: ghost.loop),
}
model('ghost:Loop#h', fields={}, methods={'create_future': Callback('create_future', effect=new_future)})

model(
    'bumble.smp:Session#h',
    fields=dict(
        manager=Inst('ghost:Manager#h'), connection=Inst('ghost:Link#h'), completed=Bool, pairing_result=OneOf(None, Inst('ghost:Future#h')),
        is_initiator=Bool, is_responder=Bool, sc=Bool, pairing_method=IntRange(0, 4),
        tk=Bytes, r=Bytes, preq=Bytes, pres=Bytes, iat=IntRange(0, 1), rat=IntRange(0, 1), ia=Bytes, ra=Bytes,
        confirm_value=OneOf(None, Bytes), stk=OneOf(None, Bytes), ltk=Bytes, ea=Bytes, eb=Bytes, dh_key=Bytes,
        passkey=OneOf(None, IntRange(0, 999999)), passkey_step=IntRange(0, 19), passkey_display=Bool,
        peer_random_value=OneOf(None, Bytes), peer_public_key_x=Bytes, peer_public_key_y=Bytes, ecc_key=Inst('bumble.crypto:EccKey#h'),
        peer_oob_data=OneOf(None, Inst('bumble.smp:OobSharedData#h')), wait_before_continuing=OneOf(None, Inst('ghost:Waiter#h')),
        passkey_ready=Event(), pairing_config=Inst('ghost:PairingConfig#h'),
    ),
    methods={
        'display_or_input_passkey': Callback('display_or_input_passkey', effect=rec_prompt),
    },
)
SESSION_H = Inst('bumble.smp:Session#h')
model('bumble.smp:SMP_Pairing_Random_Command#h', fields=dict(random_value=Bytes))
model('bumble.smp:SMP_Pairing_DHKey_Check_Command#h', fields=dict(dhkey_check=Bytes))
model('bumble.smp:SMP_Pairing_Public_Key_Command#h', fields=dict(public_key_x=Bytes, public_key_y=Bytes))

H_INLINE = ['Session.check_expected_value', 'Session.send_pairing_failed', 'Session.send_command', 'Session.on_pairing_failure',
            'Session.send_pairing_random_command', 'Session.send_pairing_confirm_command', 'Session.send_pairing_dhkey_check_command',
            'Session.send_public_key_command', 'Session.start_encryption', 'Session.prompt_user_for_confirmation',
            'Session.prompt_user_for_numeric_comparison', 'Session.pkx', 'Session.pka', 'Session.pkb', 'Session.nx', 'Session.na',
            'Session.nb', 'ProtocolError.__init__', 'BaseError.__init__']


def role_ok(self):
    return self.is_responder == (not self.is_initiator)


def nothing_else_sent(ghost, old):
    return (ghost.n_random == old.ghost.n_random and ghost.n_confirm == old.ghost.n_confirm and ghost.n_dhkey == old.ghost.n_dhkey
            and ghost.n_other == old.ghost.n_other)


def opt_eq(a, b):
    """equality of two optional byte strings"""
    if a is None or b is None:
        return a is None and b is None
    return a == b


def failed_check(self, old, ghost, reason):
    """the statement's "never yields stored keys", handler side: one Pairing Failed with `reason`, no next step,
    no encryption, key material untouched, failure reported (once per session), session completed"""
    return [
        ghost.n_failed_cmd == old.ghost.n_failed_cmd + 1 and ghost.fail_reason == reason,
        nothing_else_sent(ghost, old),
        ghost.n_enc == old.ghost.n_enc,
        opt_eq(self.stk, old.self.stk) and self.ltk == old.self.ltk,
        self.completed,
        ghost.failure_reports == old.ghost.failure_reports + (0 if old.self.completed else 1),
        implies(not old.self.completed, ghost.reported_reason == reason),
        # the initiator's pair() ends with an error (unless it had ended before)
        implies(not old.self.completed and self.pairing_result is not None, ghost.result_done and (old.ghost.result_done or not ghost.result_ok)),
        ghost.prompts == old.ghost.prompts and ghost.tasks == old.ghost.tasks,
    ]


FAILED_NAMES = ['one-pairing-failed-with-reason', 'no-next-step-command', 'no-encryption', 'keys-untouched', 'session-completed',
                'failure-reported-once', 'reported-reason', 'initiator-result-is-error', 'no-prompt']


def passed_check(self, old, ghost):
    return [ghost.n_failed_cmd == old.ghost.n_failed_cmd, ghost.failure_reports == old.ghost.failure_reports, self.completed == old.self.completed]


def split(cond, then, names_then):
    """clauses `then` under `cond`"""
    return [implies(cond, c) for c in then]


# ---------------------------------------------------------------------------
# the comparison itself and the failure path
# ---------------------------------------------------------------------------
contract(
    'bumble.smp:Session.check_expected_value',
    prop='C13',
    params=dict(self=SESSION_H, expected=Bytes, received=Bytes, error=OneOf(EC.CONFIRM_VALUE_FAILED, EC.DHKEY_CHECK_FAILED)),
    ghost=H_GHOST,
    ensures=lambda self, expected, received, error, res, old, ghost: [res == (expected == received)]
    + split(res, passed_check(self, old, ghost) + [nothing_else_sent(ghost, old), ghost.n_enc == old.ghost.n_enc], None)
    + split(not res, failed_check(self, old, ghost, error), None),
    ensures_names=['true-iff-equal', 'match-no-failure', 'match-nothing-reported', 'match-completed-unchanged', 'match-nothing-sent', 'match-no-encryption']
    + ['mismatch-' + n for n in FAILED_NAMES],
    modifies=['self.completed'] + H_MODIFIES_OUT,
    inline=H_INLINE,
    returns=Bool,
)

contract(
    'bumble.smp:Session.on_pairing_failure',
    prop='C13',
    params=dict(self=SESSION_H, reason=OneOf(EC.CONFIRM_VALUE_FAILED, EC.DHKEY_CHECK_FAILED, EC.PASSKEY_ENTRY_FAILED)),
    ghost=H_GHOST,
    ensures=lambda self, reason, old, ghost: [
        self.completed,
        ghost.failure_reports == old.ghost.failure_reports + (0 if old.self.completed else 1),
        implies(not old.self.completed, ghost.reported_reason == reason),
        implies(not old.self.completed and self.pairing_result is not None, ghost.result_done and (old.ghost.result_done or not ghost.result_ok)),
        implies(old.self.completed, ghost.result_done == old.ghost.result_done and ghost.result_ok == old.ghost.result_ok),
        ghost.n_failed_cmd == old.ghost.n_failed_cmd and nothing_else_sent(ghost, old) and ghost.n_enc == old.ghost.n_enc,
    ],
    ensures_names=['session-completed', 'failure-reported-once', 'reported-reason', 'initiator-result-is-error', 'no-second-result', 'sends-nothing'],
    modifies=['self.completed', 'ghost.failure_reports', 'ghost.reported_reason', 'ghost.result_done', 'ghost.result_ok'],
    inline=['ProtocolError.__init__', 'BaseError.__init__'],
)


# ---------------------------------------------------------------------------
# LE legacy pairing: Pairing Random received -> Sconfirm / Mconfirm check (Vol 3 Part H 2.3.5.5)
# ---------------------------------------------------------------------------
def legacy_random_post(self, command, old, ghost):
    match = old.self.confirm_value == ghost.v_c1
    return split(not match, failed_check(self, old, ghost, EC.CONFIRM_VALUE_FAILED), None) + split(match, passed_check(self, old, ghost) + [
        # next step: the initiator starts encryption with the STK, the responder answers with its own random
        self.stk is not None and self.stk == ghost.v_s1 and self.ltk == ghost.v_r,
        implies(self.is_initiator, ghost.n_enc == old.ghost.n_enc + 1 and ghost.enc_key == ghost.v_s1 and nothing_else_sent(ghost, old)),
        implies(not self.is_initiator, ghost.n_enc == old.ghost.n_enc and ghost.n_random == old.ghost.n_random + 1 and ghost.random_value == self.r
                and ghost.n_confirm == old.ghost.n_confirm and ghost.n_dhkey == old.ghost.n_dhkey and ghost.n_other == old.ghost.n_other),
    ], None)


contract(
    'bumble.smp:Session.on_smp_pairing_random_command_legacy',
    prop='C13',
    params=dict(self=SESSION_H, command=Inst('bumble.smp:SMP_Pairing_Random_Command#h')),
    ghost=H_GHOST,
    requires=lambda self: role_ok(self),
    ensures=legacy_random_post,
    ensures_names=['mismatch-' + n for n in FAILED_NAMES] + ['match-no-failure', 'match-nothing-reported', 'match-completed-unchanged',
                                                            'match-stk-ltk', 'match-initiator-encrypts-with-stk', 'match-responder-sends-random'],
    # no confirm value received yet (or an empty one): `assert self.confirm_value`
    raises={AssertionError: lambda self, old, ghost: [not old.self.confirm_value, ghost.n_failed_cmd == old.ghost.n_failed_cmd, ghost.n_enc == old.ghost.n_enc]},
    modifies=['self.completed', 'self.stk', 'self.ltk'] + H_MODIFIES_OUT,
    inline=H_INLINE,
    stubs=CRYPTO_STUBS,
)


# ---------------------------------------------------------------------------
# LE Secure Connections: Pairing Random received -> commitment check (Vol 3 Part H 2.3.5.6.2 Just Works / Numeric
# Comparison: the initiator checks Cb; 2.3.5.6.3 Passkey Entry: both check, 20 rounds; a wrong passkey shows up here)
# ---------------------------------------------------------------------------
def sc_random_checks(self):
    """does this handler compare a commitment (entry state)"""
    if self.pairing_method == PM.PASSKEY:
        return self.passkey is not None
    return self.is_initiator and (self.pairing_method == PM.JUST_WORKS or self.pairing_method == PM.NUMERIC_COMPARISON)


def asks_user(self):
    """Just Works (confirmation) and Numeric Comparison: the local user is asked before the pairing goes on"""
    return self.pairing_method == PM.JUST_WORKS or self.pairing_method == PM.NUMERIC_COMPARISON


def sc_random_post(self, command, old, ghost):
    checks = sc_random_checks(old.self)
    ignored = old.self.pairing_method == PM.PASSKEY and old.self.passkey is None
    match = old.self.confirm_value == ghost.v_f4
    untouched = (self.passkey_step == old.self.passkey_step and self.ea == old.self.ea and self.eb == old.self.eb
                 and ghost.released == old.ghost.released and ghost.n_dhkey == old.ghost.n_dhkey)
    # the user's confirmation step is reached (commitment check passed / not this side's to make) ...
    asked = asks_user(old.self) and not (checks and not match)
    # ... and the user said no (or the delegate failed)
    refused = asked and ghost.answer != 1
    accepted = asked and ghost.answer == 1
    return (
        split(checks and not match, failed_check(self, old, ghost, EC.CONFIRM_VALUE_FAILED) + [untouched], None)
        + split(not (checks and not match) and not refused, passed_check(self, old, ghost), None)
        + [
            # -- the local user's answer gates the next step, on BOTH roles (statement: user answers accept/reject) --
            implies(asked, ghost.prompts == old.ghost.prompts + 1 and ghost.tasks == old.ghost.tasks + 1),
            implies(not asked, ghost.prompts == old.ghost.prompts),
            # the responder's next step (its DHKey check, sent by on_smp_pairing_dhkey_check_command) awaits
            # wait_before_continuing: that future exists, is this step's own, on the side that awaits it
            implies(asked and not self.is_initiator, self.wait_before_continuing is ghost.fresh_waiter and ghost.futures == old.ghost.futures + 1),
            # accepted: the initiator sends its DHKey check, the responder releases its own (exactly that future, once)
            implies(accepted and self.is_initiator, ghost.n_dhkey == old.ghost.n_dhkey + 1 and ghost.dhkey_value == self.ea),
            implies(accepted and not self.is_initiator, ghost.n_dhkey == old.ghost.n_dhkey and ghost.released_fresh == old.ghost.released_fresh + 1
                    and ghost.released == old.ghost.released + 1 and ghost.confirmed),
            implies(asked, ghost.released == old.ghost.released + (1 if accepted and not self.is_initiator else 0)),
            # refused: Pairing Failed, session failed, and nothing further: no DHKey check, the responder's future stays unresolved
            implies(refused, ghost.n_failed_cmd == old.ghost.n_failed_cmd + 1 and self.completed
                    and ghost.failure_reports == old.ghost.failure_reports + (0 if old.self.completed else 1)),
            implies(refused, ghost.n_dhkey == old.ghost.n_dhkey and ghost.released == old.ghost.released and ghost.n_enc == old.ghost.n_enc
                    and ghost.n_confirm == old.ghost.n_confirm and ghost.n_other == old.ghost.n_other),
            implies(refused and not self.is_initiator, not ghost.confirmed),
            implies(refused and self.pairing_result is not None and not old.self.completed, ghost.result_done and (old.ghost.result_done or not ghost.result_ok)),
        ]
        + [
            ghost.n_enc == old.ghost.n_enc,  # this step never starts encryption
            implies(ignored, nothing_else_sent(ghost, old) and untouched and self.ltk == old.self.ltk and ghost.prompts == old.ghost.prompts),
            # Passkey Entry, check passed: one more of the 20 rounds is done
            implies(checks and match and old.self.pairing_method == PM.PASSKEY, self.passkey_step == old.self.passkey_step + 1),
            # the DHKey check value only leaves the initiator, and only after all rounds / after the user confirmed
            implies(ghost.n_dhkey != old.ghost.n_dhkey, self.is_initiator and ghost.n_dhkey == old.ghost.n_dhkey + 1 and ghost.dhkey_value == self.ea
                    and (old.self.pairing_method == PM.OOB or (old.self.pairing_method == PM.PASSKEY and self.passkey_step == 20) or accepted)),
        ]
    )


contract(
    'bumble.smp:Session.on_smp_pairing_random_command_secure_connections',
    prop='C13',
    params=dict(self=SESSION_H, command=Inst('bumble.smp:SMP_Pairing_Random_Command#h')),
    ghost=H_GHOST,
    # on_smp_pairing_random_command stores the received value before it dispatches here
    requires=lambda self, command: [role_ok(self), self.peer_random_value is not None and self.peer_random_value == command.random_value],
    ensures=sc_random_post,
    ensures_names=['mismatch-' + n for n in FAILED_NAMES] + ['mismatch-round-and-checks-untouched', 'match-no-failure', 'match-nothing-reported',
                                                            'match-completed-unchanged',
                                                            'user-asked-once-for-just-works-and-numeric-comparison', 'user-not-asked-otherwise',
                                                            'responder-holds-the-future-its-dhkey-check-awaits',
                                                            'accepted-initiator-sends-dhkey-check', 'accepted-responder-releases-its-dhkey-check',
                                                            'future-released-only-by-the-users-acceptance',
                                                            'refused-pairing-failed-session-completed', 'refused-nothing-further',
                                                            'refused-responder-future-stays-pending', 'refused-initiator-result-is-error',
                                                            'no-encryption-here', 'ignored-without-passkey',
                                                            'passkey-round-advances', 'dhkey-check-only-from-initiator-at-the-end'],
    raises={AssertionError: lambda self, old, ghost: [ghost.n_failed_cmd == old.ghost.n_failed_cmd, ghost.n_enc == old.ghost.n_enc, ghost.n_dhkey == old.ghost.n_dhkey,
                                                      self.completed == old.self.completed]},
    modifies=['self.completed', 'self.passkey_step', 'self.r', 'self.ltk', 'self.ea', 'self.eb', 'self.wait_before_continuing'] + H_MODIFIES_OUT,
    inline=H_INLINE,
    stubs=CRYPTO_STUBS,
    await_hook=confirmation_await_hook,
)


# ---------------------------------------------------------------------------
# LE Secure Connections: DHKey Check received (Vol 3 Part H 2.3.5.6.5)
# ---------------------------------------------------------------------------
def dhkey_post(self, command, old, ghost):
    expected = old.self.eb if self.is_initiator else old.self.ea
    match = expected == command.dhkey_check
    # a responder whose user was asked (random handler: 'responder-holds-the-future-its-dhkey-check-awaits') holds a confirmation future
    holding = not self.is_initiator and old.self.wait_before_continuing is not None
    sends_eb = ghost.n_dhkey == old.ghost.n_dhkey + 1 and ghost.dhkey_value == self.eb
    return split(not match, failed_check(self, old, ghost, EC.DHKEY_CHECK_FAILED) + [ghost.awaited == old.ghost.awaited], None) + split(match, passed_check(self, old, ghost) + [
        # the initiator may now encrypt with the LTK; the responder answers with its own check value Eb
        implies(self.is_initiator, ghost.n_enc == old.ghost.n_enc + 1 and ghost.enc_key == self.ltk and nothing_else_sent(ghost, old)),
        implies(not self.is_initiator, ghost.n_enc == old.ghost.n_enc),
        implies(not self.is_initiator and not holding, sends_eb and ghost.awaited == old.ghost.awaited),
        # ... but only once its own user has confirmed: the future is awaited first, nothing is sent before that await,
        # Eb goes out iff the future was resolved; otherwise nothing at all is sent and the future stays in place
        implies(holding, ghost.awaited == old.ghost.awaited + 1 and ghost.dhkey_at_await == old.ghost.n_dhkey),
        implies(holding and old.ghost.confirmed, sends_eb and self.wait_before_continuing is None),
        implies(holding and not old.ghost.confirmed, nothing_else_sent(ghost, old) and self.wait_before_continuing is not None),
        ghost.released == old.ghost.released and ghost.confirmed == old.ghost.confirmed,
    ], None)


contract(
    'bumble.smp:Session.on_smp_pairing_dhkey_check_command',
    prop='C13',
    params=dict(self=SESSION_H, command=Inst('bumble.smp:SMP_Pairing_DHKey_Check_Command#h')),
    ghost=H_GHOST,
    requires=lambda self: role_ok(self),
    ensures=dhkey_post,
    ensures_names=['mismatch-' + n for n in FAILED_NAMES] + ['mismatch-nothing-awaited', 'match-no-failure', 'match-nothing-reported', 'match-completed-unchanged',
                                                            'match-initiator-encrypts-with-ltk', 'match-responder-no-encryption', 'match-responder-sends-eb',
                                                            'match-responder-awaits-its-users-confirmation-first', 'match-confirmed-responder-sends-eb',
                                                            'match-unconfirmed-responder-sends-nothing', 'match-handler-does-not-confirm-for-the-user'],
    raises={AssertionError: lambda self, old, ghost: [not (old.self.eb if self.is_initiator else old.self.ea), ghost.n_failed_cmd == old.ghost.n_failed_cmd,
                                                      ghost.n_enc == old.ghost.n_enc]},
    modifies=['self.completed', 'self.wait_before_continuing'] + H_MODIFIES_OUT,
    inline=H_INLINE,
    stubs=CRYPTO_STUBS,
    await_hook=confirmation_await_hook,
)


# ---------------------------------------------------------------------------
# the two handlers in sequence on the RESPONDER (Just Works with confirmation / Numeric Comparison): the real
# on_smp_pairing_random_command_secure_connections (the local user answers in it: ghost.answer), then the initiator's
# DHKey check arrives and the real on_smp_pairing_dhkey_check_command runs.  The responder's own DHKey check -- the
# message that lets the initiator start encryption and both sides store keys -- leaves iff the local user accepted.
# ---------------------------------------------------------------------------
def lemma_responder_waits_for_its_user(s, random_cmd, dhkey_cmd, ghost):
    s.on_smp_pairing_random_command_secure_connections(random_cmd)
    assert ghost.n_dhkey == 0, 'no-dhkey-check-before-the-initiators'
    assert ghost.prompts == 1, 'user-asked'
    accepted = ghost.answer == 1
    matched = s.ea == dhkey_cmd.dhkey_check
    s.on_smp_pairing_dhkey_check_command(dhkey_cmd)
    assert ghost.n_dhkey == (1 if accepted and matched else 0), 'dhkey-check-sent-iff-user-accepted'
    assert implies(ghost.n_dhkey == 1, ghost.dhkey_value == s.eb and ghost.dhkey_at_await == 0), 'sent-after-the-await'
    assert implies(not accepted, s.completed and ghost.n_failed_cmd >= 1 and ghost.failure_reports == 1), 'refusal-fails-the-pairing'
    assert ghost.n_enc == 0, 'responder-never-starts-encryption'


lemma(
    'responder_waits_for_its_user',
    lemma_responder_waits_for_its_user,
    prop='C13',
    params=dict(s=SESSION_H, random_cmd=Inst('bumble.smp:SMP_Pairing_Random_Command#h'), dhkey_cmd=Inst('bumble.smp:SMP_Pairing_DHKey_Check_Command#h')),
    ghost=H_GHOST,
    requires=lambda s, random_cmd, ghost: [
        role_ok(s), not s.is_initiator, asks_user(s), not s.completed,
        s.peer_random_value is not None and s.peer_random_value == random_cmd.random_value and len(random_cmd.random_value) > 0,
        # Pairing Request / Response were exchanged; the check value Ea the stubbed f6 returns is not empty
        # (the handlers `assert self.preq and self.pres` / `assert expected`)
        len(s.preq) > 0 and len(s.pres) > 0 and len(ghost.v_f6a) > 0,
        ghost.n_dhkey == 0 and ghost.n_failed_cmd == 0 and ghost.failure_reports == 0 and ghost.n_enc == 0 and ghost.prompts == 0 and ghost.f6_calls == 0,
    ],
    inline=H_INLINE + ['Session.on_smp_pairing_random_command_secure_connections', 'Session.on_smp_pairing_dhkey_check_command'],
    stubs=CRYPTO_STUBS,
    await_hook=confirmation_await_hook,
)


# ---------------------------------------------------------------------------
# LE Secure Connections: Pairing Public Key received; with OOB data of the peer the commitment Ca/Cb is checked
# (Vol 3 Part H 2.3.5.6.4)
# ---------------------------------------------------------------------------
def public_key_post(self, command, old, ghost):
    # (pairing_method and peer_oob_data are not modified: read in the final state)
    checks = self.pairing_method == PM.OOB and self.peer_oob_data is not None
    match = checks and self.peer_oob_data.c == ghost.v_f4
    return split(checks and not match, failed_check(self, old, ghost, EC.CONFIRM_VALUE_FAILED), None) + split(not checks or match, passed_check(self, old, ghost), None) + [
        ghost.n_enc == old.ghost.n_enc,
    ]


contract(
    'bumble.smp:Session.on_smp_pairing_public_key_command',
    prop='C13',
    params=dict(self=SESSION_H, command=Inst('bumble.smp:SMP_Pairing_Public_Key_Command#h')),
    ghost=H_GHOST,
    requires=lambda self: role_ok(self),
    ensures=public_key_post,
    ensures_names=['mismatch-' + n for n in FAILED_NAMES] + ['match-no-failure', 'match-nothing-reported', 'match-completed-unchanged', 'no-encryption-here'],
    raises={AssertionError: lambda self, old, ghost: [ghost.n_failed_cmd == old.ghost.n_failed_cmd, ghost.n_enc == old.ghost.n_enc, self.completed == old.self.completed]},
    modifies=['self.completed', 'self.peer_public_key_x', 'self.peer_public_key_y', 'self.dh_key', 'self.r'] + H_MODIFIES_OUT,
    inline=H_INLINE,
    stubs=CRYPTO_STUBS,
)


# ---------------------------------------------------------------------------
# key distribution gating: on_pairing (the only caller of Manager.on_pairing) is reached only when every key the
# negotiated distribution announces has arrived, each once, over an encrypted link; anything else fails the pairing
# ---------------------------------------------------------------------------
def rec_complete(ghost):
    ghost.completions = ghost.completions + 1


DIST_CLASSES = (smp.SMP_Encryption_Information_Command, smp.SMP_Master_Identification_Command, smp.SMP_Identity_Information_Command,
                smp.SMP_Identity_Address_Information_Command, smp.SMP_Signing_Information_Command)
model('ghost:Link#k', fields=dict(is_encrypted=Bool, transport=OneOf(smp.PhysicalTransport.LE, smp.PhysicalTransport.BR_EDR)))
model(
    'bumble.smp:Session#k',
    # (a responder's session that has not failed yet: the failure path itself is the contract of on_pairing_failure)
    fields=dict(manager=Inst('ghost:Manager#h'), connection=Inst('ghost:Link#k'), completed=Const(False), pairing_result=Const(None),
                sc=Bool, peer_expected_distributions=Const([])),
    methods={'on_peer_key_distribution_complete': Callback('on_peer_key_distribution_complete', effect=rec_complete)},
)
SESSION_K = Inst('bumble.smp:Session#k')
K_GHOST = dict(H_GHOST, completions=Int)
model('ghost:Control#k', fields={}, methods={'completions': Callback('completions', effect=lambda ghost: ghost.completions),
                                             'failed': Callback('failed', effect=lambda ghost: ghost.n_failed_cmd)})


def expected_commands(sc, le, flags):
    """Vol 3 Part H 3.6.1 / 2.4.3: what the peer sends for a key distribution field -- EncKey: LTK then EDIV/Rand
    (legacy pairing on LE only: with Secure Connections the LTK is not distributed, on BR/EDR it is derived);
    IdKey: IRK then identity address; SignKey: CSRK (LinkKey distributes nothing)"""
    out = []
    if flags % 2 == 1 and not sc and le:
        out = out + [smp.SMP_Encryption_Information_Command, smp.SMP_Master_Identification_Command]
    if (flags // 2) % 2 == 1:
        out = out + [smp.SMP_Identity_Information_Command, smp.SMP_Identity_Address_Information_Command]
    if (flags // 4) % 2 == 1:
        out = out + [smp.SMP_Signing_Information_Command]
    return out


def lemma_key_distribution(ctl, s, flags, extra):
    """the real compute_peer_expected_distributions, then the real check_key_distribution fed with the announced
    commands in the order of the specification, then with one more command `extra`"""
    s.compute_peer_expected_distributions(flags)
    want = expected_commands(s.sc, s.connection.transport == smp.PhysicalTransport.LE, flags)
    assert s.peer_expected_distributions == want, 'expected-commands-are-the-announced-keys'
    n = 0
    for c in want:
        assert ctl.completions() == 0, 'not-complete-before-the-last-key'
        s.check_key_distribution(c)
        n = n + 1
    if len(want) > 0:
        assert ctl.completions() == (1 if s.connection.is_encrypted else 0), 'complete-exactly-once-after-the-last-key'
        assert ctl.failed() == (0 if s.connection.is_encrypted else len(want)), 'unencrypted-link-fails-every-key'
    # a key that was not announced (or is sent a second time) fails the pairing and completes nothing
    before = ctl.completions()
    failed_before = ctl.failed()
    s.check_key_distribution(extra)
    assert ctl.completions() == before, 'unexpected-key-completes-nothing'
    assert ctl.failed() == failed_before + 1, 'unexpected-key-fails-the-pairing'


lemma(
    'key_distribution_gate',
    lemma_key_distribution,
    prop='C13',
    params=dict(ctl=Inst('ghost:Control#k'), s=SESSION_K, flags=OneOf(0, 1, 2, 3, 4, 5, 6, 7, 8, 15), extra=OneOf(*DIST_CLASSES)),
    ghost=K_GHOST,
    requires=lambda ghost: [ghost.completions == 0, ghost.n_failed_cmd == 0],
    inline=['Session.compute_peer_expected_distributions', 'Session.check_key_distribution', 'Session.send_pairing_failed', 'Session.send_command',
            'Session.on_pairing_failure', 'ProtocolError.__init__', 'BaseError.__init__'],
)
