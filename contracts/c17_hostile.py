"""C17 -- hostile peer or controller input cannot wedge or derail the stack.

For each byte-level entry point, with the input an UNCONSTRAINED byte string:
  T  termination      every loop has a decreasing measure
  E  containment      only the declared (ordinary) exception classes escape; at the boundary functions nothing escapes
  S  state safety     the owning object's representation invariant holds on EVERY exit, the exceptional ones included,
                      so the next well-formed input is handled from a good state

Files:  c17_hostile.py  part 1: the AT-command stream of HFP -- HfProtocol._read_at, AgProtocol._read_at,
                        AtResponse.parse_from, AtCommand.parse_from, at.tokenize_parameters, at.parse_parameters
        c17_pdus.py     part 2: ATT_PDU.from_bytes (list-parsing constructors), Device.on_gatt_pdu, Client.on_gatt_pdu
        c17_l2cap.py    part 3: L2CAP_Control_Frame.from_bytes, ChannelManager.on_pdu / on_control_frame, CoC on_pdu for any K-frame
        c17_smp.py      part 4: SMP_Command.from_bytes, Manager.on_smp_pdu, Session.on_smp_command, Host.on_packet / on_hci_event_packet
        c17_misc.py     part 5: AdvertisingData.append / from_bytes, sdp.Server.on_pdu, sdp.Client.on_pdu
        c17_unwind.py   part 6: the layers an exception unwinds through (ACL assembler, RFCOMM DLC, CoC) with a consumer that raises
"""
import re

import pyvc.ext_c03  # noqa: F401
import pyvc.ext_c20  # noqa: F401
import pyvc.ext_c17  # noqa: F401
from bumble import at, core, hfp
from pyvc.contracts import (Any, Bool, ByteArray, Bytes, Callback, ConcList, Const, Inst, Int, IntRange, ListOf, OneOf, Opt, Str,
                            TupleOf, contract, fresh_int, iff, implies, lemma, model)

PROP = 'C17'

ENVIRONMENT = [
    'what happens to an exception that leaves an entry point: the HCI transport calls Host.on_packet inside try/except Exception '
    '(PacketParser.feed_data, C02; PacketPump.run) and logs it, so every exception class listed in a `raises` clause here ends there; '
    'the frames of the call chain in between (ACL assembler C05, ChannelManager.on_pdu, channel objects) are unwound',
    'logger calls are dropped by the engine (A5) except for the `.decode()` calls inside their arguments (contract kwarg logger_args), '
    'which are evaluated for their UnicodeDecodeError path; __str__/__repr__ of objects formatted into log lines are assumed total',
    'regular expression semantics (AtCommand._PARSE_PATTERN) are not interpreted: fullmatch returns no match or a match whose groups are '
    'arbitrary strings, sub_code one of the four alternatives of the pattern',
]


def is_suffix(s, t):
    """s is what is left of t after removing a prefix"""
    return len(s) <= len(t) and t == t[:len(t) - len(s)] + s


# ---------------------------------------------------------------------------
# at.tokenize_parameters / at.parse_parameters: total on arbitrary bytes, AtParsingError only
# ---------------------------------------------------------------------------
contract(
    'bumble.at:tokenize_parameters',
    key='bumble.at:tokenize_parameters@C17',
    prop=PROP,
    profile='skeleton',
    params=dict(buffer=Bytes),
    returns=ListOf(Bytes),
    raises={at.AtParsingError: None},
    invariants={0: lambda buffer, _i: [0 <= _i, _i <= len(buffer)]},
    decreases={0: lambda buffer, _i: len(buffer) - _i},
    loop_locals={0: {'tokens': Any}},
    modifies=[],
    note='T+E: one step per input byte; AtParsingError is the only exception (same kernel as C20, restated for arbitrary bytes)',
)
contract(
    'bumble.at:parse_parameters',
    key='bumble.at:parse_parameters@C17',
    prop=PROP,
    profile='skeleton',
    params=dict(buffer=Bytes),
    returns=Any,
    raises={at.AtParsingError: None},
    invariants={0: lambda tokens, _i: [0 <= _i, _i <= len(tokens)]},
    decreases={0: lambda tokens, _i: len(tokens) - _i},
    loop_locals={0: {'accumulator': Any, 'current': Any}},
    modifies=[],
    uses=['bumble.at:tokenize_parameters@C17'],
    note='T+E: one step per token; nesting of the parameter lists is not interpreted',
)

# ---------------------------------------------------------------------------
# AtResponse.parse_from / AtCommand.parse_from: which exceptions a line of arbitrary bytes can raise
# ---------------------------------------------------------------------------
model('bumble.hfp:AtResponse#17', fields=dict(code=OneOf('OK', '+BRSF', 'RING'), parameters=Any))
model('bumble.hfp:AtCommand#17', fields=dict(code=OneOf('CHUP', 'ZZZZ'), sub_code=OneOf(*hfp.AtCommand.SubCode), parameters=Const([])))

contract(
    'bumble.hfp:AtResponse.parse_from',
    prop=PROP,
    params=dict(cls=Const(hfp.AtResponse), buffer=ByteArray),
    returns=Inst('bumble.hfp:AtResponse#17'),
    raises={at.AtParsingError: None, UnicodeDecodeError: None},
    modifies=[],
    uses=['bumble.at:parse_parameters@C17'],
    note='E: a response line of arbitrary bytes raises AtParsingError or UnicodeDecodeError, nothing else',
)


def re_group(ghost, match, name):
    if name == 'sub_code':
        return match.sub
    if name == 'parameters':
        return match.ptext
    return match.code


model('ghost:Match', fields=dict(sub=OneOf(None, '=?', '=', '?'), ptext=OneOf(None, '', Str), code=Str),
      methods={'group': Callback('group', effect=re_group, with_self=True)})
RE_STUBS = {hfp.AtCommand._PARSE_PATTERN.fullmatch: Callback('fullmatch', returns=OneOf(None, Inst('ghost:Match')))}

contract(
    'bumble.hfp:AtCommand.parse_from',
    prop=PROP,
    params=dict(cls=Const(hfp.AtCommand), buffer=ByteArray),
    returns=Inst('bumble.hfp:AtCommand#17'),
    raises={hfp.HfpProtocolError: None, at.AtParsingError: None, UnicodeDecodeError: None},
    modifies=[],
    uses=['bumble.at:parse_parameters@C17'],
    stubs=RE_STUBS,
    inline=['HfpProtocolError.__init__', 'BaseError.__init__'],
    note='E: a command line of arbitrary bytes raises HfpProtocolError, AtParsingError or UnicodeDecodeError, nothing else '
         '(regular expression matching is a stub: no match, or a match with arbitrary groups)',
)


# ---------------------------------------------------------------------------
# HfProtocol._read_at / AgProtocol._read_at
#
# S (state safety of the line buffer): whatever the bytes, every call leaves `read_buffer` a suffix of what was fed, and
#   * on a normal return no complete line is left unprocessed,
#   * on an exceptional exit the buffer is SHORTER than buffer-at-entry + data: the line that raised is gone.  If it stayed
#     (parse before consume), every later call would find the same line first and raise again: the stream is wedged for good.
# T: the loop measure is len(read_buffer).  E: the parser's classes (contracts above) and nothing else.
# ---------------------------------------------------------------------------
class HandlerFailure(Exception):
    """stands for whatever an AG command handler raises on hostile parameters (int(b'x') -> ValueError, ...)"""


def q_put(ghost, response):
    ghost.routed = ghost.routed + 1


model('ghost:Queue17', fields={}, methods={'put_nowait': Callback('put_nowait', effect=q_put)})
model(
    'bumble.hfp:HfProtocol#17',
    fields=dict(read_buffer=ByteArray, pending_command=OneOf(None, 'AT+BRSF=1023'), response_queue=Inst('ghost:Queue17'), unsolicited_queue=Inst('ghost:Queue17')),
)


def hf_no_complete_line(rb):
    header = rb.find(b'\r\n')
    return header == -1 or rb.find(b'\r\n', header + 2) == -1


def consumed_something(self, data, old):
    return [
        is_suffix(bytes(self.read_buffer), bytes(old.self.read_buffer) + data),
        len(self.read_buffer) < len(old.self.read_buffer) + len(data),
    ]


LINE_NAMES = ['buffer-is-a-suffix-of-the-stream', 'no-complete-line-left']
RAISE_POST = lambda self, data, old: consumed_something(self, data, old)  # noqa: E731

contract(
    'bumble.hfp:HfProtocol._read_at',
    prop=PROP,
    params=dict(self=Inst('bumble.hfp:HfProtocol#17'), data=Bytes),
    ghost=dict(routed=Int),
    ensures=lambda self, data, old: [
        is_suffix(bytes(self.read_buffer), bytes(old.self.read_buffer) + data),
        hf_no_complete_line(self.read_buffer),
    ],
    ensures_names=LINE_NAMES,
    raises={at.AtParsingError: RAISE_POST, UnicodeDecodeError: RAISE_POST},
    invariants={0: lambda self, data, old: [is_suffix(bytes(self.read_buffer), bytes(old.self.read_buffer) + data)]},
    decreases={0: lambda self: len(self.read_buffer)},
    modifies=['self.read_buffer', 'ghost.routed'],
    uses=['bumble.hfp:AtResponse.parse_from'],
    logger_args=('decode',),
    note='T+E+S; raises-*#1 is "the offending line is consumed"',
)


def handler_effect(ghost, *args):
    ghost.handled = ghost.handled + 1
    if fresh_int() == 1:
        raise HandlerFailure()


def dlc_write(ghost, text):
    ghost.written = ghost.written + 1


model('ghost:Dlc17', fields={}, methods={'write': Callback('write', effect=dlc_write)})
model(
    'bumble.hfp:AgProtocol#17',
    fields=dict(read_buffer=ByteArray, dlc=Inst('ghost:Dlc17')),
    methods={'_on_chup': Callback('_on_chup', effect=handler_effect, raises=(HandlerFailure,))},
)


def ag_no_complete_line(rb):
    return rb.find(b'\r') == -1


contract(
    'bumble.hfp:AgProtocol._read_at',
    prop=PROP,
    params=dict(self=Inst('bumble.hfp:AgProtocol#17'), data=Bytes),
    ghost=dict(handled=Int, written=Int),
    ensures=lambda self, data, old: [
        is_suffix(bytes(self.read_buffer), bytes(old.self.read_buffer) + data),
        ag_no_complete_line(self.read_buffer),
    ],
    ensures_names=LINE_NAMES,
    raises={hfp.HfpProtocolError: RAISE_POST, at.AtParsingError: RAISE_POST, UnicodeDecodeError: RAISE_POST, HandlerFailure: RAISE_POST},
    invariants={0: lambda self, data, old: [is_suffix(bytes(self.read_buffer), bytes(old.self.read_buffer) + data)]},
    decreases={0: lambda self: len(self.read_buffer)},
    modifies=['self.read_buffer', 'ghost.handled', 'ghost.written'],
    uses=['bumble.hfp:AtCommand.parse_from'],
    inline=['AgProtocol.send_*'],
    logger_args=('decode',),
    note='T+E+S; the command is one with a handler (a recording stub that may raise: HandlerFailure stands for its exception) or without; '
         'which result codes are sent is C20',
)
