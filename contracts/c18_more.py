"""C18 (part 2) — the remaining hand-written codecs: UUID (with the process-wide registry as symbolic pre-state),
SDP data elements, advertising data, addresses, L2CAP basic frames / PSM / configuration options, RFCOMM PN / MSC."""
import pyvc.ext_c18  # noqa: F401  (engine models: object.__new__, record heaps)
from bumble import core
from pyvc.contracts import (Any, Bool, Bytes, BytesN, Inst, Int, IntRange, ListOf, MapOf, OneOf, Opaque, Opt, Rec, lemma, model, contract,
                            at, implies, iff, ite, forall, forall_in, rec_live)

ENVIRONMENT = [
    'UUID objects live in a record heap (ghost.uuid_heap); the registry UUID.UUIDS is the symbolic-length list ghost.uuids of '
    'references into it: any length, any content satisfying the class invariant len(uuid_bytes) in {2,4,16} (what UUID.__init__ / from_bytes establish)',
    'a freshly allocated object (object.__new__) has an identity different from every live object; its fields are arbitrary until written',
    'utils.crc_16 (L2CAP FCS) is a pure function with a 16-bit result (trusted contract, bit loop not re-derived)',
    'str <-> UTF-8: a URL is known only by its UTF-8 encoding; str.encode and bytes.decode are inverse on valid UTF-8 (validity uninterpreted)',
    'inside list comprehensions over symbolic-length sequences exceptions of the element expression are not modelled (not used by the lemmas of this file: '
    'their lists have a concrete spine)',
    'a DataElementParser that raised is abandoned (it is a local of DataElement.from_bytes / parse_from_bytes): nothing is claimed about offset / depth after an exception',
]

# ---------------------------------------------------------------------------
# core.UUID and its process-wide registry
# ---------------------------------------------------------------------------
UUID_M = 'bumble.core:UUID'
model(
    UUID_M,
    fields={'uuid_bytes': Bytes, 'name': Opt(Opaque('str'))},
    cls_attrs={'UUIDS': lambda ex: ex.obj(ex.ghost).fields['uuids']},
)
UUID_WORLD = {'uuid_heap': MapOf(UUID_M), 'uuids': ListOf(Rec(UUID_M))}


def uuid_len_ok(u):
    return len(u.uuid_bytes) == 2 or len(u.uuid_bytes) == 4 or len(u.uuid_bytes) == 16


def uuid_world_ok(ghost):
    """class invariant of every registered UUID (what __init__/from_bytes establish) + registered objects are allocated"""
    return forall_in(ghost.uuids, lambda u: rec_live(u) and uuid_len_ok(u))


def uuid_native_setup(env):
    """replay: turn the concretised record heap / registry / record references into real UUID objects and install
    the list as the real process-wide registry"""
    g = env['ghost']
    recs = g.uuid_heap.get('__map__', {}) if isinstance(g.uuid_heap, dict) else {}
    objs = {}

    def obj(k):
        if k not in objs:
            rec = recs.get(k, {'uuid_bytes': b'\x00\x00', 'name?': True})
            u = core.UUID.__new__(core.UUID)
            u.uuid_bytes = rec['uuid_bytes']
            u.name = None if rec.get('name?') else f'name#{rec.get("name")}'
            objs[k] = u
        return objs[k]

    g.uuids = [obj(k) for k in g.uuids]
    core.UUID.UUIDS = g.uuids
    for n, v in list(env.items()):
        if isinstance(v, dict) and '__rec__' in v:
            env[n] = obj(v['__rec__'])


contract(
    'bumble.core:UUID.register',
    prop='C18',
    params=dict(self=Rec(UUID_M)),
    ghost=UUID_WORLD,
    requires=lambda self, ghost: [uuid_len_ok(self), uuid_world_ok(ghost)],
    ensures=lambda self, ghost, old, res: [
        # the registered representative serialises exactly like the UUID that was created (value and width)
        res.uuid_bytes == old.self.uuid_bytes,
        self.uuid_bytes == old.self.uuid_bytes,
        # either self joins the registry at the end, or an existing entry is returned and the registry is unchanged
        (res is self and ghost.uuids == old.ghost.uuids + [self]) or (res in old.ghost.uuids and ghost.uuids == old.ghost.uuids),
        uuid_world_ok(ghost),
    ],
    ensures_names=['same-bytes-and-width', 'self-unchanged', 'registry-append-or-hit', 'world-invariant'],
    modifies=['ghost.uuids', 'ghost.uuid_heap.name'],
    returns=Rec(UUID_M),
    invariants={0: lambda ghost, old, _i: [0 <= _i, _i <= len(ghost.uuids), ghost.uuids == old.ghost.uuids]},
    decreases={0: lambda ghost, _i: len(ghost.uuids) - _i},
    inline=['UUID.__eq__', 'UUID.uuid_128_bytes'],
    native_setup=uuid_native_setup,
)

UUID_USES = ['bumble.core:UUID.register']
UUID_INLINE = ['UUID.from_bytes', 'UUID.from_16_bits', 'UUID.from_32_bits', 'UUID.to_bytes', 'UUID.to_pdu_bytes', 'UUID.__bytes__', 'UUID.__eq__',
               'UUID.uuid_128_bytes', 'UUID.parse_uuid', 'UUID.parse_uuid_2']

contract(
    'bumble.core:UUID.from_bytes',
    prop='C18',
    params=dict(cls=OneOf(core.UUID), uuid_bytes=Bytes, name=Opt(Opaque('str'))),
    ghost=UUID_WORLD,
    requires=lambda ghost: uuid_world_ok(ghost),
    ensures=lambda uuid_bytes, ghost, res, old: [
        len(uuid_bytes) == 2 or len(uuid_bytes) == 4 or len(uuid_bytes) == 16,
        # bytes -> UUID -> bytes is the identity, whatever the registry contains
        res.to_bytes() == uuid_bytes,
        bytes(res) == uuid_bytes,
        res in ghost.uuids,
        uuid_world_ok(ghost),
    ],
    ensures_names=['accepted-lengths', 'to_bytes-roundtrip', 'bytes-roundtrip', 'registered', 'world-invariant'],
    raises={core.InvalidArgumentError: lambda uuid_bytes: not (len(uuid_bytes) == 2 or len(uuid_bytes) == 4 or len(uuid_bytes) == 16)},
    modifies=['ghost.uuids', 'ghost.uuid_heap.*'],
    returns=Rec(UUID_M),
    uses=UUID_USES,
    inline=['UUID.to_bytes', 'UUID.__bytes__', 'UUID.__eq__', 'UUID.uuid_128_bytes'],
    native_setup=uuid_native_setup,
)


def lemma_uuid_ints(v16, v32):
    a = core.UUID.from_16_bits(v16)
    b = core.UUID.from_32_bits(v32)
    assert len(a.to_bytes()) == 2
    assert len(b.to_bytes()) == 4
    assert a.to_bytes() == bytes([v16 % 256, v16 // 256])
    assert b.to_bytes() == bytes([v32 % 256, (v32 // 256) % 256, (v32 // 65536) % 256, v32 // 16777216])
    # ATT PDU form (Vol 3 Part F 3.2.1): 16-bit stays 16-bit, 32-bit is expanded to 128-bit with the base UUID
    assert a.to_pdu_bytes() == a.to_bytes()
    assert b.to_pdu_bytes() == core.UUID.BASE_UUID + b.to_bytes()
    assert len(b.to_pdu_bytes()) == 16
    # and the expanded form parses back to an equal UUID that keeps its own (128-bit) width
    c = core.UUID.from_bytes(b.to_pdu_bytes())
    assert len(c.to_bytes()) == 16
    assert c == b
    assert c.to_bytes() == b.to_pdu_bytes()
    # the earlier objects still serialise with the width they were created with
    assert a.to_bytes() == bytes([v16 % 256, v16 // 256])
    assert len(b.to_bytes()) == 4


lemma(
    'uuid_from_ints_and_pdu_bytes',
    lemma_uuid_ints,
    prop='C18',
    params=dict(v16=IntRange(0, 0xFFFF), v32=IntRange(0, 0xFFFFFFFF)),
    ghost=UUID_WORLD,
    requires=lambda ghost: uuid_world_ok(ghost),
    uses=UUID_USES,
    inline=UUID_INLINE,
    native_setup=uuid_native_setup,
)


def lemma_uuid_widths(v):
    # the same 16-bit value in the three representations: all equal, each keeps its width, in any creation order
    # (proof hints, while the context is still empty: the two high octets of the 32-bit form are zero)
    assert (v // 65536) % 256 == 0
    assert v // 16777216 == 0
    assert (v // 256) % 256 == v // 256
    a32 = core.UUID.from_32_bits(v)
    a16 = core.UUID.from_16_bits(v)
    a128 = core.UUID.from_bytes(core.UUID.BASE_UUID + bytes([v % 256, v // 256, 0, 0]))
    # (widths first: they also tell the `match len(..)` of uuid_128_bytes which case each object is in)
    assert len(a16.to_bytes()) == 2
    assert len(a32.to_bytes()) == 4
    assert len(a128.to_bytes()) == 16
    # (proof hints: byte by byte, then the strings, then the 128-bit expansions)
    x16 = a16.to_bytes()
    x32 = a32.to_bytes()
    assert x16[0] == v % 256
    assert x16[1] == v // 256
    assert x32[0] == v % 256
    assert x32[1] == v // 256
    assert x32[2] == 0
    assert x32[3] == 0
    assert x16 == bytes([v % 256, v // 256])
    assert x32 == bytes([v % 256, v // 256, 0, 0])
    assert a128.to_bytes() == core.UUID.BASE_UUID + bytes([v % 256, v // 256, 0, 0])
    assert a16 == a32
    assert a32 == a128
    assert a16 == a128
    # parsing the 16-bit form again (now that equal 32- and 128-bit ones are registered) still gives 16 bits
    again = core.UUID.from_bytes(bytes([v % 256, v // 256]))
    assert again.to_bytes() == bytes([v % 256, v // 256])
    assert again is a16 or again == a16


lemma(
    'uuid_equal_across_widths',
    lemma_uuid_widths,
    prop='C18',
    params=dict(v=IntRange(0, 0xFFFF)),
    ghost=UUID_WORLD,
    requires=lambda ghost: uuid_world_ok(ghost),
    uses=UUID_USES,
    inline=UUID_INLINE,
    native_setup=uuid_native_setup,
)


def lemma_uuid_history(b1, b2):
    u1 = core.UUID.from_bytes(b1)
    u2 = core.UUID.from_bytes(b2)
    u3 = core.UUID.from_bytes(b1)
    # whatever was parsed in between, every parsed UUID re-serialises to the bytes it was parsed from
    assert u1.to_bytes() == b1
    assert u2.to_bytes() == b2
    assert u3.to_bytes() == b1
    assert u1 == u3
    # distinct byte strings of the same width are different UUIDs
    assert implies(len(b1) == len(b2) and b1 != b2, not (u1 == u2))


lemma(
    'uuid_history_independent',
    lemma_uuid_history,
    prop='C18',
    params=dict(b1=Bytes, b2=Bytes),
    ghost=UUID_WORLD,
    requires=lambda b1, b2, ghost: [len(b1) == 2 or len(b1) == 4 or len(b1) == 16, len(b2) == 2 or len(b2) == 4 or len(b2) == 16, uuid_world_ok(ghost)],
    uses=UUID_USES,
    inline=UUID_INLINE,
    native_setup=uuid_native_setup,
)


def lemma_uuid_parse_helpers(data, offset):
    # the two field parsers used by the PDU field specs: a 16-bit UUID at an offset, and "the rest of the buffer"
    end, u = core.UUID.parse_uuid_2(data, offset)
    assert end == offset + 2
    assert u.to_bytes() == data[offset : offset + 2]
    n, w = core.UUID.parse_uuid(data, offset)
    assert n == len(data)
    assert w.to_bytes() == data[offset:]


lemma(
    'uuid_parse_helpers',
    lemma_uuid_parse_helpers,
    prop='C18',
    params=dict(data=Bytes, offset=Int),
    ghost=UUID_WORLD,
    requires=lambda data, offset, ghost: [0 <= offset, offset + 2 <= len(data), len(data) - offset == 2 or len(data) - offset == 4 or len(data) - offset == 16,
                                          uuid_world_ok(ghost)],
    uses=UUID_USES,
    inline=UUID_INLINE,
    native_setup=uuid_native_setup,
)


# ---------------------------------------------------------------------------
# sdp.DataElement / DataElementParser (Core Vol 3 Part B 3.1-3.3; oracle in spec/sdp.py)
# ---------------------------------------------------------------------------
import struct  # noqa: E402

from bumble import sdp  # noqa: E402
from spec import sdp as S  # noqa: E402

DE = sdp.DataElement
PARSER_M = 'bumble.sdp:DataElementParser'
model(PARSER_M, fields={'data': Bytes, 'offset': Int, 'depth': Int, 'max_depth': Int})

# what may escape from the parser on malformed input (truncated header / value, bad integer width, bad UUID width,
# nesting too deep, undecodable URL): the parser object is then abandoned (it is local to DataElement.from_bytes /
# parse_from_bytes), so nothing is promised about its state
PARSE_RAISES = {
    core.InvalidStateError: None,
    core.InvalidPacketError: None,
    core.InvalidArgumentError: None,
    IndexError: None,
    struct.error: None,
    UnicodeDecodeError: None,
}
SDP_INLINE = ['DataElement.*', 'UUID.to_bytes', 'UUID.__bytes__', 'UUID.__eq__', 'UUID.uuid_128_bytes']
SDP_MODIFIES = ['self.offset', 'self.depth', 'ghost.uuids', 'ghost.uuid_heap.*']

contract(
    'bumble.sdp:DataElementParser.parse_next',
    key='bumble.sdp:DataElementParser.parse_next@callee',
    prop='C18',
    params=dict(self=Inst(PARSER_M)),
    ghost=UUID_WORLD,
    requires=lambda self, ghost: [0 <= self.offset, 0 <= self.depth, uuid_world_ok(ghost)],
    ensures=lambda self, old, ghost: [
        self.offset > old.self.offset,  # progress: what makes the list loop terminate
        self.depth == old.self.depth,  # nesting counter restored
        uuid_world_ok(ghost),
    ],
    ensures_names=['offset-advances', 'depth-restored', 'world-invariant'],
    raises=PARSE_RAISES,
    modifies=SDP_MODIFIES,
    returns=Opaque('DataElement'),
    uses=['bumble.sdp:DataElementParser._list_from_bytes', 'bumble.core:UUID.from_bytes'],
    inline=SDP_INLINE,
    note='callee view of parse_next (the result is an opaque element): progress and depth restoration, used by the list loop',
)

contract(
    'bumble.sdp:DataElementParser._list_from_bytes',
    prop='C18',
    params=dict(self=Inst(PARSER_M), end_offset=Int),
    ghost=UUID_WORLD,
    requires=lambda self, ghost: [0 <= self.offset, 0 <= self.depth, uuid_world_ok(ghost)],
    ensures=lambda self, old, end_offset, ghost: [
        self.depth == old.self.depth,  # every normal exit undoes its own increment
        old.self.depth < self.max_depth,
        self.offset >= old.self.offset,
        self.offset >= end_offset,
        implies(old.self.offset >= end_offset, self.offset == old.self.offset),
        uuid_world_ok(ghost),
    ],
    ensures_names=['depth-restored', 'depth-was-below-max', 'offset-monotone', 'list-consumed', 'empty-list-consumes-nothing', 'world-invariant'],
    raises=PARSE_RAISES,
    modifies=SDP_MODIFIES,
    returns=ListOf(Opaque('DataElement')),
    invariants={0: lambda self, old, end_offset, ghost: [self.depth == old.self.depth + 1, self.depth <= self.max_depth, self.offset >= old.self.offset,
                                                         implies(old.self.offset >= end_offset, self.offset == old.self.offset), uuid_world_ok(ghost)]},
    # termination: inside one list the remaining bytes decrease (parse_next advances); across nesting levels
    # max_depth - depth decreases (callee precondition of the recursive parse_next is reached only with depth <= max_depth)
    decreases={0: lambda self, end_offset: end_offset - self.offset},
    loop_locals={0: {'elements': ListOf(Opaque('DataElement'))}},
    uses=['bumble.sdp:DataElementParser.parse_next@callee'],
)


def is_reversed(w, data, end, n):
    """w is the n bytes of data that end at `end`, in reverse order (n concrete)"""
    ok = len(w) == n
    for i in range(n):
        ok = ok and w[i] == at(data, end - 1 - i)
    return ok


def de_value_ok(res, data, start):
    """the parsed value of a scalar element is what the specification says the data bytes mean"""
    vs = start + S.de_header_len(data, start)
    ve = S.de_end(data, start)
    t = res.type
    if t == DE.NIL:
        return res.value is None
    if t == DE.UNSIGNED_INTEGER:
        return res.value_size == ve - vs and res.value == S.be_uint(data, vs, ve - vs)
    if t == DE.SIGNED_INTEGER:
        return res.value_size == ve - vs and res.value == S.be_sint(data, vs, ve - vs)
    if t == DE.TEXT_STRING:
        return res.value == data[vs:ve]
    if t == DE.BOOLEAN:
        return res.value == (data[vs] == 1)
    # UUIDs (byte-reversed on the wire: value checked per width in lemma sdp_uuid_roundtrip_*), sequences / alternatives
    # (element lists), URLs (str) and unknown types: only header, slice and type here
    return True


contract(
    'bumble.sdp:DataElementParser.parse_next',
    prop='C18',
    params=dict(self=Inst(PARSER_M)),
    ghost=UUID_WORLD,
    requires=lambda self, ghost: [0 <= self.offset, 0 <= self.depth, uuid_world_ok(ghost)],
    ensures=lambda self, old, res, ghost: [
        # header codec (size index / size bytes -> value size) for every size, against the oracle of spec/sdp.py
        self.offset == S.de_end(self.data, old.self.offset),
        res.type == S.de_type(self.data, old.self.offset),
        # the cache is the consumed slice, and serialising the parsed element gives exactly those bytes back
        res._bytes == self.data[old.self.offset : self.offset],
        len(res._bytes) >= 1,
        bytes(res) == self.data[old.self.offset : self.offset],
        de_value_ok(res, self.data, old.self.offset),
        self.depth == old.self.depth,
    ],
    ensures_names=['end-offset-per-spec', 'type-per-spec', 'cache-is-consumed-slice', 'cache-not-empty', 'bytes-roundtrip', 'scalar-value-per-spec', 'depth-restored'],
    raises=PARSE_RAISES,
    modifies=SDP_MODIFIES,
    uses=['bumble.sdp:DataElementParser._list_from_bytes', 'bumble.core:UUID.from_bytes'],
    inline=SDP_INLINE,
    native_setup=uuid_native_setup,
)


# -- fields -> bytes -> fields (and bytes again) for every scalar element type, all values / sizes -----------------
SDP_RT_INLINE = ['DataElement.*', 'DataElementParser.*'] + UUID_INLINE
SIZE_INDEX = {1: 0, 2: 1, 4: 2, 8: 3, 16: 4}


def sdp_reparse(e, b):
    """parse b with the real parser (both entry points); the result equals e, consumed everything, re-serialises to b"""
    p = sdp.DataElementParser(b)
    g = p.parse_next()
    assert p.offset == len(b)
    assert p.depth == 0
    assert g.type == e.type
    assert g.value_size == e.value_size
    assert g == e
    assert g._bytes == b
    assert len(g._bytes) >= 1
    assert bytes(g) == b
    end, h = DE.parse_from_bytes(b, 0)
    assert end == len(b)
    assert h == e
    return g


def lemma_sdp_nil():
    e = DE.nil()
    b = bytes(e)
    assert b == bytes([0])
    g = sdp_reparse(e, b)
    assert g.value is None


lemma('sdp_nil_roundtrip', lemma_sdp_nil, prop='C18', params={}, inline=SDP_RT_INLINE)


def lemma_sdp_uint(value, n):
    e = DE.unsigned_integer(value, n)
    b = bytes(e)
    assert len(b) == 1 + n
    assert b[0] == S.UINT * 8 + SIZE_INDEX[n]
    assert S.be_uint(b, 1, n) == value
    g = sdp_reparse(e, b)
    assert g.value == value


def lemma_sdp_sint(value, n):
    e = DE.signed_integer(value, n)
    b = bytes(e)
    assert len(b) == 1 + n
    assert b[0] == S.SINT * 8 + SIZE_INDEX[n]
    assert S.be_sint(b, 1, n) == value
    g = sdp_reparse(e, b)
    assert g.value == value


for _n in (1, 2, 4, 8):
    lemma(f'sdp_uint{8 * _n}_roundtrip', lemma_sdp_uint, prop='C18', params=dict(value=IntRange(0, 2 ** (8 * _n) - 1), n=OneOf(_n)), inline=SDP_RT_INLINE)
    lemma(f'sdp_sint{8 * _n}_roundtrip', lemma_sdp_sint, prop='C18', params=dict(value=IntRange(-(2 ** (8 * _n - 1)), 2 ** (8 * _n - 1) - 1), n=OneOf(_n)),
          inline=SDP_RT_INLINE)


def lemma_sdp_bool(value):
    e = DE.boolean(value)
    b = bytes(e)
    assert b == bytes([S.BOOL * 8, 1 if value else 0])
    g = sdp_reparse(e, b)
    assert g.value == value


lemma('sdp_boolean_roundtrip', lemma_sdp_bool, prop='C18', params=dict(value=Bool), inline=SDP_RT_INLINE)


def lemma_sdp_text(value):
    e = DE.text_string(value)
    b = bytes(e)
    # size index 5 / 6 / 7 and 1 / 2 / 4 big-endian size bytes: the shortest form that holds len(value)
    assert b == S.var_header(S.TEXT, len(value)) + value
    g = sdp_reparse(e, b)
    assert g.value == value


lemma('sdp_text_string_roundtrip', lemma_sdp_text, prop='C18', params=dict(value=Bytes), requires=lambda value: len(value) <= 0xFFFFFFFF, inline=SDP_RT_INLINE)


def lemma_sdp_uuid(ub):
    u = core.UUID.from_bytes(ub)
    e = DE.uuid(u)
    b = bytes(e)
    n = len(ub)
    assert len(b) == 1 + n
    assert b[0] == S.UUID * 8 + SIZE_INDEX[n]
    assert is_reversed(ub, b, 1 + n, n)  # big-endian on the wire
    p = sdp.DataElementParser(b)
    g = p.parse_next()
    assert p.offset == len(b)
    assert p.depth == 0
    assert g.type == DE.UUID
    assert g.value == u
    assert g.value.to_bytes() == ub  # same value, same width
    assert g == e
    assert g._bytes == b
    assert bytes(g) == b
    assert bytes(DE.uuid(g.value)) == b  # also without the cache


for _n in (2, 4, 16):
    lemma(f'sdp_uuid{8 * _n}_roundtrip', lemma_sdp_uuid, prop='C18', params=dict(ub=BytesN(_n)), ghost=UUID_WORLD, requires=lambda ghost: uuid_world_ok(ghost),
          uses=UUID_USES, inline=SDP_RT_INLINE, native_setup=uuid_native_setup)


def lemma_sdp_nested(t1, t2, a, b, c, d, u):
    # nesting depth 2, lists of length 3 and 2 (+ the empty list), every scalar leaf symbolic
    inner = DE(t2, [DE.unsigned_integer_16(b), DE.text_string(c)])
    e = DE(t1, [DE.signed_integer_8(a), inner, DE.boolean(d), DE(t2, []), DE.unsigned_integer_32(u)])
    bs = bytes(e)
    p = sdp.DataElementParser(bs)
    g = p.parse_next()
    assert p.offset == len(bs)
    assert p.depth == 0
    assert g == e
    assert bytes(g) == bs
    assert g.value[1].value[1].value == c
    assert g.value[1]._bytes == bytes(inner)


lemma(
    'sdp_nested_roundtrip_bounded',
    lemma_sdp_nested,
    prop='C18',
    params=dict(t1=OneOf(DE.SEQUENCE, DE.ALTERNATIVE), t2=OneOf(DE.SEQUENCE, DE.ALTERNATIVE), a=IntRange(-128, 127), b=IntRange(0, 0xFFFF), c=BytesN(3), d=Bool,
                u=IntRange(0, 0xFFFFFFFF)),
    inline=SDP_RT_INLINE,
    bounded='nesting depth 2, lists of length 5 / 2 / 0',
    note='bounded: element trees of nesting depth 2 with lists of length 5 / 2 / 0 (recursion over arbitrary trees is outside the SMT encoding); '
         'the unbounded part is the pair of contracts parse_next / _list_from_bytes (offsets, depth counter, consumed slice)',
)


# ---------------------------------------------------------------------------
# core.AdvertisingData (Core Vol 3 Part C 11: length, type, data; length covers type + data)
# ---------------------------------------------------------------------------
from pyvc.contracts import ConcList, TupleOf  # noqa: E402

AD_M = 'bumble.core:AdvertisingData'
model(AD_M, fields={'ad_structures': ListOf(TupleOf(Int, Bytes))})

contract(
    'bumble.core:AdvertisingData.append',
    prop='C18',
    params=dict(self=Inst(AD_M), data=Bytes),
    # arbitrary bytes (truncated structures, zero length bytes, a length byte that points past the end): no exception
    # escapes, the loop terminates, what was there stays there
    ensures=lambda self, old, data: [
        len(self.ad_structures) >= len(old.self.ad_structures),
        self.ad_structures[: len(old.self.ad_structures)] == old.self.ad_structures,
        implies(len(data) < 2, self.ad_structures == old.self.ad_structures),
    ],
    ensures_names=['only-appends', 'old-structures-kept', 'nothing-from-less-than-two-bytes'],
    modifies=['self.ad_structures'],
    invariants={0: lambda self, old, offset, data: [0 <= offset, len(self.ad_structures) >= len(old.self.ad_structures),
                                                    self.ad_structures[: len(old.self.ad_structures)] == old.self.ad_structures,
                                                    implies(len(data) < 2, self.ad_structures == old.self.ad_structures)]},
    decreases={0: lambda offset, data: len(data) - offset},
)


def lemma_ad_fields(structs):
    ad = core.AdvertisingData(structs)
    b = bytes(ad)
    ad2 = core.AdvertisingData.from_bytes(b)
    assert ad2.ad_structures == ad.ad_structures
    assert bytes(ad2) == b


for _n in range(0, 3):
    lemma(f'advertising_data_roundtrip_{_n}_bounded', lemma_ad_fields, prop='C18',
          params=dict(structs=ConcList(TupleOf(IntRange(0, 255), Bytes), _n)),
          requires=lambda structs: [len(x[1]) <= 254 for x in structs],
          inline=['AdvertisingData.*'],
          bounded=f'{_n} structures',
          note=f'bounded: {_n} AD structures (every type code and data length 0..254 symbolic); the step lemma advertising_data_structure_step '
               'and the contract of append cover one structure at any offset / arbitrary bytes')


# ---------------------------------------------------------------------------
# hci.Address: 6 little-endian bytes + address type
# ---------------------------------------------------------------------------
from bumble import hci  # noqa: E402

AT = hci.AddressType
ADDRESS_TYPES = (AT.PUBLIC_DEVICE, AT.RANDOM_DEVICE, AT.PUBLIC_IDENTITY, AT.RANDOM_IDENTITY, AT.UNABLE_TO_RESOLVE, AT.ANONYMOUS)


def lemma_address_fields(ab, address_type, pre, post):
    a = hci.Address(ab, address_type)
    assert bytes(a) == ab
    assert a.address_type == address_type
    # object -> bytes -> object at any offset of a larger buffer, type given by the caller ...
    data = pre + bytes(a) + post
    end, b = hci.Address.parse_address_with_type(data, len(pre), address_type)
    assert end == len(pre) + 6
    assert b == a
    assert bytes(b) == ab
    assert b.address_type == address_type
    assert b.is_public == a.is_public
    # ... or carried in the byte before the address
    data2 = pre + bytes([address_type]) + bytes(a) + post
    end2, c = hci.Address.parse_address_preceded_by_type(data2, len(pre) + 1)
    assert end2 == len(pre) + 7
    assert c == a
    assert bytes(c) == ab
    assert c.address_type == address_type
    # the type-less forms fix the type
    end3, d = hci.Address.parse_address(data, len(pre))
    end4, r = hci.Address.parse_random_address(data, len(pre))
    assert bytes(d) == ab
    assert d.address_type == AT.PUBLIC_DEVICE
    assert bytes(r) == ab
    assert r.address_type == AT.RANDOM_DEVICE
    assert a.clone() == a
    assert bytes(a.clone()) == ab


lemma('address_fields_roundtrip', lemma_address_fields, prop='C18',
      params=dict(ab=BytesN(6), address_type=OneOf(*ADDRESS_TYPES), pre=Bytes, post=Bytes), inline=['Address.*'])


def lemma_address_bytes(data, offset):
    # bytes -> object -> bytes for every 6-byte window; the object keeps exactly those bytes
    end, a = hci.Address.parse_address(data, offset)
    assert end == offset + 6
    assert bytes(a) == data[offset : offset + 6]
    assert len(bytes(a)) == 6


lemma('address_bytes_roundtrip', lemma_address_bytes, prop='C18', params=dict(data=Bytes, offset=Int),
      requires=lambda data, offset: [0 <= offset, offset + 6 <= len(data)], inline=['Address.*'])


# ---------------------------------------------------------------------------
# l2cap: basic frame (Core Vol 3 Part A 3.1 / 3.3.5 FCS), PSM field (4.2), configuration options (5)
# ---------------------------------------------------------------------------
from bumble import l2cap, utils  # noqa: E402
from pyvc.contracts import NATIVE_UF, uf  # noqa: E402

NATIVE_UF['crc_16'] = utils.crc_16
contract(
    'bumble.utils:crc_16',
    key='bumble.utils:crc_16@pure',
    params=dict(data=Bytes),
    returns=Int,
    ensures=lambda data, res: [res == uf('crc_16', data), 0 <= res, res <= 0xFFFF],
    modifies=[],
    trusted=True,
    note='crc_16 is treated as a pure function of its argument with a 16-bit result (bitwise CRC loop not re-derived)',
)


def lemma_l2cap_pdu(cid, payload):
    p = l2cap.L2CAP_PDU(cid, payload)
    b = bytes(p)
    assert len(b) == 4 + len(payload)
    assert b[0] == len(payload) % 256
    assert b[1] == len(payload) // 256
    assert b[2] == cid % 256
    assert b[3] == cid // 256
    assert b[4:] == payload
    assert b == p.to_bytes(with_fcs=False)
    q = l2cap.L2CAP_PDU.from_bytes(b)
    assert q.cid == cid
    assert q.payload == payload
    assert bytes(q) == b


lemma('l2cap_pdu_roundtrip', lemma_l2cap_pdu, prop='C18', params=dict(cid=IntRange(0, 0xFFFF), payload=Bytes),
      requires=lambda payload: len(payload) <= 0xFFFF, inline=['L2CAP_PDU.*'])


def lemma_l2cap_pdu_fcs(cid, payload):
    p = l2cap.L2CAP_PDU(cid, payload)
    b = p.to_bytes(with_fcs=True)
    n = len(payload) + 2  # the length field covers the FCS
    assert len(b) == 4 + n
    assert b[0] == n % 256
    assert b[1] == n // 256
    assert b[2] == cid % 256
    assert b[3] == cid // 256
    assert b[4 : 4 + len(payload)] == payload
    # the FCS is computed over header + payload and sent least significant octet first
    fcs = uf('crc_16', b[: 4 + len(payload)])
    assert b[4 + len(payload)] == fcs % 256
    assert b[5 + len(payload)] == fcs // 256
    # the receiver sees a basic frame whose payload still carries the FCS; re-serialising it gives the same bytes
    q = l2cap.L2CAP_PDU.from_bytes(b)
    assert q.cid == cid
    assert len(q.payload) == n
    assert q.payload[: len(payload)] == payload
    assert bytes(q) == b


lemma('l2cap_pdu_fcs_roundtrip', lemma_l2cap_pdu_fcs, prop='C18', params=dict(cid=IntRange(0, 0xFFFF), payload=Bytes),
      requires=lambda payload: len(payload) <= 0xFFFD, inline=['L2CAP_PDU.*'], uses=['bumble.utils:crc_16@pure'])


def lemma_l2cap_pdu_bytes(b):
    q = l2cap.L2CAP_PDU.from_bytes(b)
    # (proof hints: field values, then the re-serialised header byte by byte, then the payload)
    assert q.cid == b[2] + 256 * b[3]
    assert q.payload == b[4:]
    assert len(q.payload) == b[0] + 256 * b[1]
    r = bytes(q)
    assert len(r) == len(b)
    assert r[0] == b[0]
    assert r[1] == b[1]
    assert r[2] == b[2]
    assert r[3] == b[3]
    assert r[:4] == b[:4]
    assert r[4:] == b[4:]
    assert r == b


lemma('l2cap_pdu_bytes_roundtrip', lemma_l2cap_pdu_bytes, prop='C18', params=dict(b=Bytes),
      # well-formed: the length field says how many bytes follow the 4-byte header
      requires=lambda b: [len(b) >= 4, len(b) == 4 + at(b, 0) + 256 * at(b, 1)], inline=['L2CAP_PDU.*'])

CR = l2cap.L2CAP_Connection_Request


def psm_value(bs):
    v = 0
    for i in range(len(bs)):
        v = v + bs[i] * (256 ** i)
    return v


def psm_well_formed(bs):
    """Core Vol 3 Part A 4.2: every octet but the most significant one is odd, the most significant octet is even; the
    encoding is minimal (at least 2 octets, no zero most significant octet beyond that)"""
    n = len(bs)
    return [at(bs, i) % 2 == 1 for i in range(n - 1)] + [at(bs, n - 1) % 2 == 0] + ([at(bs, n - 1) != 0] if n > 2 else [])


def lemma_psm(bs, pre, post):
    psm = psm_value(bs)
    s = CR.serialize_psm(psm)
    assert s == bs
    data = pre + s + post
    end, v = CR.parse_psm(data, len(pre))
    assert end == len(pre) + len(bs)
    assert v == psm
    assert CR.serialize_psm(v) == data[len(pre) : end]


for _n in (2, 3, 4):
    lemma(f'l2cap_psm_roundtrip_{_n}_octets', lemma_psm, prop='C18', params=dict(bs=BytesN(_n), pre=BytesN(3), post=Bytes),
          requires=lambda bs: psm_well_formed(bs), inline=['L2CAP_Connection_Request.*'],
          **({'bounded': f'PSM field of {_n} octets (stand-in for fields longer than the 2 octets every assigned PSM has)'} if _n > 2 else {}),
          note='PSM fields of 2, 3 and 4 octets (the specification allows longer ones; every PSM assigned so far has 2): the loops '
               'of parse_psm / serialize_psm are unrolled because their tests are decided by the well-formedness of the octets')

CF = l2cap.L2CAP_Control_Frame

contract(
    'bumble.l2cap:L2CAP_Control_Frame.decode_configuration_options',
    prop='C18',
    params=dict(data=Bytes),
    # arbitrary bytes (truncated option, length pointing past the end, odd trailing byte): terminates, raises nothing
    ensures=lambda data, res: [implies(len(data) < 2, len(res) == 0), 2 * len(res) <= len(data)],
    ensures_names=['nothing-from-less-than-two-bytes', 'at-least-two-bytes-per-option'],
    returns=ListOf(TupleOf(Int, Bytes)),
    modifies=[],
    invariants={0: lambda data, old, options: [2 * len(options) + len(data) <= len(old.data)]},
    decreases={0: lambda data: len(data)},
    loop_locals={0: {'options': ListOf(TupleOf(Int, Bytes))}},
)


def lemma_options(options):
    b = CF.encode_configuration_options(options)
    d = CF.decode_configuration_options(b)
    assert d == options
    assert CF.encode_configuration_options(d) == b


for _n in range(0, 4):
    lemma(f'l2cap_configuration_options_roundtrip_{_n}_bounded', lemma_options, prop='C18',
          params=dict(options=ConcList(TupleOf(IntRange(0, 255), Bytes), _n)),
          requires=lambda options: [len(x[1]) <= 255 for x in options],
          inline=['L2CAP_Control_Frame.*'],
          bounded=f'{_n} options',
          note=f'bounded: option lists of length {_n} (every type code and value length 0..255 symbolic); termination and absence of '
               'exceptions of the decoder on arbitrary bytes are in the contract of decode_configuration_options')


# ---------------------------------------------------------------------------
# RFCOMM multiplexer commands PN (TS 07.10 5.4.6.3.1 + RFCOMM 5.5.3) and MSC (5.4.6.3.7)
# ---------------------------------------------------------------------------
from bumble import rfcomm  # noqa: E402


def lemma_pn_fields(dlci, cl, priority, ack_timer, max_frame_size, max_retransmissions, initial_credits):
    pn = rfcomm.RFCOMM_MCC_PN(dlci=dlci, cl=cl, priority=priority, ack_timer=ack_timer, max_frame_size=max_frame_size,
                              max_retransmissions=max_retransmissions, initial_credits=initial_credits)
    b = bytes(pn)
    assert len(b) == 8
    assert b[0] == dlci
    assert b[1] == cl
    assert b[2] == priority
    assert b[3] == ack_timer
    assert b[4] == max_frame_size % 256
    assert b[5] == max_frame_size // 256  # N1, least significant octet first
    assert b[6] == max_retransmissions
    assert b[7] == initial_credits
    q = rfcomm.RFCOMM_MCC_PN.from_bytes(b)
    assert q == pn
    assert bytes(q) == b


lemma('rfcomm_pn_fields_roundtrip', lemma_pn_fields, prop='C18',
      params=dict(dlci=IntRange(0, 63), cl=IntRange(0, 255), priority=IntRange(0, 63), ack_timer=IntRange(0, 255), max_frame_size=IntRange(0, 0xFFFF),
                  max_retransmissions=IntRange(0, 255), initial_credits=IntRange(0, 7)),
      inline=['RFCOMM_MCC_PN.*'])


def lemma_pn_bytes(b):
    q = rfcomm.RFCOMM_MCC_PN.from_bytes(b)
    assert bytes(q) == b


lemma('rfcomm_pn_bytes_roundtrip', lemma_pn_bytes, prop='C18', params=dict(b=BytesN(8)),
      # well-formed: the five reserved bits of the last octet are zero (only 3 bits of credits are meaningful)
      requires=lambda b: at(b, 7) <= 7, inline=['RFCOMM_MCC_PN.*'])


def lemma_msc_fields(dlci, fc, rtc, rtr, ic, dv):
    m = rfcomm.RFCOMM_MCC_MSC(dlci=dlci, fc=fc, rtc=rtc, rtr=rtr, ic=ic, dv=dv)
    b = bytes(m)
    assert len(b) == 2
    assert b[0] == dlci * 4 + 3  # EA = 1, C/R = 1, DLCI in bits 2..7
    assert b[1] == 1 + 2 * fc + 4 * rtc + 8 * rtr + 64 * ic + 128 * dv  # EA, FC, RTC, RTR, (reserved 0 0), IC, DV
    q = rfcomm.RFCOMM_MCC_MSC.from_bytes(b)
    assert q == m
    assert bytes(q) == b


lemma('rfcomm_msc_fields_roundtrip', lemma_msc_fields, prop='C18',
      params=dict(dlci=IntRange(0, 63), fc=IntRange(0, 1), rtc=IntRange(0, 1), rtr=IntRange(0, 1), ic=IntRange(0, 1), dv=IntRange(0, 1)),
      inline=['RFCOMM_MCC_MSC.*'])


def lemma_msc_bytes(b):
    q = rfcomm.RFCOMM_MCC_MSC.from_bytes(b)
    assert bytes(q) == b


lemma('rfcomm_msc_bytes_roundtrip', lemma_msc_bytes, prop='C18', params=dict(b=BytesN(2)),
      # well-formed: EA and C/R bits of the address octet set, EA bit of the signals octet set, reserved bits 4-5 zero
      requires=lambda b: [at(b, 0) % 4 == 3, at(b, 1) % 2 == 1, (at(b, 1) // 16) % 4 == 0], inline=['RFCOMM_MCC_MSC.*'])


# ---------------------------------------------------------------------------
# RTP media packets with 4..15 CSRC words (0..3 are in c18_codecs.py): the CSRC count is a 4-bit field, so 0..15 is
# every value it can take
# ---------------------------------------------------------------------------
from bumble import rtp  # noqa: E402

RTP_INLINE = ['MediaPacket.*']


def lemma_rtp_fields_many(version, padding, extension, marker, sequence_number, timestamp, ssrc, csrc_list, payload_type, payload):
    # same statement as lemma_rtp_fields of c18_codecs.py, with the CSRC words compared one by one first (proof hints)
    p = rtp.MediaPacket(version, padding, extension, marker, sequence_number, timestamp, ssrc, csrc_list, payload_type, payload)
    b = bytes(p)
    assert len(b) == 12 + 4 * len(csrc_list) + len(payload)
    assert b[0] % 16 == len(csrc_list)
    q = rtp.MediaPacket.from_bytes(b)
    assert q.version == version
    assert q.padding == padding
    assert q.extension == extension
    assert q.marker == marker
    assert q.sequence_number == sequence_number
    assert q.timestamp == timestamp
    assert q.ssrc == ssrc
    assert q.payload_type == payload_type
    assert q.payload == payload
    assert len(q.csrc_list) == len(csrc_list)
    for i in range(len(csrc_list)):
        assert q.csrc_list[i] == csrc_list[i]
    assert q.csrc_list == csrc_list
    assert bytes(q) == b


for _n in range(4, 16):
    lemma(
        f'rtp_fields_roundtrip_csrc{_n}',
        lemma_rtp_fields_many,
        prop='C18',
        params=dict(
            version=IntRange(0, 3),
            padding=IntRange(0, 1),
            extension=IntRange(0, 1),
            marker=IntRange(0, 1),
            sequence_number=IntRange(0, 0xFFFF),
            timestamp=IntRange(0, 0xFFFFFFFF),
            ssrc=IntRange(0, 0xFFFFFFFF),
            csrc_list=ConcList(IntRange(0, 0xFFFFFFFF), _n),
            payload_type=IntRange(0, 127),
            payload=Bytes,
        ),
        inline=RTP_INLINE,
        note=f'CSRC count {_n} (with c18_codecs.py: every value 0..15 of the 4-bit count field)',
    )


# -- URL elements: text known by its UTF-8 encoding (pyvc.ext_c18.Utf8Str) -------------------------------------------
from pyvc.ext_c18 import utf8_valid  # noqa: E402

model('pyvc.ext_c18:Utf8Str', fields={'b': Bytes}, build=lambda fields, builder: bytes(fields['b']).decode('utf-8', errors='replace'))


def lemma_sdp_url(value):
    e = DE.url(value)
    b = bytes(e)
    assert b == S.var_header(S.URL, len(value.encode('utf-8'))) + value.encode('utf-8')
    g = sdp_reparse(e, b)
    assert g.value == value


lemma('sdp_url_roundtrip', lemma_sdp_url, prop='C18', params=dict(value=Inst('pyvc.ext_c18:Utf8Str')),
      requires=lambda value: [utf8_valid(value.encode('utf-8')), len(value.encode('utf-8')) <= 0xFFFFFFFF], inline=SDP_RT_INLINE + ['Utf8Str.*'],
      note='the URL is a str known only by its UTF-8 encoding (injective): str.encode / bytes.decode are modelled as inverse on valid UTF-8')
