"""C12 group 1 -- reads return the exact current value, continuing with long reads when needed.

  Server.on_att_read_request / on_att_read_blob_request   (own small contracts: what the response carries)
  Client.read_value                                       the real client loop, its send_request driven by the two
                                                          server contracts (same ATT_MTU on both sides)
"""
from bumble import att
from pyvc.contracts import (Any, Bool, Bytes, Callback, Const, Inst, Int, IntRange, OneOf, Opt, contract, implies, model)
from spec.gatt import (ATT_ERROR_RSP, ATT_READ_BLOB_RSP, ATT_READ_RSP, ERR_ATTRIBUTE_NOT_LONG, ERR_INVALID_HANDLE,
                       ERR_INVALID_OFFSET, long_value_part)

ENVIRONMENT = [
    'long-read lemma: the response object built by the server handler is handed to the client as an object of the '
    'same PDU class with the same field values; the byte-level ATT codec and the transport in between are C10/C18/C05',
    'long-read lemma: the attribute value does not change between the requests of one read_value call and reading it '
    'does not fail (permission errors are C11); both sides use the same ATT_MTU (after the MTU exchange)',
    '@AsyncRunner.run_in_task() on the server handlers is ignored: the handler body is taken to run to completion '
    'before the client resumes (A1)',
]

RUN_IN_TASK = ['utils.AsyncRunner.run_in_task()']


# ---------------------------------------------------------------------------
# server side
# ---------------------------------------------------------------------------
def srv_get_attribute(ghost, handle):
    assert handle == ghost.handle
    return ghost.attr


def srv_send_response(ghost, bearer, response):
    """records what the single response of the handler carries"""
    ghost.nresp = ghost.nresp + 1
    ghost.rop = response.op_code
    if isinstance(response, att.ATT_Error_Response):
        ghost.rerr = response.error_code
        ghost.rerr_handle = response.attribute_handle_in_error
        ghost.rerr_op = response.request_opcode_in_error
    elif isinstance(response, att.ATT_Read_Response):
        ghost.rval = response.attribute_value
    elif isinstance(response, att.ATT_Read_Blob_Response):
        ghost.rval = response.part_attribute_value
    else:
        assert False


def val_read(ghost, bearer):
    if ghost.read_err != 0:
        raise att.ATT_Error(error_code=ghost.read_err)
    return ghost.value


model('bumble.att:Attribute#v', fields={}, methods={'read_value': Callback('read_value', effect=val_read, is_async=True, raises=(att.ATT_Error,))})
model('bumble.device:Connection#r', fields=dict(att_mtu=IntRange(23, 0xFFFF)))
model(
    'bumble.gatt_server:Server#r',
    fields={},
    methods={'get_attribute': Callback('get_attribute', effect=srv_get_attribute), 'send_response': Callback('send_response', effect=srv_send_response)},
)
model('bumble.att:ATT_Read_Request', fields=dict(attribute_handle=IntRange(0, 0xFFFF)))
model('bumble.att:ATT_Read_Blob_Request', fields=dict(attribute_handle=IntRange(0, 0xFFFF), value_offset=IntRange(0, 0xFFFF)))

SRV_GHOST = dict(handle=Int, attr=Opt(Inst('bumble.att:Attribute#v')), value=Bytes, read_err=IntRange(0, 0xFF), nresp=Int, rop=Int, rval=Bytes,
                 rerr=Int, rerr_handle=Int, rerr_op=Int)
SRV_MOD = ['ghost.nresp', 'ghost.rop', 'ghost.rval', 'ghost.rerr', 'ghost.rerr_handle', 'ghost.rerr_op']
ERR_INLINE = ['ATT_Error.__init__', 'BaseError.__init__']


def is_error(ghost, request, code):
    return ghost.rop == ATT_ERROR_RSP and ghost.rerr == code and ghost.rerr_handle == request.attribute_handle and ghost.rerr_op == request.op_code


def read_post(self, bearer, request, old, ghost):
    """Vol 3 Part F 3.4.4.3/3.4.4.4: one response; the first ATT_MTU-1 octets of the value"""
    return [
        ghost.nresp == old.ghost.nresp + 1,
        implies(ghost.attr is None, is_error(ghost, request, ERR_INVALID_HANDLE)),
        implies(ghost.attr is not None and ghost.read_err != 0, is_error(ghost, request, ghost.read_err)),
        implies(ghost.attr is not None and ghost.read_err == 0, ghost.rop == ATT_READ_RSP and ghost.rval == long_value_part(ghost.value, 0, bearer.att_mtu)),
    ]


def blob_post(self, bearer, request, old, ghost):
    """3.4.4.5/3.4.4.6: offset beyond the value -> Invalid Offset; value not longer than ATT_MTU-1 ->
    Attribute Not Long; else the part starting at the offset, at most ATT_MTU-1 octets (empty at the end)"""
    ok = ghost.attr is not None and ghost.read_err == 0
    n = len(ghost.value)
    return [
        ghost.nresp == old.ghost.nresp + 1,
        implies(ghost.attr is None, is_error(ghost, request, ERR_INVALID_HANDLE)),
        implies(ghost.attr is not None and ghost.read_err != 0, is_error(ghost, request, ghost.read_err)),
        implies(ok and request.value_offset > n, is_error(ghost, request, ERR_INVALID_OFFSET)),
        implies(ok and request.value_offset <= n and n <= bearer.att_mtu - 1, is_error(ghost, request, ERR_ATTRIBUTE_NOT_LONG)),
        implies(
            ok and request.value_offset <= n and n > bearer.att_mtu - 1,
            ghost.rop == ATT_READ_BLOB_RSP and ghost.rval == long_value_part(ghost.value, request.value_offset, bearer.att_mtu),
        ),
    ]


READ_NAMES = ['one-response', 'unknown-handle', 'read-error-reported', 'first-part']
BLOB_NAMES = ['one-response', 'unknown-handle', 'read-error-reported', 'invalid-offset', 'not-long', 'part-at-offset']
SRV_COMMON = dict(
    ghost=SRV_GHOST,
    requires=lambda request, ghost: [ghost.handle == request.attribute_handle],
    modifies=SRV_MOD,
)
SRV_READ = dict(params=dict(self=Inst('bumble.gatt_server:Server#r'), bearer=Inst('bumble.device:Connection#r'), request=Inst('bumble.att:ATT_Read_Request')),
                ensures=read_post, ensures_names=READ_NAMES, **SRV_COMMON)
SRV_BLOB = dict(params=dict(self=Inst('bumble.gatt_server:Server#r'), bearer=Inst('bumble.device:Connection#r'), request=Inst('bumble.att:ATT_Read_Blob_Request')),
                ensures=blob_post, ensures_names=BLOB_NAMES, **SRV_COMMON)
T_READ = 'bumble.gatt_server:Server.on_att_read_request'
T_BLOB = 'bumble.gatt_server:Server.on_att_read_blob_request'
# keyed @C12: C10 owns the full contracts of these handlers
contract(T_READ, key=T_READ + '@C12', prop='C12', decorators_ok=RUN_IN_TASK, inline=ERR_INLINE, note='@run_in_task ignored: body runs to completion (A1)', **SRV_READ)
contract(T_BLOB, key=T_BLOB + '@C12', prop='C12', decorators_ok=RUN_IN_TASK, inline=ERR_INLINE, note='@run_in_task ignored: body runs to completion (A1)', **SRV_BLOB)


# ---------------------------------------------------------------------------
# client side: the real read_value loop against the server contracts
# ---------------------------------------------------------------------------
def serve(ghost, request):
    """the peer: a bumble Server holding ghost.value under ghost.handle, reached through the contracts above"""
    ghost.requests = ghost.requests + 1
    if isinstance(request, att.ATT_Read_Request):
        ghost.server.on_att_read_request(ghost.sbearer, request)
    else:
        ghost.server.on_att_read_blob_request(ghost.sbearer, request)
    if ghost.rop == ATT_ERROR_RSP:
        return att.ATT_Error_Response(request_opcode_in_error=ghost.rerr_op, attribute_handle_in_error=ghost.rerr_handle, error_code=ghost.rerr)
    if ghost.rop == ATT_READ_RSP:
        return att.ATT_Read_Response(attribute_value=ghost.rval)
    return att.ATT_Read_Blob_Response(part_attribute_value=ghost.rval)


def cli_cache(ghost, handle, value):
    ghost.cached_handle = handle
    ghost.cached = value


model(
    'bumble.gatt_client:Client#r',
    fields=dict(bearer=Inst('bumble.device:Connection#r')),
    methods={'send_request': Callback('send_request', effect=serve, is_async=True), 'cache_value': Callback('cache_value', effect=cli_cache)},
)
CLI_GHOST = dict(SRV_GHOST, server=Inst('bumble.gatt_server:Server#r'), sbearer=Inst('bumble.device:Connection#r'), requests=Int, cached=Bytes, cached_handle=Int)


def longread_inv(self, attribute_value, offset, attribute_handle, ghost):
    return [
        attribute_handle == ghost.handle,
        offset == len(attribute_value),
        offset >= self.bearer.att_mtu - 1,
        offset <= len(ghost.value),
        attribute_value == ghost.value[:offset],
    ]


contract(
    'bumble.gatt_client:Client.read_value',
    prop='C12',
    params=dict(self=Inst('bumble.gatt_client:Client#r'), attribute=IntRange(0, 0xFFFF), no_long_read=Const(False)),
    ghost=CLI_GHOST,
    requires=lambda self, attribute, ghost: [
        ghost.handle == attribute,
        ghost.attr is not None,
        ghost.read_err == 0,
        len(ghost.value) <= 512,  # Vol 3 Part F 3.2.9: maximum attribute value length
        ghost.sbearer.att_mtu == self.bearer.att_mtu,
    ],
    ensures=lambda self, attribute, res, old, ghost: [
        res == ghost.value,
        ghost.cached == ghost.value and ghost.cached_handle == attribute,
    ],
    ensures_names=['exact-value', 'cached-exact-value'],
    invariants={0: longread_inv},
    decreases={0: lambda offset, ghost: len(ghost.value) - offset},
    modifies=SRV_MOD + ['ghost.requests', 'ghost.cached', 'ghost.cached_handle'],
    uses=[T_READ + '@C12', T_BLOB + '@C12'],
    inline=['Client.mtu'] + ERR_INLINE,
    decorators_ok=RUN_IN_TASK,
    note='ghost driver: Client.send_request is served by the contracts of the two server handlers',
)
