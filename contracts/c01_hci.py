"""C01 -- HCI packets survive serialise/parse unchanged, for every packet class.

The table-driven codec of bumble/hci.py (HCI_Object.parse_field / serialize_field / dict_and_offset_from_bytes /
dict_to_bytes and everything they reach: the lambdas of SpecableEnum/SpecableFlag.type_spec, Address parsers,
CodingFormat, length-prefixed bytes, nested HCI_Dataclass_Object reports) is verified by *partial evaluation*: for every
class found in the live registries (HCI_Command.command_classes, HCI_Event.event_classes,
HCI_LE_Meta_Event.subevent_classes, the return_parameters_class of every HCI_SyncCommand) the concrete `fields` list is
read by reflection and one pair of lemmas is generated at import time:

  <family>/<Class>/fields   for all field values of the wire domain:  HCI_Packet.from_bytes(bytes(Class(**values)))
                            is a Class with equal field values, and serialises to the same bytes again
  <family>/<Class>/bytes    for all well-formed parameter bytes (a concatenation of well-formed chunks, one per field):
                            HCI_Packet.from_bytes(raw) is a Class, bytes(...) == raw, re-serialising the parsed *fields*
                            (not the cached parameters) gives the parameter bytes again, and every parsed value lies in the
                            value domain used by the /fields lemma

The real functions are executed in place (inline=bumble.hci:*): there is no model of the codec.
"""
import dataclasses
import functools

import pyvc.ext_c01  # noqa: F401  (library models: OrderedDict, typing.cast, functools.partial, dataclasses.fields)
from bumble import hci
from bumble.hci import HCI_Object, HCI_Packet
from pyvc.contracts import Bytes, BytesN, Const, IntRange, OneOf, Opt, Str, TupleOf, contract, lemma
from spec.hci import (acl_packet, command_complete_packet, command_packet, event_packet, iso_header, iso_sdu_info, le16_bytes, le32_bytes,
                      le_meta_event_packet, sco_packet)

if __import__('os').environ.get('C01_VENDOR'):
    # optional: also import the vendor modules, whose decorators add their classes to the same registries (the families
    # below then cover them, or flag them when they override codec methods)
    import bumble.vendor.android.hci  # noqa: F401
    import bumble.vendor.zephyr.hci  # noqa: F401

ENVIRONMENT = [
    'the registries and per-class `fields` lists are read by reflection from the imported bumble.hci (A7); classes '
    'registered later at run time (vendor commands/events, HCI_Event.add_vendor_factory factories) are environment: '
    'HCI_Event.vendor_factories is empty at check time',
    'field *values* range over the wire domain of each field kind (0 <= v < 2**(8*size), signed ranges, byte strings of the '
    'declared length, length-prefixed strings of <= 255 bytes, parameter total <= 255 bytes); Python values outside that '
    'domain (which make struct.pack / bytes() raise or are silently padded/truncated) are not packets the class can represent',
    '__str__/to_string/mappers (display only) are not part of the property',
]

INLINE = ['bumble.hci:*', 'bumble.core:padded_bytes']
PROP = 'C01'


# ---------------------------------------------------------------------------------------------------------------------
# reflection: field spec -> kind descriptor (native code, run once at import; a wrong description cannot make a lemma pass
# wrongly: the lemmas execute the real codec, the description only fixes the value domain, and the /bytes lemma proves that
# the domain contains every value the parser can produce)
# ---------------------------------------------------------------------------------------------------------------------
class Undescribed(Exception):
    pass


def _closure_of(fn):
    return dict(zip(fn.__code__.co_freevars, [c.cell_contents for c in (fn.__closure__ or ())]))


def _is_classmethod_of(spec, cls, name):
    return getattr(spec, '__self__', None) is not None and getattr(spec, '__func__', None) is cls.__dict__[name].__func__


def _enum_is_open(ecls):
    import enum

    if issubclass(ecls, enum.Flag):
        return True
    return any('_missing_' in k.__dict__ for k in ecls.__mro__ if k not in (enum.Enum, enum.IntEnum, int, object))


def describe_spec(spec):
    """kind descriptor (a tuple) of one field spec"""
    if isinstance(spec, dict):
        if 'size' in spec:
            # parse_field uses 'size'; serialize_field prefers a 'serializer' when there is one: the value domain is that of
            # the size (the lemma executes the real serializer on it)
            return describe_spec(spec['size'])
        parser, serializer = spec.get('parser'), spec.get('serializer')
        if parser is None or serializer is None:
            raise Undescribed('dict spec without parser+serializer')
        qn = getattr(parser, '__qualname__', '')
        if qn in ('SpecableEnum.type_spec.<locals>.<lambda>', 'SpecableFlag.type_spec.<locals>.<lambda>'):
            cv = _closure_of(parser)
            if not {'size', 'byteorder', 'cls'} <= set(cv):
                raise Undescribed('enum spec whose parser does not use size/byteorder/cls')
            if _closure_of(serializer).get('size') != cv['size'] or _closure_of(serializer).get('byteorder') != cv['byteorder']:
                raise Undescribed('enum spec with mismatching serializer')
            if not _enum_is_open(cv['cls']):
                raise Undescribed(f'closed enum {cv["cls"].__name__} in a field spec')
            return ('int', cv['size'], False, cv['byteorder'])
        if parser is HCI_Object.parse_length_prefixed_bytes and isinstance(serializer, functools.partial) and serializer.func is HCI_Object.serialize_length_prefixed_bytes and not serializer.args:
            return ('lp', serializer.keywords.get('padded_size', 0))
        raise Undescribed(f'unknown parser/serializer pair {qn}')
    if spec == '*':
        return ('rest',)
    if spec == 'v':
        return ('var',)
    if spec == '>2':
        return ('int', 2, False, 'big')
    if spec == '>4':
        return ('int', 4, False, 'big')
    if isinstance(spec, int) and not isinstance(spec, bool):
        if spec in (1, 2, 3, 4):
            return ('int', spec, False, 'little')
        if spec in (-1, -2):
            return ('int', -spec, True, 'little')
        if 4 < spec <= 256:
            return ('bytes', spec)
        raise Undescribed(f'integer spec {spec}')
    if callable(spec):
        if _is_classmethod_of(spec, hci.Address, 'parse_address'):
            return ('addr', 'public')
        if _is_classmethod_of(spec, hci.Address, 'parse_random_address'):
            return ('addr', 'random')
        if _is_classmethod_of(spec, hci.Address, 'parse_address_preceded_by_type'):
            return ('addr', 'preceded')
        if _is_classmethod_of(spec, hci.CodingFormat, 'parse_from_bytes'):
            return ('coding',)
        if _is_classmethod_of(spec, hci.HCI_Dataclass_Object, 'parse_from_bytes'):
            ocls = spec.__self__
            return ('obj', ocls, describe_fields(HCI_Object.fields_from_dataclass(ocls)))
        # class-local lambdas: classified by what they return for a probe (only the *domain* depends on this)
        try:
            n, v = spec(bytes([1, 2, 3, 4, 5, 6, 7, 8]), 0)
        except Exception as e:  # noqa: BLE001
            raise Undescribed(f'callable spec {getattr(spec, "__qualname__", spec)} cannot be probed: {e!r}')
        if isinstance(v, hci.Address) and n == 6:
            return ('addr', 'public' if v.is_public else 'random')
        raise Undescribed(f'callable spec {getattr(spec, "__qualname__", spec)}')
    raise Undescribed(f'spec {spec!r}')


def describe_fields(fields):
    """[('f', name, kind) | ('g', ((name, kind), ...))] for a `fields` list"""
    out = []
    for f in fields:
        if isinstance(f, list):
            cols = tuple((n, describe_spec(s)) for n, s in f)
            _check_preceded([('f', n, k) for n, k in cols])
            out.append(('g', cols))
        else:
            out.append(('f', f[0], describe_spec(f[1])))
    _check_preceded(out)
    for i, it in enumerate(out):
        if it[0] == 'f' and it[2][0] == 'lp' and it[2][1] > 0 and i != len(out) - 1:
            # the parser consumes 1 + length bytes, the serializer writes padded_size: only right for a last field
            raise Undescribed(f'{it[1]}: padded length-prefixed field that is not the last field')
    return tuple(out)


def _check_preceded(items):
    for i, it in enumerate(items):
        if it[0] == 'f' and it[2] == ('addr', 'preceded'):
            prev = items[i - 1] if i > 0 else None
            if prev is None or prev[0] != 'f' or prev[2][0] != 'int' or prev[2][1] != 1:
                raise Undescribed(f'{it[1]}: address preceded by type without a one-byte field before it')


def fixed_size(kind):
    t = kind[0]
    if t == 'int':
        return kind[1]
    if t == 'bytes':
        return kind[1]
    if t == 'addr':
        return 6
    if t == 'coding':
        return 5
    if t == 'obj':
        tot = 0
        for it in kind[2]:
            if it[0] != 'f':
                return None
            s = fixed_size(it[2])
            if s is None:
                return None
            tot += s
        return tot
    return None


def int_range(kind):
    bits = 8 * kind[1]
    return (-(1 << (bits - 1)), (1 << (bits - 1)) - 1) if kind[2] else (0, (1 << bits) - 1)


def value_T(kind):
    t = kind[0]
    if t == 'int':
        return IntRange(*int_range(kind))
    if t == 'bytes':
        return BytesN(kind[1])
    if t in ('rest', 'var', 'lp'):
        return Bytes
    if t == 'addr':
        return TupleOf(BytesN(6), IntRange(0, 255))
    if t == 'coding':
        return TupleOf(IntRange(0, 255), IntRange(0, 0xFFFF), IntRange(0, 0xFFFF))
    if t == 'obj':
        return TupleOf(*[value_T(it[2]) for it in kind[2]])
    raise Undescribed(f'kind {kind}')


def chunk_T(kind):
    t = kind[0]
    if t in ('rest', 'var', 'lp'):
        return Bytes
    if t == 'obj':
        return TupleOf(*[chunk_T(it[2]) for it in kind[2]])
    return BytesN(fixed_size(kind))


def desc_T(desc, rows, of):
    ts = []
    for it in desc:
        if it[0] == 'f':
            if it[2][0] == 'obj' and any(x[0] == 'g' for x in it[2][2]):
                raise Undescribed('repeated group inside a nested object')
            ts.append(of(it[2]))
        else:
            ts.append(TupleOf(*[TupleOf(*[of(k) for _, k in it[1]]) for _ in range(rows)]))
    return TupleOf(*ts)


def has_group(desc):
    return any(it[0] == 'g' for it in desc)


def is_variable(desc):
    for it in desc:
        if it[0] == 'g':
            return True
        if fixed_size(it[2]) is None:
            return True
    return False


# ---------------------------------------------------------------------------------------------------------------------
# spec functions (executed symbolically by the prover and natively by the replay)
# ---------------------------------------------------------------------------------------------------------------------
def is_public_type(t):
    # Core Vol 6 Part B 1.3 / HCI address types: 0 public device, 1 random device, 2 public identity, 3 random identity
    return t == 0 or t == 2


def mk_value(kind, raw):
    """the Python field value for a raw (primitive) value, built with the real constructors"""
    t = kind[0]
    if t == 'addr':
        return hci.Address(raw[0], hci.AddressType(raw[1]))
    if t == 'coding':
        return hci.CodingFormat(hci.CodecID(raw[0]), raw[1], raw[2])
    if t == 'obj':
        return kind[1](**{it[1]: mk_value(it[2], r) for it, r in zip(kind[2], raw)})
    return raw


def mk_kwargs(desc, vals):
    kw = {}
    for it, raw in zip(desc, vals):
        if it[0] == 'f':
            kw[it[1]] = mk_value(it[2], raw)
        else:
            for j, nk in enumerate(it[1]):
                kw[nk[0]] = [mk_value(nk[1], row[j]) for row in raw]
    return kw


def wire_len(kind, raw):
    """number of bytes the value occupies on the wire (HCI parameter formats, Core Vol 4 Part E 5.2 / 7)"""
    t = kind[0]
    if t == 'rest':
        return len(raw)
    if t == 'var':
        return 1 + len(raw)
    if t == 'lp':
        return 1 + len(raw) if 1 + len(raw) >= kind[1] else kind[1]
    if t == 'obj':
        return sum([wire_len(it[2], r) for it, r in zip(kind[2], raw)])
    return fixed_size(kind)


def total_len(desc, vals):
    tot = 0
    for it, raw in zip(desc, vals):
        if it[0] == 'f':
            tot = tot + wire_len(it[2], raw)
        else:
            tot = tot + 1
            for row in raw:
                for nk, r in zip(it[1], row):
                    tot = tot + wire_len(nk[1], r)
    return tot


def dom_items(items, raws):
    """domain restrictions of a run of fields beyond their types: what the wire format can represent"""
    out = []
    prev = None
    for it, raw in zip(items, raws):
        if it[0] == 'g':
            for row in raw:
                out.extend(dom_items([('f', nk[0], nk[1]) for nk in it[1]], row))
            prev = None
            continue
        k = it[2]
        if k[0] == 'var':
            out.append(len(raw) <= 255)
        elif k[0] == 'lp':
            out.append(len(raw) <= 255)
        elif k[0] == 'addr':
            # the address type is not transmitted with the address: a classic BD_ADDR field can only carry a public
            # address, a random-address field only a random one, and an address preceded by its type field must agree
            # with that field (Address.__eq__ compares the bytes and the public/random class)
            if k[1] == 'public':
                out.append(is_public_type(raw[1]))
            elif k[1] == 'random':
                out.append(not is_public_type(raw[1]))
            else:
                out.append(is_public_type(raw[1]) == is_public_type(prev))
        elif k[0] == 'obj':
            out.extend(dom_items(k[2], raw))
        prev = raw
    return out


def dom(desc, vals, limit):
    out = dom_items(desc, vals)
    if is_variable(desc):
        out.append(total_len(desc, vals) <= limit)
    return out


def same_value(a, b):
    return a == b


def check_fields(desc, vals, kw, back):
    """every field of the parsed object equals the value the packet was built from"""
    for it in desc:
        if it[0] == 'f':
            assert same_value(getattr(back, it[1]), kw[it[1]])
        else:
            for nk in it[1]:
                assert same_value(getattr(back, nk[0]), kw[nk[0]])


# -- direction bytes -> fields -> bytes --------------------------------------------------------------------------------
def mk_wire(kind, c):
    """well-formed wire bytes of one field from its chunk (the free content)"""
    t = kind[0]
    if t == 'var':
        return bytes([len(c)]) + c
    if t == 'lp':
        return bytes([len(c)]) + c + bytes(kind[1] - 1 - len(c))
    if t == 'obj':
        return b''.join([mk_wire(it[2], x) for it, x in zip(kind[2], c)])
    return c


def mk_wire_all(desc, chunks):
    parts = []
    for it, c in zip(desc, chunks):
        if it[0] == 'f':
            parts.append(mk_wire(it[2], c))
        else:
            parts.append(bytes([len(c)]))
            for row in c:
                for nk, x in zip(it[1], row):
                    parts.append(mk_wire(nk[1], x))
    return b''.join(parts)


def chunk_dom_items(items, cs):
    out = []
    for it, c in zip(items, cs):
        k = it[2]
        if k[0] == 'var':
            out.append(len(c) <= 255)
        elif k[0] == 'lp':
            out.append(len(c) <= k[1] - 1)
        elif k[0] == 'obj':
            out.extend(chunk_dom_items(k[2], c))
    return out


def chunk_dom(desc, chunks, limit):
    out = []
    for it, c in zip(desc, chunks):
        if it[0] == 'f':
            out.extend(chunk_dom_items([it], [c]))
        else:
            for row in c:
                out.extend(chunk_dom_items([('f', nk[0], nk[1]) for nk in it[1]], row))
    if is_variable(desc):
        out.append(len(mk_wire_all(desc, chunks)) <= limit)
    return out


def in_domain(kind, v, prev):
    """the parsed value lies in the value domain of its kind (so the /fields lemma covers it)"""
    t = kind[0]
    if t == 'int':
        r = int_range(kind)
        assert r[0] <= v <= r[1]
    elif t == 'bytes':
        assert len(v) == kind[1]
    elif t == 'var':
        assert len(v) <= 255
    elif t == 'addr':
        assert len(v.address_bytes) == 6
        if kind[1] == 'public':
            assert is_public_type(v.address_type)
        elif kind[1] == 'random':
            assert not is_public_type(v.address_type)
        else:
            assert v.address_type == prev
    elif t == 'coding':
        assert 0 <= v.codec_id <= 255
        assert 0 <= v.company_id <= 0xFFFF
        assert 0 <= v.vendor_specific_codec_id <= 0xFFFF
    elif t == 'obj':
        assert type(v) is kind[1]
        p = None
        for it in kind[2]:
            x = getattr(v, it[1])
            in_domain(it[2], x, p)
            p = x


def check_domain(desc, back, rows):
    prev = None
    for it in desc:
        if it[0] == 'f':
            v = getattr(back, it[1])
            in_domain(it[2], v, prev)
            prev = v
        else:
            for nk in it[1]:
                col = getattr(back, nk[0])
                assert len(col) == rows
            for i in range(rows):
                p = None
                for nk in it[1]:
                    x = getattr(back, nk[0])[i]
                    in_domain(nk[1], x, p)
                    p = x


# ---------------------------------------------------------------------------------------------------------------------
# lemma makers, one per packet family
# ---------------------------------------------------------------------------------------------------------------------
def header_of(family, cls):
    """bytes in front of the serialised fields (Core Vol 4 Part E 5.4.1 / 5.4.4, 7.7.65), without the length byte"""
    if family == 'cmd':
        return bytes([hci.HCI_COMMAND_PACKET, cls.op_code & 0xFF, cls.op_code >> 8]), b''
    if family == 'evt':
        return bytes([hci.HCI_EVENT_PACKET, cls.event_code]), b''
    if family == 'le':
        return bytes([hci.HCI_EVENT_PACKET, hci.HCI_LE_META_EVENT]), bytes([cls.subevent_code])
    raise ValueError(family)


def make_fields_lemma(family, cls, desc):
    head, sub = header_of(family, cls)
    limit = 255 - len(sub)

    def requires(vals):
        return dom(desc, vals, limit)

    def L(vals):
        kw = mk_kwargs(desc, vals)
        pkt = cls(**kw)
        raw = bytes(pkt)
        # envelope: packet type, opcode / event code (/ sub-event code), one length byte, then the parameters
        n = len(raw) - len(head) - 1
        assert raw[: len(head)] == head
        assert raw[len(head)] == n
        assert raw[len(head) + 1 : len(head) + 1 + len(sub)] == sub
        if not is_variable(desc):
            assert n == len(sub) + total_len(desc, vals)
        back = HCI_Packet.from_bytes(raw)
        assert type(back) is cls
        check_fields(desc, vals, kw, back)
        assert bytes(back) == raw

    return L, requires


def make_bytes_lemma(family, cls, desc, rows):
    head, sub = header_of(family, cls)
    limit = 255 - len(sub)

    def requires(chunks):
        return chunk_dom(desc, chunks, limit)

    def L(chunks):
        params = mk_wire_all(desc, chunks)
        raw = head + bytes([len(sub) + len(params)]) + sub + params
        pkt = HCI_Packet.from_bytes(raw)
        assert type(pkt) is cls
        assert bytes(pkt) == raw
        # re-serialised from the parsed *fields* (bytes(pkt) above returns the cached parameters)
        assert HCI_Object.dict_to_bytes(pkt.__dict__, cls.fields) == params
        check_domain(desc, pkt, rows)

    return L, requires


OVERRIDABLE = ('from_parameters', '__bytes__', 'parameters', '__init__', '__post_init__', 'from_bytes', 'parse_return_parameters', '__setattr__', '__getattr__')
GENERIC_OWNERS = (
    hci.HCI_Packet, hci.HCI_Command, hci.HCI_AsyncCommand, hci.HCI_SyncCommand, hci.HCI_Event, hci.HCI_Extended_Event,
    hci.HCI_LE_Meta_Event, hci.HCI_Object, hci.HCI_ReturnParameters, hci.HCI_StatusReturnParameters, object,
)
try:
    import typing

    GENERIC_OWNERS = GENERIC_OWNERS + (typing.Generic,)
except Exception:  # noqa: BLE001
    pass


def overrides_of(cls):
    """codec methods a class (or a non-generic base) defines itself: such a class is not covered by the generic lemma"""
    out = []
    for m in OVERRIDABLE:
        for k in cls.__mro__:
            if m in k.__dict__:
                gen_init = m == '__init__' and dataclasses.is_dataclass(k) and '__dataclass_fields__' in k.__dict__ and getattr(k.__dict__[m], '__code__', None) is not None and k.__dict__[m].__code__.co_filename == '<string>'
                if k not in GENERIC_OWNERS and not gen_init:
                    out.append(f'{k.__name__}.{m}')
                break
    return out


def make_flag_lemma(reason):
    def L():
        # this class is NOT covered: the generic per-class lemma does not apply and no specific lemma exists
        assert False, reason

    return L


ROW_COUNTS = (0, 1, 2, 3)
CUSTOM = {}  # class -> function(family, cls) registering its own lemmas (classes overriding the generic codec methods)
FAMILY_LOG = []  # (family, class name, status) for NOTES / debugging


def register_class(family, cls):
    name = f'{family}/{cls.__name__}'
    if cls in CUSTOM:
        CUSTOM[cls](family, cls)
        FAMILY_LOG.append((family, cls.__name__, 'custom'))
        return
    ov = overrides_of(cls)
    if ov:
        lemma(f'{name}/no-override', make_flag_lemma('overrides ' + ', '.join(ov)), prop=PROP, params={}, inline=INLINE, procs=1,
              note=f'{cls.__name__} overrides {ov} and has no lemma of its own: NOT covered')
        FAMILY_LOG.append((family, cls.__name__, 'override ' + ', '.join(ov)))
        return
    try:
        if not dataclasses.is_dataclass(cls) and cls.fields:
            raise Undescribed('not a dataclass but has fields')
        desc = describe_fields(cls.fields)
        dc_names = [f.name for f in dataclasses.fields(cls) if f.init] if dataclasses.is_dataclass(cls) else []
        names = [it[1] for it in desc if it[0] == 'f'] + [nk[0] for it in desc if it[0] == 'g' for nk in it[1]]
        if sorted(dc_names) != sorted(names):
            raise Undescribed(f'dataclass fields {dc_names} differ from the codec fields {names}')
        if has_group(desc):
            for k in ROW_COUNTS:
                L, R = make_fields_lemma(family, cls, desc)
                lemma(f'{name}/fields[rows={k}]', L, prop=PROP, params=dict(vals=desc_T(desc, k, value_T)), requires=R, inline=INLINE, procs=1,
                      note=f'bounded(3): repeated group unrolled to {k} item(s)')
                L, R = make_bytes_lemma(family, cls, desc, k)
                lemma(f'{name}/bytes[rows={k}]', L, prop=PROP, params=dict(chunks=desc_T(desc, k, chunk_T)), requires=R, inline=INLINE, procs=1,
                      note=f'bounded(3): repeated group unrolled to {k} item(s)')
            FAMILY_LOG.append((family, cls.__name__, 'bounded(3)'))
        else:
            L, R = make_fields_lemma(family, cls, desc)
            lemma(f'{name}/fields', L, prop=PROP, params=dict(vals=desc_T(desc, 0, value_T)), requires=R, inline=INLINE, procs=1)
            L, R = make_bytes_lemma(family, cls, desc, 0)
            lemma(f'{name}/bytes', L, prop=PROP, params=dict(chunks=desc_T(desc, 0, chunk_T)), requires=R, inline=INLINE, procs=1)
            FAMILY_LOG.append((family, cls.__name__, 'ok'))
    except Undescribed as e:
        lemma(f'{name}/undescribed', make_flag_lemma(str(e)), prop=PROP, params={}, inline=INLINE, procs=1, note=f'{cls.__name__}: {e}: NOT covered')
        FAMILY_LOG.append((family, cls.__name__, f'undescribed: {e}'))



# ---------------------------------------------------------------------------------------------------------------------
# return parameters: one pair of lemmas per HCI_SyncCommand, through the Command Complete envelope
# (HCI_Command_Complete_Event.from_parameters -> command_classes[opcode].parse_return_parameters ->
#  return_parameters_class.from_parameters, with the error-status short form of HCI_StatusReturnParameters)
# ---------------------------------------------------------------------------------------------------------------------
CC = hci.HCI_Command_Complete_Event
CC_LIMIT = 255 - 3


def make_rp_fields_lemma(cmd, R, desc):
    op = cmd.op_code
    status_first = issubclass(R, hci.HCI_StatusReturnParameters)

    def requires(n, vals):
        return dom(desc, vals, CC_LIMIT)

    def L(n, vals):
        kw = mk_kwargs(desc, vals)
        rp = R(**kw)
        ev = CC(num_hci_command_packets=n, command_opcode=op, return_parameters=rp)
        raw = bytes(ev)
        # envelope (Core Vol 4 Part E 7.7.14)
        assert raw == command_complete_packet(n, op, bytes(rp))
        back = HCI_Packet.from_bytes(raw)
        assert type(back) is CC
        assert back.num_hci_command_packets == n
        assert back.command_opcode == op
        brp = back.return_parameters
        if status_first and kw['status'] != 0:
            # error status: only the status is kept (HCI_StatusReturnParameters.from_parameters)
            assert type(brp) is hci.HCI_StatusReturnParameters
            assert brp.status == kw['status']
        else:
            assert type(brp) is R
            check_fields(desc, vals, kw, brp)
        assert bytes(back) == raw

    return L, requires


def make_rp_bytes_lemma(cmd, R, desc, rows):
    op = cmd.op_code
    status_first = issubclass(R, hci.HCI_StatusReturnParameters)

    def requires(n, chunks):
        return chunk_dom(desc, chunks, CC_LIMIT)

    def L(n, chunks):
        params = mk_wire_all(desc, chunks)
        raw = command_complete_packet(n, op, params)
        pkt = HCI_Packet.from_bytes(raw)
        assert type(pkt) is CC
        assert bytes(pkt) == raw
        assert pkt.num_hci_command_packets == n
        assert pkt.command_opcode == op
        brp = pkt.return_parameters
        if status_first and params[0] != 0:
            assert type(brp) is hci.HCI_StatusReturnParameters
            assert brp.status == params[0]
        else:
            assert type(brp) is R
            assert bytes(brp) == params
            check_domain(desc, brp, rows)
            # the whole event re-serialised from its fields
            assert HCI_Object.dict_to_bytes(pkt.__dict__, CC.fields) == raw[3:]

    return L, requires


def register_return_parameters(cmd):
    R = cmd.return_parameters_class
    name = f'rp/{cmd.__name__}'
    ov = [o for o in overrides_of(R)]
    try:
        if ov:
            raise Undescribed('return parameters class overrides ' + ', '.join(ov))
        if cmd.__dict__.get('parse_return_parameters') is not None:
            raise Undescribed('command overrides parse_return_parameters')
        desc = describe_fields(R.fields)
        dc_names = [f.name for f in dataclasses.fields(R) if f.init]
        names = [it[1] for it in desc if it[0] == 'f'] + [nk[0] for it in desc if it[0] == 'g' for nk in it[1]]
        if sorted(dc_names) != sorted(names):
            raise Undescribed(f'dataclass fields {dc_names} differ from the codec fields {names}')
        if list(R.fields) != list(HCI_Object.fields_from_dataclass(R)):
            raise Undescribed('fields differ from the dataclass metadata')
        N = IntRange(0, 255)
        for k in (ROW_COUNTS if has_group(desc) else (None,)):
            tag = '' if k is None else f'[rows={k}]'
            note = '' if k is None else f'bounded(3): repeated group unrolled to {k} item(s)'
            L, Rq = make_rp_fields_lemma(cmd, R, desc)
            lemma(f'{name}/fields{tag}', L, prop=PROP, params=dict(n=N, vals=desc_T(desc, k or 0, value_T)), requires=Rq, inline=INLINE, procs=1, note=note)
            L, Rq = make_rp_bytes_lemma(cmd, R, desc, k or 0)
            lemma(f'{name}/bytes{tag}', L, prop=PROP, params=dict(n=N, chunks=desc_T(desc, k or 0, chunk_T)), requires=Rq, inline=INLINE, procs=1, note=note)
        FAMILY_LOG.append(('rp', cmd.__name__, 'bounded(3)' if has_group(desc) else 'ok'))
    except Undescribed as e:
        lemma(f'{name}/undescribed', make_flag_lemma(str(e)), prop=PROP, params={}, inline=INLINE, procs=1, note=f'{R.__name__}: {e}: NOT covered')
        FAMILY_LOG.append(('rp', cmd.__name__, f'undescribed: {e}'))


# ---------------------------------------------------------------------------------------------------------------------
# classes with their own codec methods
# ---------------------------------------------------------------------------------------------------------------------
def popcount8(x):
    return sum([(x >> i) & 1 for i in range(8)])


U8 = IntRange(0, 255)
U16 = IntRange(0, 0xFFFF)


def register_ext_scan_parameters(family, cls):
    """HCI_LE_Set_Extended_Scan_Parameters_Command: own __init__/from_parameters; one 5-byte row per bit set in
    scanning_phys (a byte: 0..8 rows, enumerated completely)"""
    op = cls.op_code
    for k in range(9):
        def make(k):
            def requires(phys):
                return popcount8(phys) == k

            def Lf(own, policy, phys, rows):
                types = [r[0] for r in rows]
                intervals = [r[1] for r in rows]
                windows = [r[2] for r in rows]
                pkt = cls(own_address_type=own, scanning_filter_policy=policy, scanning_phys=phys, scan_types=types, scan_intervals=intervals, scan_windows=windows)
                raw = bytes(pkt)
                want = bytes([own, policy, phys]) + b''.join([bytes([r[0]]) + le16_bytes(r[1]) + le16_bytes(r[2]) for r in rows])
                assert raw == command_packet(op, want)  # Core Vol 4 Part E 7.8.64
                back = HCI_Packet.from_bytes(raw)
                assert type(back) is cls
                assert back.own_address_type == own
                assert back.scanning_filter_policy == policy
                assert back.scanning_phys == phys
                assert back.scan_types == types
                assert back.scan_intervals == intervals
                assert back.scan_windows == windows
                assert bytes(back) == raw

            def Lb(own, policy, phys, rows):
                params = bytes([own, policy, phys]) + b''.join(rows)
                raw = command_packet(op, params)
                pkt = HCI_Packet.from_bytes(raw)
                assert type(pkt) is cls
                assert bytes(pkt) == raw
                again = cls(own_address_type=pkt.own_address_type, scanning_filter_policy=pkt.scanning_filter_policy, scanning_phys=pkt.scanning_phys,
                            scan_types=pkt.scan_types, scan_intervals=pkt.scan_intervals, scan_windows=pkt.scan_windows)
                assert bytes(again) == raw  # rebuilt from the parsed fields

            return requires, Lf, Lb

        Rq, Lf, Lb = make(k)
        lemma(f'{family}/{cls.__name__}/fields[phys_bits={k}]', Lf, prop=PROP, requires=Rq, inline=INLINE, procs=1,
              params=dict(own=U8, policy=U8, phys=U8, rows=TupleOf(*[TupleOf(U8, U16, U16)] * k)))
        lemma(f'{family}/{cls.__name__}/bytes[phys_bits={k}]', Lb, prop=PROP, requires=Rq, inline=INLINE, procs=1,
              params=dict(own=U8, policy=U8, phys=U8, rows=TupleOf(*[BytesN(5)] * k)))


def register_ext_create_connection(family, cls):
    """HCI_LE_Extended_Create_Connection_Command: own __init__/from_parameters; one 16-byte row per bit set in
    initiating_phys (0..8 rows, enumerated completely)"""
    op = cls.op_code
    cols = ('scan_intervals', 'scan_windows', 'connection_interval_mins', 'connection_interval_maxs', 'max_latencies', 'supervision_timeouts', 'min_ce_lengths', 'max_ce_lengths')
    for k in range(9):
        def make(k):
            def requires(phys):
                return popcount8(phys) == k

            def requires_f(phys, ptype, peer):
                return [popcount8(phys) == k, is_public_type(peer[1]) == is_public_type(ptype)]

            def Lf(policy, own, ptype, peer, phys, rows):
                addr = hci.Address(peer[0], hci.AddressType(peer[1]))
                lists = {c: [r[j] for r in rows] for j, c in enumerate(cols)}
                pkt = cls(initiator_filter_policy=policy, own_address_type=own, peer_address_type=ptype, peer_address=addr, initiating_phys=phys, **lists)
                raw = bytes(pkt)
                want = bytes([policy, own, ptype]) + peer[0] + bytes([phys]) + b''.join([b''.join([le16_bytes(x) for x in r]) for r in rows])
                assert raw == command_packet(op, want)  # Core Vol 4 Part E 7.8.66
                back = HCI_Packet.from_bytes(raw)
                assert type(back) is cls
                assert back.initiator_filter_policy == policy
                assert back.own_address_type == own
                assert back.peer_address_type == ptype
                assert back.peer_address == addr
                assert back.initiating_phys == phys
                for c in cols:
                    assert getattr(back, c) == lists[c]
                assert bytes(back) == raw

            def Lb(head, phys, rows):
                params = head + bytes([phys]) + b''.join(rows)
                raw = command_packet(op, params)
                pkt = HCI_Packet.from_bytes(raw)
                assert type(pkt) is cls
                assert bytes(pkt) == raw
                again = cls(initiator_filter_policy=pkt.initiator_filter_policy, own_address_type=pkt.own_address_type, peer_address_type=pkt.peer_address_type,
                            peer_address=pkt.peer_address, initiating_phys=pkt.initiating_phys, **{c: getattr(pkt, c) for c in cols})
                assert bytes(again) == raw

            return requires, requires_f, Lf, Lb

        Rq, Rf, Lf, Lb = make(k)
        lemma(f'{family}/{cls.__name__}/fields[phys_bits={k}]', Lf, prop=PROP, requires=Rf, inline=INLINE, procs=1,
              params=dict(policy=U8, own=U8, ptype=U8, peer=TupleOf(BytesN(6), U8), phys=U8, rows=TupleOf(*[TupleOf(*[U16] * 8)] * k)))
        lemma(f'{family}/{cls.__name__}/bytes[phys_bits={k}]', Lb, prop=PROP, requires=Rq, inline=INLINE, procs=1,
              params=dict(head=BytesN(9), phys=U8, rows=TupleOf(*[BytesN(16)] * k)))


def register_command_complete(family, cls):
    """HCI_Command_Complete_Event overrides from_parameters: the per-command behaviour is the `rp/...` family; here the
    remaining case: an opcode that is not a registered HCI_SyncCommand gives HCI_GenericReturnParameters with the bytes"""
    sync_ops = sorted(op for op, c in hci.HCI_Command.command_classes.items() if issubclass(c, hci.HCI_SyncCommand))

    def requires(op, data):
        return [len(data) <= CC_LIMIT] + [op != k for k in sync_ops]

    def L(n, op, data):
        raw = command_complete_packet(n, op, data)
        pkt = HCI_Packet.from_bytes(raw)
        assert type(pkt) is cls
        assert pkt.num_hci_command_packets == n
        assert pkt.command_opcode == op
        assert type(pkt.return_parameters) is hci.HCI_GenericReturnParameters
        assert pkt.return_parameters.data == data
        assert bytes(pkt) == raw
        # built from fields
        ev = cls(num_hci_command_packets=n, command_opcode=op, return_parameters=hci.HCI_GenericReturnParameters(data=data))
        assert bytes(ev) == raw

    lemma(f'{family}/{cls.__name__}/generic-return-parameters', L, prop=PROP, requires=requires, inline=INLINE, procs=1,
          params=dict(n=U8, op=U16, data=Bytes),
          note='opcode of no registered HCI_SyncCommand (unknown, or an HCI_AsyncCommand): return parameters kept as bytes')


CUSTOM[hci.HCI_LE_Set_Extended_Scan_Parameters_Command] = register_ext_scan_parameters
CUSTOM[hci.HCI_LE_Extended_Create_Connection_Command] = register_ext_create_connection
CUSTOM[hci.HCI_Command_Complete_Event] = register_command_complete


# ---------------------------------------------------------------------------------------------------------------------
# the families
# ---------------------------------------------------------------------------------------------------------------------
for _op, _cls in sorted(hci.HCI_Command.command_classes.items()):
    register_class('cmd', _cls)
for _op, _cls in sorted(hci.HCI_Event.event_classes.items()):
    register_class('evt', _cls)
for _op, _cls in sorted(hci.HCI_LE_Meta_Event.subevent_classes.items()):
    register_class('le', _cls)
for _op, _cls in sorted(hci.HCI_Command.command_classes.items()):
    if issubclass(_cls, hci.HCI_SyncCommand):
        register_return_parameters(_cls)


# ---------------------------------------------------------------------------------------------------------------------
# generic packets: opcodes / event codes / sub-event codes without a registered class are carried as generic objects whose
# parameters are preserved byte for byte
# ---------------------------------------------------------------------------------------------------------------------
# the display-name functions are total (they are called by the constructors of the generic objects); their result is a
# string that no lemma inspects
contract('bumble.hci:HCI_Command.command_name', prop=PROP, params=dict(cls=Const(hci.HCI_Command), op_code=U16), returns=Str, modifies=[],
         inline=INLINE, procs=1, note='total for every 16-bit opcode (one path per named opcode)')
contract('bumble.hci:HCI_Event.event_name', prop=PROP, params=dict(cls=Const(hci.HCI_Event), event_code=U8), returns=Str, modifies=[],
         inline=INLINE + ['bumble.core:name_or_number'], procs=1, note='total for every event code')
contract('bumble.hci:HCI_Extended_Event.subevent_name', prop=PROP, params=dict(cls=Const(hci.HCI_LE_Meta_Event), subevent_code=U8), returns=Str, modifies=[],
         inline=INLINE, procs=1, note='total for every sub-event code (checked for cls=HCI_LE_Meta_Event, the only user)')
NAME_USES = ['bumble.hci:HCI_Command.command_name', 'bumble.hci:HCI_Event.event_name', 'bumble.hci:HCI_Extended_Event.subevent_name']

CMD_OPS = sorted(hci.HCI_Command.command_classes)
EVT_CODES = sorted(hci.HCI_Event.event_classes)
SUB_CODES = sorted(hci.HCI_LE_Meta_Event.subevent_classes)


def lemma_unknown_command(op, params):
    raw = command_packet(op, params)
    pkt = HCI_Packet.from_bytes(raw)
    assert type(pkt) is hci.HCI_Command
    assert pkt.op_code == op
    assert pkt.parameters == params
    assert bytes(pkt) == raw
    # the same generic object built directly
    built = hci.HCI_Command(params, op_code=op)
    assert bytes(built) == raw


lemma('generic/unknown-command-opcode', lemma_unknown_command, prop=PROP, params=dict(op=U16, params=Bytes),
      requires=lambda op, params: [len(params) <= 255] + [op != k for k in CMD_OPS], inline=INLINE, uses=NAME_USES, procs=1)


def lemma_unknown_event(code, params):
    raw = event_packet(code, params)
    pkt = HCI_Packet.from_bytes(raw)
    assert type(pkt) is hci.HCI_Event
    assert pkt.event_code == code
    assert pkt.parameters == params
    assert bytes(pkt) == raw
    built = hci.HCI_Event(params, event_code=code)
    assert bytes(built) == raw


lemma('generic/unknown-event-code', lemma_unknown_event, prop=PROP, params=dict(code=U8, params=Bytes),
      requires=lambda code, params: [len(params) <= 255, code != hci.HCI_LE_META_EVENT, code != hci.HCI_VENDOR_EVENT] + [code != k for k in EVT_CODES],
      inline=INLINE, uses=NAME_USES, procs=1)


def lemma_unknown_subevent(sub, rest):
    raw = le_meta_event_packet(sub, rest)
    pkt = HCI_Packet.from_bytes(raw)
    assert type(pkt) is hci.HCI_LE_Meta_Event
    assert pkt.event_code == hci.HCI_LE_META_EVENT
    assert pkt.subevent_code == sub
    assert pkt.parameters == bytes([sub]) + rest
    assert bytes(pkt) == raw
    built = hci.HCI_LE_Meta_Event(bytes([sub]) + rest, subevent_code=sub)
    assert bytes(built) == raw


lemma('generic/unknown-le-subevent-code', lemma_unknown_subevent, prop=PROP, params=dict(sub=U8, rest=Bytes),
      requires=lambda sub, rest: [len(rest) <= 254] + [sub != k for k in SUB_CODES], inline=INLINE, uses=NAME_USES, procs=1)


def lemma_event_truncation(code, params, extra):
    """an event followed by surplus bytes is parsed from its announced length only (HCI_Event.from_bytes truncates)"""
    raw = event_packet(code, params)
    a = HCI_Packet.from_bytes(raw + extra)
    assert bytes(a) == raw


lemma('generic/event-surplus-bytes-ignored', lemma_event_truncation, prop=PROP, params=dict(code=U8, params=Bytes, extra=Bytes),
      requires=lambda code, params: [len(params) <= 255, code != hci.HCI_LE_META_EVENT, code != hci.HCI_VENDOR_EVENT] + [code != k for k in EVT_CODES],
      inline=INLINE, uses=NAME_USES, procs=1)


def lemma_custom_packet(raw):
    pkt = HCI_Packet.from_bytes(raw)
    assert type(pkt) is hci.HCI_CustomPacket
    assert pkt.hci_packet_type == raw[0]
    assert pkt.payload == raw
    assert bytes(pkt) == raw


lemma('generic/unknown-packet-type', lemma_custom_packet, prop=PROP, params=dict(raw=Bytes),
      requires=lambda raw: [len(raw) >= 1, raw[0] != 1, raw[0] != 2, raw[0] != 3, raw[0] != 4, raw[0] != 5], inline=INLINE, procs=1)


# ---------------------------------------------------------------------------------------------------------------------
# data packets (Core Vol 4 Part E 5.4.2, 5.4.3, 5.4.5)
# ---------------------------------------------------------------------------------------------------------------------
H12 = IntRange(0, 0xFFF)
F2 = IntRange(0, 3)
U32 = IntRange(0, 0xFFFFFFFF)


def lemma_acl_fields(handle, pb, bc, data):
    pkt = hci.HCI_AclDataPacket(connection_handle=handle, pb_flag=pb, bc_flag=bc, data_total_length=len(data), data=data)
    raw = bytes(pkt)
    assert raw == acl_packet(handle, pb, bc, data)
    back = HCI_Packet.from_bytes(raw)
    assert type(back) is hci.HCI_AclDataPacket
    assert back.connection_handle == handle
    assert back.pb_flag == pb
    assert back.bc_flag == bc
    assert back.data_total_length == len(data)
    assert back.data == data
    assert bytes(back) == raw


lemma('data/acl/fields', lemma_acl_fields, prop=PROP, params=dict(handle=H12, pb=F2, bc=F2, data=Bytes), requires=lambda data: len(data) <= 0xFFFF, inline=INLINE, procs=1,
      note='data_total_length is the length of data (the only value from_bytes accepts)')


def lemma_acl_bytes(h, data):
    raw = bytes([2]) + h + le16_bytes(len(data)) + data
    pkt = HCI_Packet.from_bytes(raw)
    assert type(pkt) is hci.HCI_AclDataPacket
    assert bytes(pkt) == raw
    assert 0 <= pkt.connection_handle <= 0xFFF
    assert 0 <= pkt.pb_flag <= 3
    assert 0 <= pkt.bc_flag <= 3
    assert pkt.data == data
    assert pkt.data_total_length == len(data)


lemma('data/acl/bytes', lemma_acl_bytes, prop=PROP, params=dict(h=BytesN(2), data=Bytes), requires=lambda data: len(data) <= 0xFFFF, inline=INLINE, procs=1)


def lemma_sco_fields(handle, status, data):
    pkt = hci.HCI_SynchronousDataPacket(connection_handle=handle, packet_status=hci.HCI_SynchronousDataPacket.Status(status), data_total_length=len(data), data=data)
    raw = bytes(pkt)
    assert raw == sco_packet(handle, status, data)
    back = HCI_Packet.from_bytes(raw)
    assert type(back) is hci.HCI_SynchronousDataPacket
    assert back.connection_handle == handle
    assert back.packet_status == status
    assert back.data_total_length == len(data)
    assert back.data == data
    assert bytes(back) == raw


lemma('data/sco/fields', lemma_sco_fields, prop=PROP, params=dict(handle=H12, status=F2, data=Bytes), requires=lambda data: len(data) <= 255, inline=INLINE, procs=1)


def lemma_sco_bytes(h, data):
    raw = bytes([3]) + h + bytes([len(data)]) + data
    pkt = HCI_Packet.from_bytes(raw)
    assert type(pkt) is hci.HCI_SynchronousDataPacket
    assert bytes(pkt) == raw
    assert 0 <= pkt.connection_handle <= 0xFFF
    assert 0 <= pkt.packet_status <= 3
    assert pkt.data == data


lemma('data/sco/bytes', lemma_sco_bytes, prop=PROP, params=dict(h=BytesN(2), data=Bytes),
      requires=lambda h, data: [len(data) <= 255, h[1] < 64], inline=INLINE, procs=1, note='well-formed: the two RFU bits of the handle word are zero')


def lemma_iso_fields(handle, pb, dtl, ts, sdu, frag):
    """sdu = (packet_sequence_number, iso_sdu_length, packet_status_flag) or None; present exactly for PB_Flag 0b00/0b10"""
    if sdu is None:
        pkt = hci.HCI_IsoDataPacket(connection_handle=handle, data_total_length=dtl, iso_sdu_fragment=frag, pb_flag=pb, time_stamp=ts)
    else:
        pkt = hci.HCI_IsoDataPacket(connection_handle=handle, data_total_length=dtl, iso_sdu_fragment=frag, pb_flag=pb, time_stamp=ts,
                                    packet_sequence_number=sdu[0], iso_sdu_length=sdu[1], packet_status_flag=sdu[2])
    raw = bytes(pkt)
    want = iso_header(handle, pb, 0 if ts is None else 1, dtl)
    if ts is not None:
        want = want + le32_bytes(ts)
    if sdu is not None:
        want = want + iso_sdu_info(sdu[0], sdu[1], sdu[2])
    assert raw == want + frag
    back = HCI_Packet.from_bytes(raw)
    assert type(back) is hci.HCI_IsoDataPacket
    assert back.connection_handle == handle
    assert back.pb_flag == pb
    assert back.data_total_length == dtl
    assert back.time_stamp == ts
    assert back.ts_flag == (ts is not None)
    if sdu is None:
        assert back.packet_sequence_number is None
        assert back.iso_sdu_length is None
        assert back.packet_status_flag is None
    else:
        assert back.packet_sequence_number == sdu[0]
        assert back.iso_sdu_length == sdu[1]
        assert back.packet_status_flag == sdu[2]
    assert back.iso_sdu_fragment == frag
    assert bytes(back) == raw


lemma('data/iso/fields', lemma_iso_fields, prop=PROP,
      params=dict(handle=H12, pb=F2, dtl=U16, ts=Opt(U32), sdu=Opt(TupleOf(U16, H12, F2)), frag=Bytes),
      requires=lambda pb, sdu: (sdu is None) == (pb == 1 or pb == 3), inline=INLINE, procs=1,
      note='SDU information present exactly for PB_Flag 0b00/0b10 (Core 5.4.5); ISO_SDU_Length is a 12-bit field, Packet_Status_Flag a 2-bit field')


def lemma_iso_bytes(h, dtl, ts, sdu, frag):
    """h: the handle word; ts / sdu: optional Time_Stamp / SDU-information words as bytes"""
    raw = bytes([5]) + h + dtl + (b'' if ts is None else ts) + (b'' if sdu is None else sdu) + frag
    pkt = HCI_Packet.from_bytes(raw)
    assert type(pkt) is hci.HCI_IsoDataPacket
    assert bytes(pkt) == raw


lemma('data/iso/bytes', lemma_iso_bytes, prop=PROP,
      params=dict(h=BytesN(2), dtl=BytesN(2), ts=Opt(BytesN(4)), sdu=Opt(BytesN(4)), frag=Bytes),
      requires=lambda h, ts, sdu: [
          h[1] < 128,  # RFU bit 15 zero
          (ts is not None) == ((h[1] // 64) % 2 == 1),  # Time_Stamp present iff TS_Flag
          (sdu is not None) == ((h[1] // 16) % 2 == 0),  # SDU information present iff PB_Flag is 0b00 or 0b10
          sdu is None or (sdu[3] // 16) % 4 == 0,  # RFU bits 12-13 of the SDU-length word zero
      ], inline=INLINE, procs=1,
      note='well-formed per Core Vol 4 Part E 5.4.5: RFU bits zero, optional words present exactly as the flags say')


# ---------------------------------------------------------------------------------------------------------------------
# field-kind lemmas: one per distinct kind of field spec found in the registries, at an *arbitrary* offset inside
# arbitrary surrounding bytes, with the wire bytes given by the HCI parameter formats (Core Vol 4 Part E 5.2: little-endian
# integers, two's complement for signed values; '>' kinds big-endian by declaration)
# ---------------------------------------------------------------------------------------------------------------------
def wire_oracle(kind, raw):
    t = kind[0]
    if t == 'int':
        n = kind[1]
        u = raw % (1 << (8 * n))  # two's complement of a negative value
        bs = [(u // (1 << (8 * i))) % 256 for i in range(n)]
        if kind[3] == 'big':
            bs = bs[::-1]
        return bytes(bs)
    if t == 'var':
        return bytes([len(raw)]) + raw
    if t == 'lp':
        return bytes([len(raw)]) + raw + (bytes(kind[1] - 1 - len(raw)) if 1 + len(raw) < kind[1] else b'')
    if t == 'addr':
        return raw[0]
    if t == 'coding':
        return bytes([raw[0]]) + le16_bytes(raw[1]) + le16_bytes(raw[2])
    if t == 'obj':
        return b''.join([wire_oracle(it[2], r) for it, r in zip(kind[2], raw)])
    return raw


def make_kind_lemma(spec, kind):
    def requires(pre, raw, suf):
        out = dom_items([('f', 'x', kind)], [raw])
        if kind[0] == 'rest':
            out.append(len(suf) == 0)
        if kind[0] == 'lp':
            out.append(len(raw) <= kind[1] - 1)  # the padded form (longer data is written without padding)
        if kind == ('addr', 'preceded'):
            out = [len(pre) >= 1, is_public_type(raw[1]) == is_public_type(pre[len(pre) - 1])]
        return out

    def L(pre, raw, suf):
        v = mk_value(kind, raw)
        b = HCI_Object.serialize_field(v, spec)
        assert b == wire_oracle(kind, raw)
        got, size = HCI_Object.parse_field(pre + b + suf, len(pre), spec)
        if kind[0] == 'lp':
            # parse_length_prefixed_bytes reports the significant part only, not the padding: harmless because such a field
            # is the last one of its class (checked at import by describe_fields)
            assert size == 1 + len(raw)
        else:
            assert size == len(b)
        assert same_value(got, v)

    return L, requires


def kind_name(spec, kind):
    t = kind[0]
    if t == 'int':
        enum_cls = spec['parser'].__qualname__.split('.')[0] if isinstance(spec, dict) and 'parser' in spec else ''
        tag = enum_cls if enum_cls else ('dict-size' if isinstance(spec, dict) else repr(spec))
        return f'int{8 * kind[1]}{"s" if kind[2] else "u"}-{kind[3]}[{tag}]'
    if t == 'bytes':
        return f'bytes{kind[1]}' + ('[dict]' if isinstance(spec, dict) else '')
    if t == 'obj':
        return 'object-' + kind[1].__qualname__
    if t == 'addr':
        return f'address-{kind[1]}[{getattr(spec, "__qualname__", "?")}]'
    return '-'.join(str(x) for x in kind)


def all_specs():
    seen = {}
    classes = list(hci.HCI_Command.command_classes.values()) + list(hci.HCI_Event.event_classes.values()) + list(hci.HCI_LE_Meta_Event.subevent_classes.values())
    classes += [c.return_parameters_class for c in hci.HCI_Command.command_classes.values() if issubclass(c, hci.HCI_SyncCommand)]

    def walk(fields):
        for f in fields:
            if isinstance(f, list):
                walk(f)
                continue
            try:
                kind = describe_spec(f[1])
            except Undescribed:
                continue
            nm = kind_name(f[1], kind)
            if nm not in seen:
                seen[nm] = (f[1], kind)
            if kind[0] == 'obj':
                walk(HCI_Object.fields_from_dataclass(kind[1]))

    for c in classes:
        walk(c.fields)
    return seen


for _nm, (_spec, _kind) in sorted(all_specs().items()):
    _L, _R = make_kind_lemma(_spec, _kind)
    lemma(f'kind/{_nm}', _L, prop=PROP, params=dict(pre=Bytes, raw=value_T(_kind), suf=Bytes), requires=_R, inline=INLINE, procs=1)
