"""C09 — opening channels: the connection-request handlers register a new channel under fresh identifiers in BOTH tables
and refuse a request only for the reasons the specification names; in particular a peer CID is "already allocated" only
while an open channel uses it."""
import asyncio

from bumble import core, l2cap
from pyvc.contracts import (Any, Bool, Bytes, Callback, Const, Event, Inst, Int, IntRange, ListOf, Opaque, Opt, TupleOf,
                            contract, forall, iff, implies, ite, lemma, model, same)
from pyvc.ext_c09 import (PoolOf, RefT, allocated, dict_same, dict_same_except, forall_elems, forall_items, forall_objs,
                          is_instance_of, is_new, now, obj_same, pool_new, pool_same_except)

from contracts.c09_tables import (CHAN, HEAP, LE, LE_CONNECTED, LE_HI, LE_LO, MGR, WF_NAMES, distinct, entry, inner, is_le, wf)

LE_RSP = l2cap.L2CAP_LE_Credit_Based_Connection_Response.Result
OK, NO_PSM, NO_RES, DUP = int(LE_RSP.CONNECTION_SUCCESSFUL), int(LE_RSP.CONNECTION_REFUSED_LE_PSM_NOT_SUPPORTED), int(LE_RSP.CONNECTION_REFUSED_NO_RESOURCES_AVAILABLE), int(LE_RSP.CONNECTION_REFUSED_SOURCE_CID_ALREADY_ALLOCATED)

model(
    'bumble.l2cap:L2CAP_LE_Credit_Based_Connection_Request#c09',
    fields=dict(identifier=IntRange(0, 255), le_psm=IntRange(0, 0xFFFF), source_cid=IntRange(0, 0xFFFF), mtu=IntRange(0, 0xFFFF), mps=IntRange(0, 0xFFFF), initial_credits=IntRange(0, 0xFFFF)),
)
LE_REQ = Inst('bumble.l2cap:L2CAP_LE_Credit_Based_Connection_Request#c09')
OPEN_MOD = ['ghost.chans', 'ghost.cdicts', 'ghost.odicts', 'ghost.queues', 'ghost.frames', 'ghost.last_handle', 'ghost.le_result', 'ghost.le_dcid', 'ghost.accepted']
OPEN_INLINE = ['LeCreditBasedChannel.__init__', 'L2CAP_Control_Frame.__init__', 'L2CAP_LE_Credit_Based_Connection_Response.__init__']


def in_use(tbl, h, k):
    return h in tbl and k in tbl[h]


def all_le_cids_taken(ch, h):
    return h in ch and forall(LE_LO, LE_HI + 1, lambda c: c in ch[h])


def le_request_post(self, connection, request, old, ghost):
    h = connection.handle
    ch0, le0 = old.self.channels, old.self.le_coc_channels
    served = request.le_psm in old.self.le_coc_servers
    dup = in_use(le0, h, request.source_cid)
    full = all_le_cids_taken(ch0, h)
    accepted = served and not dup and not full
    c = entry(self.channels, h, ghost.le_dcid)
    return [
        # exactly one response, on the link of the request
        ghost.frames == old.ghost.frames + 1 and ghost.last_handle == h,
        # each refusal has its reason; in particular "source CID already allocated" means an open channel uses that CID
        iff(ghost.le_result == NO_PSM, not served),
        iff(ghost.le_result == DUP, served and dup),
        iff(ghost.le_result == NO_RES, served and not dup and full),
        iff(ghost.le_result == OK, accepted),
        # a refused request registers no channel: no table entry appears or changes
        implies(not accepted, pool_same_except(ghost.chans, old.ghost.chans, []) and forall_items(self.channels, lambda h2, d: forall_items(d, lambda k, x: same(entry(ch0, h2, k), x)))),
        implies(not accepted, forall_items(self.le_coc_channels, lambda h2, d: forall_items(d, lambda k, x: same(entry(le0, h2, k), x)))),
        # an accepted request creates one new connected channel, registered under a free local CID and under the peer's CID
        implies(accepted, (is_new(c, old.ghost.chans) and is_le(c) and c.state == LE_CONNECTED) if c is not None else False),
        implies(accepted, (c.source_cid == ghost.le_dcid and c.destination_cid == request.source_cid and same(c.connection, connection) and same(c.manager, self)) if c is not None else False),
        implies(accepted, LE_LO <= ghost.le_dcid and ghost.le_dcid <= LE_HI and not in_use(ch0, h, ghost.le_dcid)),
        implies(accepted, same(entry(self.le_coc_channels, h, request.source_cid), c)),
        # every other table entry is as before, every other channel object untouched
        implies(accepted, forall_items(self.channels, lambda h2, d: forall_items(d, lambda k, x: same(x, c) or same(entry(ch0, h2, k), x)))),
        implies(accepted, forall_items(self.le_coc_channels, lambda h2, d: forall_items(d, lambda k, x: same(x, c) or same(entry(le0, h2, k), x)))),
        forall_items(ch0, lambda h2, d: forall_items(d, lambda k, x: same(entry(self.channels, h2, k), x))),
        forall_items(le0, lambda h2, d: forall_items(d, lambda k, x: same(entry(self.le_coc_channels, h2, k), x))),
        pool_same_except(ghost.chans, old.ghost.chans, [c]),
    ] + wf(self, None)


LE_REQ_NAMES = ['one-response', 'refused-no-psm-iff', 'refused-cid-in-use-iff', 'refused-no-resources-iff', 'accepted-iff', 'refusal-registers-nothing', 'refusal-registers-nothing-le',
                'new-connected-channel', 'identifiers-of-new-channel', 'local-cid-free-and-dynamic', 'registered-under-peer-cid', 'no-other-entry-added', 'no-other-le-entry-added',
                'no-entry-removed', 'no-le-entry-removed', 'existing-channels-untouched'] + WF_NAMES

contract(
    'bumble.l2cap:ChannelManager.on_l2cap_le_credit_based_connection_request',
    prop='C09',
    params=dict(self=MGR, connection=RefT('conns'), cid=Int, request=LE_REQ),
    ghost=HEAP,
    requires=lambda self: wf(self, None),
    ensures=le_request_post,
    ensures_names=LE_REQ_NAMES,
    uses=['bumble.l2cap:ChannelManager.find_free_le_cid'],
    inline=OPEN_INLINE,
    modifies=OPEN_MOD,
)
