"""C05 — L2CAP PDUs of any size cross the ACL link intact for any buffer geometry."""
import struct

from bumble import core, hci
from pyvc.contracts import (Any, Bool, Bytes, Callback, Inst, Int, IntRange, OneOf, Opt, contract, iff, implies, lemma,
                            model, at, ite)
from spec.l2cap import is_l2cap_frame, l2cap_frame, le16

ENVIRONMENT = [
    'DataPacketQueue.enqueue is replaced by a recording stub in the sender contracts; that the queue hands each '
    'packet to the controller exactly once and in order is C04 (cited, not re-proved)',
    'the asynchronous hop through LocalLink (call_soon ordering) is environment (A1)',
    'ACL data length >= 2 is required for reassembly (a 1-byte first fragment cannot carry the 2-byte L2CAP length); '
    'legal controllers advertise >= 27',
]

# ---------------------------------------------------------------------------
# receiver: HCI_AclDataPacketAssembler
# ---------------------------------------------------------------------------
model(
    'bumble.hci:HCI_AclDataPacket',
    fields=dict(connection_handle=IntRange(0, 0xFFF), pb_flag=IntRange(0, 3), bc_flag=IntRange(0, 3), data_total_length=Int, data=Bytes),
)
ACL = Inst('bumble.hci:HCI_AclDataPacket')


def asm_deliver(ghost, pdu):
    # only complete L2CAP frames are ever handed to L2CAP
    assert is_l2cap_frame(pdu)
    ghost.last = pdu
    ghost.n = ghost.n + 1


model(
    'bumble.hci:HCI_AclDataPacketAssembler',
    fields=dict(callback=Callback('callback', effect=asm_deliver), current_data=Opt(Bytes), l2cap_pdu_length=Int),
)
ASM = Inst('bumble.hci:HCI_AclDataPacketAssembler')


def clean(asm):
    return asm.current_data is None and asm.l2cap_pdu_length == 0


def wf_asm(asm):
    """a PDU in progress is a proper prefix (>= 2 bytes, so its length is known) of the announced frame"""
    return (
        asm.l2cap_pdu_length == 0
        if asm.current_data is None
        else (len(asm.current_data) >= 2 and asm.l2cap_pdu_length == le16(asm.current_data) and len(asm.current_data) < asm.l2cap_pdu_length + 4)
    )


def asm_post(self, packet, old, ghost):
    return asm_step(self, packet, old.self.current_data, old.self.l2cap_pdu_length, old.ghost.n, old.ghost.last, ghost)


def asm_step(self, packet, cur0, L0, n0, last0, ghost):
    """reassembly step function, written from the statement: a start fragment begins a new PDU
    whatever was in progress; a continuation extends the PDU in progress; the PDU is delivered
    exactly when the announced length is reached; overflow discards only that PDU"""
    d = packet.data
    start = packet.pb_flag == 0 or packet.pb_flag == 2
    cont = packet.pb_flag == 1
    had = cur0 is not None
    buf = ite(start, d, (cur0 if had else b'') + (d if cont else b''))
    L = ite(start, le16(d), L0)
    ignored = cont and not had
    complete = not ignored and len(buf) == L + 4
    overflow = not ignored and len(buf) > L + 4
    return [
        wf_asm(self),
        # delivered exactly once, iff complete, with exactly the reassembled bytes
        ghost.n == n0 + ite(complete, 1, 0),
        implies(complete, ghost.last == buf),
        implies(not complete, ghost.last == last0),
        implies(complete or overflow, clean(self)),
        implies(ignored, clean(self)),
        implies(not ignored and not complete and not overflow, self.current_data is not None and self.current_data == buf and self.l2cap_pdu_length == L),
    ]


def asm_unchanged(self, old, ghost):
    return [
        wf_asm(self),
        (self.current_data is None) == (old.self.current_data is None),
        self.current_data == old.self.current_data,
        self.l2cap_pdu_length == old.self.l2cap_pdu_length,
        ghost.n == old.ghost.n,
        ghost.last == old.ghost.last,
    ]


FEED = dict(
    params=dict(self=ASM, packet=ACL),
    ghost=dict(n=Int, last=Bytes),
    requires=lambda self, packet: wf_asm(self),
    ensures=asm_post,
    ensures_names=['wf', 'delivered-once-iff-complete', 'delivered-bytes', 'not-delivered', 'clean-after-delivery-or-overflow', 'orphan-continuation-ignored', 'in-progress'],
    raises={
        # start fragment shorter than the L2CAP length field: dropped, nothing else changes
        struct.error: lambda self, packet, old, ghost: asm_unchanged(self, old, ghost) + [(packet.pb_flag == 0 or packet.pb_flag == 2) and len(packet.data) < 2],
        # reserved PB flag with nothing in progress: contained by the caller, nothing changes
        AssertionError: lambda self, packet, old, ghost: asm_unchanged(self, old, ghost) + [packet.pb_flag == 3 and old.self.current_data is None],
    },
    modifies=['self.current_data', 'self.l2cap_pdu_length', 'ghost.n', 'ghost.last'],
)
contract('bumble.hci:HCI_AclDataPacketAssembler.feed_packet', prop='C05', **FEED)

contract(
    'bumble.hci:HCI_AclDataPacketAssembler.__init__',
    prop='C05',
    params=dict(self=Inst('bumble.hci:HCI_AclDataPacketAssembler', current_data=Any, l2cap_pdu_length=Any), callback=Callback('callback', effect=asm_deliver)),
    ensures=lambda self: [clean(self), wf_asm(self)],
    modifies=['self.*'],
)


# ---------------------------------------------------------------------------
# sender: Host.send_acl_sdu / send_l2cap_pdu
# ---------------------------------------------------------------------------
def q_enqueue(ghost, packet, connection_handle):
    """recording stub for DataPacketQueue.enqueue: checks every fragment as it is emitted"""
    d = packet.data
    assert 1 <= len(d) and len(d) <= ghost.mps  # fits the controller's ACL data length
    assert packet.data_total_length == len(d)
    assert packet.pb_flag == ite(ghost.k == 0, 0, 1)  # start marker on the first, continuation on the others
    assert packet.bc_flag == 0
    assert packet.connection_handle == ghost.handle and connection_handle == ghost.handle
    ghost.cat = ghost.cat + d
    ghost.k = ghost.k + 1


model('bumble.host:DataPacketQueue', fields=dict(max_packet_size=Int), methods={'enqueue': Callback('enqueue', effect=q_enqueue)})
model('bumble.host:Connection', fields=dict(acl_packet_queue=Opt(Inst('bumble.host:DataPacketQueue'))))
def conn_get(ghost, handle):
    return ghost.conn


model('ghost:ConnTable', fields={}, methods={'get': Callback('get', effect=conn_get)})
model('bumble.host:Host', fields=dict(connections=Inst('ghost:ConnTable')))
HOST = Inst('bumble.host:Host')

SEND_GHOST = dict(cat=Bytes, k=Int, mps=Int, handle=Int, conn=Opt(Inst('bumble.host:Connection')))


def queue_is(ghost):
    """ghost.mps is the ACL data length of the queue of the connection that the table yields"""
    return ghost.conn is None or ghost.conn.acl_packet_queue is None or ghost.conn.acl_packet_queue.max_packet_size == ghost.mps


contract(
    'bumble.host:Host.send_acl_sdu',
    prop='C05',
    params=dict(self=HOST, connection_handle=IntRange(0, 0xFFF), sdu=Bytes),
    ghost=SEND_GHOST,
    # ghost.k == 0: no fragment of this SDU has been emitted yet; the queue that will be used has max_packet_size == ghost.mps >= 1
    requires=lambda self, connection_handle, sdu, ghost: [ghost.k == 0, ghost.mps >= 1, ghost.handle == connection_handle, ghost.cat == b'', queue_is(ghost)],
    ensures=lambda self, connection_handle, sdu, old, ghost: [
        # either nothing was sent (unknown connection / no queue) or the fragments concatenate to the SDU
        ghost.cat == sdu or (ghost.cat == b'' and ghost.k == 0),
    ],
    ensures_names=['fragments-concatenate-to-sdu'],
    modifies=['ghost.cat', 'ghost.k'],
    invariants={
        0: lambda sdu, _it, max_packet_size, old, ghost: [
            max_packet_size == ghost.mps,
            _it >= 0,
            ghost.cat == sdu[:_it],
            iff(ghost.k == 0, _it == 0),
            ghost.k >= 0,
        ]
    },
    decreases={0: lambda sdu, _it: len(sdu) - _it},
)

from bumble import l2cap as _l2cap  # noqa: E402

model('bumble.l2cap:L2CAP_PDU', fields=dict(cid=Int, payload=Bytes))
PDU = Inst('bumble.l2cap:L2CAP_PDU')

contract(
    'bumble.l2cap:L2CAP_PDU.to_bytes',
    prop='C05',
    params=dict(self=PDU, with_fcs=OneOf(False)),
    requires=lambda self, with_fcs: True,
    ensures=lambda self, with_fcs, res: [res == l2cap_frame(self.cid, self.payload), is_l2cap_frame(res)],
    ensures_names=['frame-bytes', 'is-frame'],
    raises={struct.error: lambda self: [not (0 <= self.cid and self.cid <= 0xFFFF and len(self.payload) <= 0xFFFF)]},
    modifies=[],
    note='with_fcs=True (ERTM) is covered under C08/C18',
)

contract(
    'bumble.l2cap:L2CAP_PDU.from_bytes',
    prop='C05',
    params=dict(cls=OneOf(_l2cap.L2CAP_PDU), data=Bytes),
    ensures=lambda cls, data, res: [
        res.cid == le16(data, 2),
        res.payload == data[4 : 4 + le16(data)],
        # a complete frame yields exactly its payload
        implies(is_l2cap_frame(data), l2cap_frame(res.cid, res.payload) == data),
    ],
    ensures_names=['cid', 'payload', 'inverse-of-to_bytes'],
    raises={core.InvalidPacketError: lambda data: [len(data) < 4]},
    modifies=[],
    inline=['L2CAP_PDU.__init__'],
)

contract(
    'bumble.host:Host.send_l2cap_pdu',
    prop='C05',
    params=dict(self=HOST, connection_handle=IntRange(0, 0xFFF), cid=Int, pdu=Bytes),
    ghost=SEND_GHOST,
    requires=lambda self, connection_handle, cid, pdu, ghost: [ghost.k == 0, ghost.mps >= 1, ghost.handle == connection_handle, ghost.cat == b'', queue_is(ghost)],
    ensures=lambda self, connection_handle, cid, pdu, old, ghost: [
        # the fragments handed to the queue concatenate to the basic L2CAP frame of (cid, pdu)
        ghost.cat == l2cap_frame(cid, pdu) or (ghost.cat == b'' and ghost.k == 0),
    ],
    ensures_names=['fragments-concatenate-to-frame'],
    raises={struct.error: lambda cid, pdu: [not (0 <= cid and cid <= 0xFFFF and len(pdu) <= 0xFFFF)]},
    modifies=['ghost.cat', 'ghost.k'],
    uses=['bumble.host:Host.send_acl_sdu'],
    inline=['L2CAP_PDU.__init__', 'L2CAP_PDU.__bytes__', 'L2CAP_PDU.to_bytes'],
)


# ---------------------------------------------------------------------------
# lemma: fragments of any frame, for any ACL data length >= 2, reassemble to exactly that frame
# ---------------------------------------------------------------------------
def lemma_acl_roundtrip(asm, frame, mps, handle):
    """feed the fragments send_acl_sdu produces (slices of mps bytes, start marker on the
    first, continuation on the others) to the real assembler, through its contract"""
    off = 0
    while off < len(frame):
        d = frame[off : off + mps]
        asm.feed_packet(hci.HCI_AclDataPacket(connection_handle=handle, pb_flag=0 if off == 0 else 1, bc_flag=0, data_total_length=len(d), data=d))
        off = off + mps


lemma(
    'acl_roundtrip',
    lemma_acl_roundtrip,
    prop='C05',
    params=dict(asm=ASM, frame=Bytes, mps=Int, handle=IntRange(0, 0xFFF)),
    ghost=dict(n=Int, last=Bytes),
    requires=lambda asm, frame, mps: [wf_asm(asm), is_l2cap_frame(frame), mps >= 2],
    ensures=lambda asm, frame, old, ghost: [
        ghost.n == old.ghost.n + 1,  # exactly once
        ghost.last == frame,  # byte-identical
        clean(asm),  # the next PDU starts from a clean assembler: sequences of PDUs compose
    ],
    ensures_names=['delivered-exactly-once', 'byte-identical', 'clean-afterwards'],
    modifies=['asm.current_data', 'asm.l2cap_pdu_length', 'ghost.n', 'ghost.last'],
    invariants={
        0: lambda asm, frame, mps, off, old, ghost: [
            off >= 0,
            implies(off == 0, ghost.n == old.ghost.n),
            implies(off > 0 and off < len(frame), asm.current_data is not None and asm.current_data == frame[:off] and asm.l2cap_pdu_length == le16(frame) and ghost.n == old.ghost.n),
            implies(off >= len(frame), clean(asm) and ghost.n == old.ghost.n + 1 and ghost.last == frame),
            wf_asm(asm),
        ]
    },
    decreases={0: lambda frame, off: len(frame) - off},
    uses=['bumble.hci:HCI_AclDataPacketAssembler.feed_packet'],
)


# ---------------------------------------------------------------------------
# host side delivery: Connection.on_hci_acl_data_packet / on_acl_pdu
# ---------------------------------------------------------------------------
def host_on_l2cap_pdu(ghost, connection, cid, payload):
    ghost.got_cid = cid
    ghost.got_payload = payload
    ghost.n_l2cap = ghost.n_l2cap + 1


model('ghost:HostSink', fields={}, methods={'on_l2cap_pdu': Callback('on_l2cap_pdu', effect=host_on_l2cap_pdu)})
model('bumble.host:Connection#rx', fields=dict(assembler=ASM, host=Inst('ghost:HostSink')))

contract(
    'bumble.host:Connection.on_hci_acl_data_packet',
    prop='C05',
    params=dict(self=Inst('bumble.host:Connection#rx'), packet=ACL),
    ghost=dict(n=Int, last=Bytes),
    requires=lambda self, packet: wf_asm(self.assembler),
    # the host connection hands every ACL packet to its assembler and adds nothing
    ensures=lambda self, packet, old, ghost: asm_step(
        self.assembler, packet, old.self.assembler.current_data, old.self.assembler.l2cap_pdu_length, old.ghost.n, old.ghost.last, ghost
    ),
    raises={struct.error: lambda self: [wf_asm(self.assembler)], AssertionError: lambda self: [wf_asm(self.assembler)]},
    modifies=['self.assembler.current_data', 'self.assembler.l2cap_pdu_length', 'ghost.n', 'ghost.last'],
    uses=['bumble.hci:HCI_AclDataPacketAssembler.feed_packet'],
)


contract(
    'bumble.host:Connection.on_acl_pdu',
    prop='C05',
    params=dict(self=Inst('bumble.host:Connection#rx'), pdu=Bytes),
    ghost=dict(got_cid=Int, got_payload=Bytes, n_l2cap=Int),
    requires=lambda self, pdu: is_l2cap_frame(pdu),  # what the assembler delivers (asm_deliver asserts it)
    ensures=lambda self, pdu, old, ghost: [
        ghost.n_l2cap == old.ghost.n_l2cap + 1,
        l2cap_frame(ghost.got_cid, ghost.got_payload) == pdu,
    ],
    ensures_names=['delivered-once', 'cid-and-payload-exact'],
    modifies=['ghost.got_cid', 'ghost.got_payload', 'ghost.n_l2cap'],
    inline=['L2CAP_PDU.from_bytes', 'L2CAP_PDU.__init__'],
)


# ---------------------------------------------------------------------------
# ISO SDU fragmentation: Host.send_iso_sdu
# ---------------------------------------------------------------------------
def iso_enqueue(ghost, packet, connection_handle):
    """recording stub for the ISO queue: checks every fragment (HCI ISO data packet, Core
    Vol 4 Part E 5.4.5: PB 0b10 complete SDU, 0b00 first, 0b01 continuation, 0b11 last)"""
    f = packet.iso_sdu_fragment
    first = ghost.k == 0
    last = len(ghost.cat) + len(f) == ghost.sdu_len
    hdr = ite(first, 4, 0)
    assert len(f) >= 1
    assert packet.data_total_length == hdr + len(f)
    assert packet.data_total_length <= ghost.mps  # fits the controller's ISO data packet length
    assert packet.pb_flag == ite(first, ite(last, 2, 0), ite(last, 3, 1))
    assert packet.connection_handle == ghost.handle and connection_handle == ghost.handle
    if first:
        assert packet.iso_sdu_length == ghost.sdu_len
        assert packet.packet_sequence_number == ghost.seq
    ghost.cat = ghost.cat + f
    ghost.k = ghost.k + 1


model('bumble.host:DataPacketQueue#iso', fields=dict(max_packet_size=Int), methods={'enqueue': Callback('enqueue', effect=iso_enqueue)})
model('bumble.host:IsoLink', fields=dict(handle=Int, packet_queue=Opt(Inst('bumble.host:DataPacketQueue#iso')), packet_sequence_number=IntRange(0, 0xFFFF)))


def cis_get(ghost, handle):
    return ghost.cis


def bis_get(ghost, handle):
    return ghost.bis


model('ghost:CisTable', fields={}, methods={'get': Callback('get', effect=cis_get)})
model('ghost:BisTable', fields={}, methods={'get': Callback('get', effect=bis_get)})
model('bumble.host:Host#iso', fields=dict(cis_links=Inst('ghost:CisTable'), bis_links=Inst('ghost:BisTable')))

ISO_GHOST = dict(cat=Bytes, k=Int, mps=Int, handle=Int, sdu_len=Int, seq=Int, cis=Opt(Inst('bumble.host:IsoLink')), bis=Opt(Inst('bumble.host:IsoLink')))


def iso_link_of(ghost):
    return ghost.cis if ghost.cis is not None else ghost.bis


def iso_pre(self, connection_handle, sdu, ghost):
    link = iso_link_of(ghost)
    return [
        ghost.k == 0,
        ghost.cat == b'',
        ghost.handle == connection_handle,
        ghost.sdu_len == len(sdu),
        # the ISO data packet length leaves room for the 4-byte SDU header
        ghost.mps > 4,
        link is None or (link.packet_queue is None or link.packet_queue.max_packet_size == ghost.mps) and ghost.seq == link.packet_sequence_number,
        # distinct table entries are distinct links
        ghost.cis is None or ghost.bis is None,
    ]


def iso_post(self, connection_handle, sdu, old, ghost):
    link = iso_link_of(ghost)
    sent = link is not None and link.packet_queue is not None
    return [
        ghost.cat == (sdu if sent else b''),
        # one sequence number per SDU, modulo 2^16
        link.packet_sequence_number == (old.ghost.seq + 1) % 65536 if sent else True,
    ]


contract(
    'bumble.host:Host.send_iso_sdu',
    prop='C05',
    params=dict(self=Inst('bumble.host:Host#iso'), connection_handle=IntRange(0, 0xFFF), sdu=Bytes),
    ghost=ISO_GHOST,
    requires=iso_pre,
    ensures=iso_post,
    ensures_names=['fragments-concatenate-to-sdu', 'sequence-number-advances-once'],
    modifies=['ghost.cat', 'ghost.k', 'ghost.cis.packet_sequence_number', 'ghost.bis.packet_sequence_number'],
    invariants={
        0: lambda sdu, offset, bytes_remaining, iso_link, old, ghost: [
            offset >= 0,
            bytes_remaining >= 0,
            offset + bytes_remaining == len(sdu),
            ghost.cat == sdu[:offset],
            iff(ghost.k == 0, offset == 0),
            ghost.k >= 0,
            iso_link.packet_sequence_number == old.ghost.seq,
            iso_link.packet_queue is not None and iso_link.packet_queue.max_packet_size == ghost.mps,
        ]
    },
    decreases={0: lambda bytes_remaining: bytes_remaining},
    inline=['HCI_IsoDataPacket.__post_init__'],
)


# ---------------------------------------------------------------------------
# virtual controller relay
# ---------------------------------------------------------------------------
def ctrl_send_hci_packet(ghost, packet):
    ghost.sent = ghost.sent + 1
    ghost.sent_last = packet


def link_send_acl_data(ghost, sender, destination, transport, data):
    ghost.relayed = ghost.relayed + 1
    ghost.relayed_data = data
    ghost.relayed_dest = destination
    ghost.relayed_transport = transport


from pyvc.contracts import Opaque  # noqa: E402

model('ghost:Ctrl', fields={}, methods={'send_hci_packet': Callback('send_hci_packet', effect=ctrl_send_hci_packet)})
model('ghost:Link', fields={}, methods={'send_acl_data': Callback('send_acl_data', effect=link_send_acl_data)})
model(
    'bumble.controller:Connection',
    fields=dict(
        controller=Inst('ghost:Ctrl'),
        handle=IntRange(0, 0xEFF),
        peer_address=Opaque('addr'),
        link=Opt(Inst('ghost:Link')),
        transport=Int,
        assembler=ASM,
    ),
)
CCONN = Inst('bumble.controller:Connection')

contract(
    'bumble.controller:Connection.on_acl_pdu',
    prop='C05',
    params=dict(self=CCONN, pdu=Bytes),
    ghost=dict(relayed=Int, relayed_data=Bytes, relayed_dest=Opaque('addr'), relayed_transport=Int),
    ensures=lambda self, pdu, old, ghost: [
        # the reassembled PDU goes to the link once, unmodified, addressed to this connection's peer
        ghost.relayed == old.ghost.relayed + (1 if self.link is not None else 0),
        (ghost.relayed_data == pdu and ghost.relayed_dest == self.peer_address and ghost.relayed_transport == self.transport) if self.link is not None else True,
    ],
    ensures_names=['relayed-once', 'unmodified-to-peer'],
    modifies=['ghost.relayed', 'ghost.relayed_data', 'ghost.relayed_dest', 'ghost.relayed_transport'],
)

contract(
    'bumble.controller:Connection.on_hci_acl_data_packet',
    prop='C05',
    params=dict(self=CCONN, packet=ACL),
    ghost=dict(n=Int, last=Bytes, sent=Int, sent_last=Any),
    requires=lambda self, packet: wf_asm(self.assembler),
    ensures=lambda self, packet, old, ghost: asm_step(
        self.assembler, packet, old.self.assembler.current_data, old.self.assembler.l2cap_pdu_length, old.ghost.n, old.ghost.last, ghost
    )
    + [
        # the buffer is reported free exactly once for this packet, on this connection's handle
        ghost.sent == old.ghost.sent + 1,
        ghost.sent_last.connection_handles == [self.handle],
        ghost.sent_last.num_completed_packets == [1],
    ],
    raises={struct.error: lambda self: [wf_asm(self.assembler)], AssertionError: lambda self: [wf_asm(self.assembler)]},
    modifies=['self.assembler.current_data', 'self.assembler.l2cap_pdu_length', 'ghost.n', 'ghost.last', 'ghost.sent', 'ghost.sent_last'],
    uses=['bumble.hci:HCI_AclDataPacketAssembler.feed_packet'],
    inline=['HCI_Event.__post_init__', 'HCI_Event.__init__'],
)

model('ghost:AddrMapLE', fields={}, methods={'get': Callback('get', effect=lambda ghost, a: ghost.le_conn)})
model('ghost:AddrMapBR', fields={}, methods={'get': Callback('get', effect=lambda ghost, a: ghost.br_conn)})
model(
    'bumble.controller:Controller',
    fields=dict(le_connections=Inst('ghost:AddrMapLE'), classic_connections=Inst('ghost:AddrMapBR')),
    methods={'send_hci_packet': Callback('send_hci_packet', effect=ctrl_send_hci_packet)},
)

from bumble.core import PhysicalTransport  # noqa: E402

contract(
    'bumble.controller:Controller.on_link_acl_data',
    prop='C05',
    params=dict(self=Inst('bumble.controller:Controller'), sender_address=Opaque('addr'), transport=OneOf(PhysicalTransport.LE, PhysicalTransport.BR_EDR), data=Bytes),
    ghost=dict(sent=Int, sent_last=Any, le_conn=Opt(CCONN), br_conn=Opt(CCONN)),
    requires=lambda self, data: len(data) <= 0xFFFF,
    ensures=lambda self, sender_address, transport, data, old, ghost: [
        # one complete ACL packet (start marker, whole PDU) on the handle of the connection keyed by the sender
        (
            ghost.sent == old.ghost.sent + 1
            and ghost.sent_last.connection_handle == conn_for(ghost, transport).handle
            and ghost.sent_last.data == data
            and ghost.sent_last.data_total_length == len(data)
            and (ghost.sent_last.pb_flag == 2 or ghost.sent_last.pb_flag == 0)
            and ghost.sent_last.bc_flag == 0
        )
        if conn_for(ghost, transport) is not None
        else ghost.sent == old.ghost.sent
    ],
    ensures_names=['relayed-as-one-start-packet'],
    modifies=['ghost.sent', 'ghost.sent_last'],
    note='the controller does not fragment towards the host (TODO in the code): a PDU longer than the host ACL buffer is passed whole',
)


def conn_for(ghost, transport):
    return ghost.le_conn if transport == PhysicalTransport.LE else ghost.br_conn


# ---------------------------------------------------------------------------
# host.Connection.__init__: the data queue (hence the fragment size and the credits) is the one of the connection's transport
# ---------------------------------------------------------------------------
model('ghost:HostQueues', fields=dict(acl_packet_queue=Opt(Opaque('queue')), le_acl_packet_queue=Opt(Opaque('queue'))))
model(
    'bumble.host:Connection#new',
    fields=dict(host=Any, handle=Any, peer_address=Any, assembler=Any, transport=Any, acl_packet_queue=Any),
)
contract(
    'bumble.host:Connection.__init__',
    prop='C05',
    params=dict(
        self=Inst('bumble.host:Connection#new'),
        host=Inst('ghost:HostQueues'),
        handle=IntRange(0, 0xFFF),
        peer_address=Opaque('address'),
        transport=OneOf(core.PhysicalTransport.LE, core.PhysicalTransport.BR_EDR),
    ),
    # fragments are cut to the ACL data length of the controller buffer pool that carries this transport
    ensures=lambda self, host, handle, transport: [
        self.acl_packet_queue is (host.le_acl_packet_queue if transport == core.PhysicalTransport.LE else host.acl_packet_queue),
        self.acl_packet_queue is not None,
        self.handle == handle,
        clean(self.assembler),
    ],
    ensures_names=['queue-of-the-transport', 'queue-exists', 'handle', 'assembler-clean'],
    raises={AssertionError: lambda host, transport: (host.le_acl_packet_queue if transport == core.PhysicalTransport.LE else host.acl_packet_queue) is None},
    modifies=['self.*'],
    inline=['HCI_AclDataPacketAssembler.__init__'],
)
