"""C11 -- GATT attribute permissions gate every read and write path.

Part 1 (this file): the link-security gates, value profile
  bumble.att:Attribute.read_value    normal return  =>  the link meets the attribute's read encryption /
                                     authentication / authorisation requirement; otherwise ATT_Error(matching code,
                                     att_handle) raised *before* the value is read (AttributeValue.read) and before
                                     EVENT_READ is emitted
  bumble.att:Attribute.write_value   symmetric; on refusal nothing is written (static value unchanged, dynamic
                                     value's write function not called, EVENT_WRITE not emitted)
These two methods are also the *local* access path (Server.notify_subscriber reads the value of a notify-only
characteristic through read_value; applications and the unit tests call them directly), so the READABLE /
WRITEABLE half of the statement ("a peer can obtain the value only if the attribute is readable") is stated where
the statement puts it: on every ATT operation of a peer -- Part 2 (contracts/c11_server.py): the reading / writing
handlers of gatt_server.Server against callee views of these contracts.
"""
import inspect

from bumble import att, l2cap
from pyvc.contracts import Bool, Bytes, Callback, Const, Inst, Int, IntRange, OneOf, contract, implies, model
from spec.att_perm import link_ok_read, link_ok_write, read_link_refusal_code_ok, write_link_refusal_code_ok

ENVIRONMENT = [
    'link security state is what Connection.encryption / Connection.authenticated say (set by the SMP/HCI '
    'layers: C13); an enhanced bearer (L2CAP credit based channel) is judged by its .connection',
    'the bearer of a peer request is never None (read_value/write_value skip the link checks for a None '
    'connection: local access)',
    'a dynamic value (AttributeValue / AttributeValueV2) has both functions; they are environment: recorded '
    'callbacks returning an arbitrary byte string (possibly through an awaitable) or raising ATT_Error with an '
    'arbitrary code; Attribute.emit (pyee) is a recorded callback; encode_value/decode_value are the identity '
    'of the base class (adapters of gatt_adapters.py are not covered)',
    'no authorisation is ever granted: an attribute whose permissions require authorisation must be refused',
]


# ---------------------------------------------------------------------------
# bearers and link security state
# ---------------------------------------------------------------------------
model(
    'bumble.device:Connection#c11',
    # encryption: 0 none, 1 E0/AES-CCM, 2 AES-CCM (device.Connection.encryption is an int); g_id: ghost identity
    fields=dict(encryption=IntRange(0, 2), authenticated=Bool, att_mtu=IntRange(23, 0xFFFF), handle=IntRange(0, 0xEFF), g_id=Int),
)
CONN = Inst('bumble.device:Connection#c11')
model(
    'bumble.l2cap:LeCreditBasedChannel#c11',
    fields=dict(connection=CONN, att_mtu=IntRange(23, 0xFFFF), source_cid=IntRange(0x40, 0xFFFF), g_id=Int),
)
CHAN = Inst('bumble.l2cap:LeCreditBasedChannel#c11')
BEARER = OneOf(CONN, CHAN)


def conn_of(bearer):
    """the ACL connection whose security state gates the access (statement: bearer kind)"""
    return bearer.connection if isinstance(bearer, l2cap.LeCreditBasedChannel) else bearer


def encrypted(bearer):
    return conn_of(bearer).encryption != 0


def authenticated(bearer):
    return conn_of(bearer).authenticated


# ---------------------------------------------------------------------------
# the attribute and its value
# ---------------------------------------------------------------------------
def val_read(ghost, arg):
    """AttributeValue._read / AttributeValueV2._read: environment"""
    ghost.reads = ghost.reads + 1
    if ghost.cb_err != 0:
        raise att.ATT_Error(error_code=ghost.cb_err)
    return ghost.src


def val_write(ghost, arg, value):
    ghost.writes = ghost.writes + 1
    ghost.written = value
    if ghost.cb_err != 0:
        raise att.ATT_Error(error_code=ghost.cb_err)
    return None


def rec_emit(ghost, event, arg, value):
    ghost.emits = ghost.emits + 1
    ghost.emitted = value


DYN = dict(_read=Callback('_read', effect=val_read, raises=(att.ATT_Error,)), _write=Callback('_write', effect=val_write, raises=(att.ATT_Error,)))
model('bumble.att:AttributeValue#c11', fields=DYN)
model('bumble.att:AttributeValueV2#c11', fields=DYN)
model(
    'bumble.att:Attribute#c11',
    fields=dict(
        handle=IntRange(0, 0xFFFF),
        permissions=IntRange(0, 0xFF),  # every combination of the eight flags
        value=OneOf(Bytes, Const(None), Inst('bumble.att:AttributeValue#c11'), Inst('bumble.att:AttributeValueV2#c11')),
    ),
    methods={'emit': Callback('emit', effect=rec_emit)},
)
ATTR = Inst('bumble.att:Attribute#c11')

GATE_GHOST = dict(reads=Int, writes=Int, emits=Int, cb_err=IntRange(0, 0xFF), src=Bytes, written=Bytes, emitted=Bytes, aw=Bool)
GATE_MOD = ['ghost.reads', 'ghost.writes', 'ghost.emits', 'ghost.written', 'ghost.emitted']
GATE_INLINE = ['bumble.att:is_enhanced_bearer', 'AttributeValue.read', 'AttributeValue.write', 'AttributeValueV2.read', 'AttributeValueV2.write',
               'Attribute.encode_value', 'Attribute.decode_value', 'ATT_Error.__init__', 'BaseError.__init__']
# the value function may hand back an awaitable: both answers of inspect.isawaitable are explored
GATE_STUBS = {inspect.isawaitable: Callback('isawaitable', effect=lambda ghost, x: ghost.aw)}


def is_dynamic(self):
    return isinstance(self.value, (att.AttributeValue, att.AttributeValueV2))


def untouched(old, ghost):
    """the value was neither read nor written and no event was emitted"""
    return ghost.reads == old.ghost.reads and ghost.writes == old.ghost.writes and ghost.emits == old.ghost.emits


def read_ok(self, bearer, res, old, ghost):
    return [
        # statement: a peer obtains the value only if ... the link meets its read requirement
        link_ok_read(self.permissions, encrypted(bearer), authenticated(bearer)),
        # the value handed out is the attribute's value
        implies(is_dynamic(self), res == ghost.src and ghost.reads == old.ghost.reads + 1),
        implies(not is_dynamic(self) and self.value is not None, res == self.value and ghost.reads == old.ghost.reads),
        implies(self.value is None, res == b''),
        ghost.emits == old.ghost.emits + 1 and ghost.emitted == res,
        ghost.writes == old.ghost.writes,
    ]


READ_OK_NAMES = ['link-meets-read-requirements', 'dynamic-value', 'static-value', 'no-value', 'read-event', 'not-written']


def read_refused(self, bearer, exc, old, ghost):
    ok = link_ok_read(self.permissions, encrypted(bearer), authenticated(bearer))
    return [
        exc.att_handle == self.handle,
        # refusal: the matching error, raised before the value is read or the event emitted
        implies(not ok, read_link_refusal_code_ok(exc.error_code, self.permissions, encrypted(bearer), authenticated(bearer))),
        implies(not ok, untouched(old, ghost)),
        # an allowed read may still fail inside the application's value function: its code is passed on
        implies(ok, is_dynamic(self) and ghost.cb_err != 0 and exc.error_code == ghost.cb_err and ghost.emits == old.ghost.emits and ghost.writes == old.ghost.writes),
    ]


READ_REFUSED_NAMES = ['handle-in-error', 'matching-error-code', 'refused-before-value-read-or-event', 'application-error-passed-on']

contract(
    'bumble.att:Attribute.read_value',
    prop='C11',
    params=dict(self=ATTR, bearer=BEARER),
    ghost=GATE_GHOST,
    ensures=read_ok,
    ensures_names=READ_OK_NAMES,
    raises={att.ATT_Error: read_refused},
    modifies=GATE_MOD,
    inline=GATE_INLINE,
    stubs=GATE_STUBS,
)


def write_ok(self, bearer, value, old, ghost):
    return [
        link_ok_write(self.permissions, encrypted(bearer), authenticated(bearer)),
        implies(is_dynamic(self), ghost.writes == old.ghost.writes + 1 and ghost.written == value and self.value is old.self.value),
        implies(not is_dynamic(self), self.value == value and ghost.writes == old.ghost.writes),
        ghost.emits == old.ghost.emits + 1 and ghost.emitted == value,
        ghost.reads == old.ghost.reads,
    ]


WRITE_OK_NAMES = ['link-meets-write-requirements', 'dynamic-value-written', 'static-value-replaced', 'write-event', 'not-read']


def same_value(self, old):
    """the stored value (static bytes / None / the dynamic value object) is what it was"""
    return self.value is old.self.value if (is_dynamic(self) or self.value is None) else self.value == old.self.value


def write_refused(self, bearer, value, exc, old, ghost):
    ok = link_ok_write(self.permissions, encrypted(bearer), authenticated(bearer))
    return [
        exc.att_handle == self.handle,
        implies(not ok, write_link_refusal_code_ok(exc.error_code, self.permissions, encrypted(bearer), authenticated(bearer))),
        # statement: a refused access always leaves the attribute unchanged
        implies(not ok, untouched(old, ghost) and same_value(self, old)),
        implies(ok, is_dynamic(self) and ghost.cb_err != 0 and exc.error_code == ghost.cb_err and ghost.emits == old.ghost.emits and same_value(self, old)),
    ]


contract(
    'bumble.att:Attribute.write_value',
    prop='C11',
    params=dict(self=ATTR, bearer=BEARER, value=Bytes),
    ghost=GATE_GHOST,
    ensures=write_ok,
    ensures_names=WRITE_OK_NAMES,
    raises={att.ATT_Error: write_refused},
    modifies=GATE_MOD + ['self.value'],
    inline=GATE_INLINE,
    stubs=GATE_STUBS,
)


# ---------------------------------------------------------------------------
# reflected family: every kind of attribute goes through these two gates, and what the declaration constructors create
# ---------------------------------------------------------------------------
def _all_attribute_classes():
    import importlib
    import pkgutil

    import bumble.profiles
    from bumble import gatt, gatt_adapters, gatt_server  # noqa: F401  (define subclasses of Attribute)

    for m in pkgutil.iter_modules(bumble.profiles.__path__):
        try:
            importlib.import_module('bumble.profiles.' + m.name)
        except Exception:  # noqa: BLE001  (optional dependencies of a profile)
            pass
    seen, todo = [], [att.Attribute]
    while todo:
        c = todo.pop()
        for s in c.__subclasses__():
            if s not in seen:
                seen.append(s)
                todo.append(s)
    return sorted(seen, key=lambda c: (c.__module__, c.__qualname__))


def attribute_family(top, out, tier, seed):
    """one obligation per subclass of att.Attribute found in bumble (gatt, gatt_adapters, gatt_server, profiles.*):
    read_value / write_value are the functions verified above (no override), so the contracts hold for services,
    includes, characteristic declarations, characteristics (and their adapters) and descriptors alike; plus what
    the declaration constructors create (READABLE only; the CCCD added by Server.add_service READABLE|WRITEABLE)"""
    from bumble import gatt, gatt_server

    checks = {}
    for cls in _all_attribute_classes():
        same = cls.read_value is att.Attribute.read_value and cls.write_value is att.Attribute.write_value
        checks[f'gates-inherited#{cls.__module__}.{cls.__qualname__}'] = (same, f'{cls.__qualname__} overrides read_value/write_value')
    R_, W_ = att.Attribute.READABLE, att.Attribute.WRITEABLE
    ch = gatt.Characteristic('2A19', gatt.Characteristic.Properties.NOTIFY | gatt.Characteristic.Properties.READ, R_, b'')
    svc = gatt.Service('180F', [ch])
    made = {
        'Service': svc.permissions,
        'IncludedServiceDeclaration': gatt.IncludedServiceDeclaration(svc).permissions,
        'CharacteristicDeclaration': gatt.CharacteristicDeclaration(ch, 3).permissions,
    }
    for name, perms in made.items():
        checks[f'declaration-readable-only#{name}'] = (int(perms) == int(R_), f'{name} created with permissions {perms!r}')
    import types

    server = gatt_server.Server(types.SimpleNamespace(send_l2cap_pdu=lambda *a: None))
    server.add_service(svc)
    cccd = next((a for a in server.attributes if a.type == gatt.GATT_CLIENT_CHARACTERISTIC_CONFIGURATION_DESCRIPTOR), None)
    checks['cccd-readable-writeable'] = (cccd is not None and int(cccd.permissions) == int(R_ | W_), f'CCCD created with {getattr(cccd, "permissions", None)!r}')
    out['kind'] = 'lemma'
    out['paths'] = 0
    out['sha'] = ''
    for name, (ok, why) in checks.items():
        out['names'][f'C11/attribute_family/{name}'] = {
            'kind': 'family', 'n': 1, 'proved': 1 if ok else 0, 'refuted': 0 if ok else 1, 'unknown': 0, 'vacuous': 0, 'disagree': 0,
            'time': 0.0, 'max_time': 0.0, 'backends': {'reflection': 1}, 'abstracted': False, 'expect_sat': False, 'loc': 'attribute_family', 'details': [],
            'witnesses': [] if ok else [{'loc': 'attribute_family', 'decisions': [], 'info': {}, 'solver': 'reflection', 'detail': why, 'replay': {'outcome': 'violated', 'confirms': True, 'failed': [why]}}],
        }
    return out


from pyvc.contracts import lemma  # noqa: E402

lemma('attribute_family', lambda: None, prop='C11', params={}, custom=attribute_family)
