"""C13 -- pairing ends the same way on both sides, with honest authentication.

L1 (this part): the association model.  Session.decide_pairing_method, reading the real Session.PAIRING_METHODS
by reflection, against the oracle of spec/smp.py (Core Vol 3 Part H 2.3.5.1, Tables 2.6-2.8), and a ghost driver
that runs it on an initiator and a responder session fed with the values the two exchange.
"""
from bumble import smp
from bumble.core import PhysicalTransport
from pyvc.contracts import (Any, Bool, Bytes, Callback, Const, Inst, Int, IntRange, OneOf, Opaque, Opt, contract, iff, implies,
                            lemma, model)
from spec import smp as S

ENVIRONMENT = [
    'two-party liveness ("either both complete or both fail; pairing never hangs") is a relation between two '
    'asynchronous state machines, user delegates and timers: outside function contracts, NOT claimed',
]

PM = smp.PairingMethod
IO = OneOf(0, 1, 2, 3, 4)  # Vol 3 Part H Table 3.4: the five defined IO capabilities


def method_id(spec_method):
    """bumble's PairingMethod member for a key generation method of the specification"""
    if spec_method == S.JUST_WORKS:
        return PM.JUST_WORKS
    if spec_method == S.PASSKEY_ENTRY:
        return PM.PASSKEY
    if spec_method == S.NUMERIC_COMPARISON:
        return PM.NUMERIC_COMPARISON
    return PM.OOB


# ---------------------------------------------------------------------------
# L1a: decide_pairing_method == Tables 2.6/2.7 (MITM rule) + Table 2.8, with the display/input role of this side
# ---------------------------------------------------------------------------
model('ghost:Link', fields=dict(transport=OneOf(PhysicalTransport.LE, PhysicalTransport.BR_EDR)))
model(
    'bumble.smp:Session#dpm',
    fields=dict(connection=Inst('ghost:Link'), mitm=Bool, sc=Bool, is_initiator=Bool, pairing_method=IntRange(0, 4), passkey_display=Bool),
)
SESSION_DPM = Inst('bumble.smp:Session#dpm')


def peer_mitm(auth_req):
    """the MITM flag of the peer as received in its Pairing Request / Response (Figure 3.3, bit 2)"""
    return (auth_req // S.AUTHREQ_MITM) % 2 == 1


def dpm_post(self, auth_req, initiator_io_capability, responder_io_capability, old):
    # on LE: who is who -- the local flag belongs to the local role, the received one to the peer
    i_mitm = self.mitm if self.is_initiator else peer_mitm(auth_req)
    r_mitm = peer_mitm(auth_req) if self.is_initiator else self.mitm
    method = S.key_generation_method(initiator_io_capability, responder_io_capability, self.sc, i_mitm, r_mitm)
    roles = S.passkey_roles(initiator_io_capability, responder_io_capability, self.sc)
    le = self.connection.transport == PhysicalTransport.LE
    return [
        implies(le, self.pairing_method == method_id(method)),
        # Passkey Entry: this side displays iff the table says its role displays; otherwise it inputs
        implies(le and method == S.PASSKEY_ENTRY, self.passkey_display == (roles[0] if self.is_initiator else roles[1])),
        implies(le and method != S.PASSKEY_ENTRY, self.passkey_display == old.self.passkey_display),
        # SMP over BR/EDR (cross-transport key derivation): no association model is run at all
        implies(not le, self.pairing_method == PM.CTKD_OVER_CLASSIC and self.passkey_display == old.self.passkey_display),
    ]


contract(
    'bumble.smp:Session.decide_pairing_method',
    prop='C13',
    params=dict(self=SESSION_DPM, auth_req=IntRange(0, 255), initiator_io_capability=IO, responder_io_capability=IO),
    ensures=dpm_post,
    ensures_names=['method-is-table-2.8', 'passkey-role-is-table-2.8', 'no-role-without-passkey', 'br-edr-is-ctkd'],
    modifies=['self.pairing_method', 'self.passkey_display'],
)


# ---------------------------------------------------------------------------
# L1b: the oracle is self-consistent -- the transcription of Table 2.8 equals its structural reading, the
# roles of a Passkey Entry cell are complementary (never both display; both input only for two bare keyboards),
# and an authenticated method is only chosen when somebody asked for MITM protection
# ---------------------------------------------------------------------------
def lemma_table_sane(i_io, r_io, sc, i_mitm, r_mitm):
    cell = S.table_2_8(i_io, r_io, sc)
    assert cell == S.table_2_8_structural(i_io, r_io, sc)
    i_disp, r_disp = S.passkey_roles(i_io, r_io, sc)
    assert not (i_disp and r_disp)
    if cell[0] == S.PASSKEY_ENTRY:
        assert (i_disp != r_disp) or (i_io == S.KEYBOARD_ONLY and r_io == S.KEYBOARD_ONLY)
        # whoever displays can display, whoever inputs has a keyboard
        assert implies(i_disp, S.can_display(i_io) and S.can_type(r_io))
        assert implies(r_disp, S.can_display(r_io) and S.can_type(i_io))
        assert implies(not i_disp and not r_disp, S.can_type(i_io) and S.can_type(r_io))
    else:
        assert not i_disp and not r_disp
    if cell[0] == S.NUMERIC_COMPARISON:
        assert sc  # Numeric Comparison exists in LE Secure Connections only
    m = S.key_generation_method(i_io, r_io, sc, i_mitm, r_mitm)
    assert implies(m in S.AUTHENTICATED_METHODS, i_mitm or r_mitm)


lemma('table_2_8_sane', lemma_table_sane, prop='C13', params=dict(i_io=IO, r_io=IO, sc=Bool, i_mitm=Bool, r_mitm=Bool))


# ---------------------------------------------------------------------------
# L1c: both sides select the same model, with complementary roles.  Ghost driver: the initiator's session and
# the responder's session each run the real decide_pairing_method on what the two exchange -- the initiator
# on (AuthReq of the Pairing Response, own IO capability, IO capability of the response), the responder on
# (AuthReq of the Pairing Request, IO capability of the request, own IO capability); the AuthReq octets are
# produced by the real Session.auth_req property of the other side (keypress and ct2 are never set by Session:
# __init__ sets both False and the handlers only AND them).
# ---------------------------------------------------------------------------
model(
    'bumble.smp:Session#two',
    fields=dict(connection=Inst('ghost:Link'), mitm=Bool, sc=Bool, bonding=Bool, keypress=Const(False), ct2=Const(False), is_initiator=Bool,
                pairing_method=IntRange(0, 4), passkey_display=Bool),
)
SESSION_TWO = Inst('bumble.smp:Session#two')


def lemma_both_sides(si, sr, i_io, r_io):
    si.decide_pairing_method(sr.auth_req, i_io, r_io)  # on_smp_pairing_response_command
    sr.decide_pairing_method(si.auth_req, i_io, r_io)  # on_smp_pairing_request_command_async
    assert si.pairing_method == sr.pairing_method
    assert si.pairing_method == method_id(S.key_generation_method(i_io, r_io, si.sc, si.mitm, sr.mitm))
    if si.pairing_method == PM.PASSKEY:
        # complementary: exactly one displays and the other inputs, unless both only have keyboards (both input)
        assert not (si.passkey_display and sr.passkey_display)
        assert (si.passkey_display != sr.passkey_display) or (i_io == S.KEYBOARD_ONLY and r_io == S.KEYBOARD_ONLY)
        assert implies(i_io == S.KEYBOARD_ONLY and r_io == S.KEYBOARD_ONLY, not si.passkey_display and not sr.passkey_display)
        assert implies(si.passkey_display, S.can_display(i_io)) and implies(sr.passkey_display, S.can_display(r_io))
        assert implies(not si.passkey_display, S.can_type(i_io)) and implies(not sr.passkey_display, S.can_type(r_io))


lemma(
    'both_sides_same_model',
    lemma_both_sides,
    prop='C13',
    params=dict(si=SESSION_TWO, sr=SESSION_TWO, i_io=IO, r_io=IO),
    # LE link; the Secure Connections flag is the negotiated one (each side: own flag AND the peer's AuthReq SC bit,
    # computed by the request/response handlers before decide_pairing_method is called)
    requires=lambda si, sr: [si.is_initiator, not sr.is_initiator, si.sc == sr.sc,
                             si.connection.transport == PhysicalTransport.LE, sr.connection.transport == PhysicalTransport.LE],
    inline=['Session.decide_pairing_method', 'Session.auth_req', 'AuthReq.from_booleans'],
)


# ---------------------------------------------------------------------------
# L2: honest authentication flag.  Session.on_pairing builds the PairingKeys that Manager.on_pairing stores;
# the recording stub of Manager.on_pairing checks every key it is handed (ghost assert = obligation at the call).
# ---------------------------------------------------------------------------
from bumble import keys as _keys  # noqa: E402

MITM_PROTECTED = (PM.PASSKEY, PM.NUMERIC_COMPARISON, PM.OOB)  # statement: "passkey, numeric comparison, OOB"


def honest(key, method):
    """a stored key is marked authenticated only when a MITM-protected model was actually used"""
    return key is None or not key.authenticated or method in MITM_PROTECTED


def all_keys_honest(keys, method):
    return [
        honest(keys.ltk, method),
        honest(keys.ltk_central, method),
        honest(keys.ltk_peripheral, method),
        honest(keys.irk, method),
        honest(keys.csrk, method),
        honest(keys.link_key, method),
    ]


def mgr_on_pairing(ghost, session, identity_address, keys):
    hon = all_keys_honest(keys, session.pairing_method)
    assert hon[0] and hon[1] and hon[2] and hon[3] and hon[4] and hon[5], 'stored-key-authenticated-only-if-mitm-protected'
    ghost.stored = ghost.stored + 1
    ghost.keys = keys
    ghost.address = identity_address


def mgr_on_pairing_failure(ghost, session, reason):
    ghost.failed = ghost.failed + 1


def fut_done(ghost):
    return ghost.result_done


def fut_set_result(ghost, value):
    assert not ghost.result_done  # asyncio raises InvalidStateError otherwise
    ghost.result_done = True
    ghost.result_ok = True


def fut_set_exception(ghost, error):
    assert not ghost.result_done
    ghost.result_done = True
    ghost.result_ok = False


model('ghost:Future', fields={}, methods={
    'done': Callback('done', effect=fut_done),
    'set_result': Callback('set_result', effect=fut_set_result),
    'set_exception': Callback('set_exception', effect=fut_set_exception),
})
model('ghost:Manager#p', fields={}, methods={
    'on_pairing': Callback('on_pairing', effect=mgr_on_pairing, is_async=True),
    'on_pairing_failure': Callback('on_pairing_failure', effect=mgr_on_pairing_failure),
})
model('bumble.hci:Address#p', fields=dict(address_type=IntRange(0, 3)))
ADDRESS = Inst('bumble.hci:Address#p')
model('ghost:Link#p', fields=dict(transport=OneOf(PhysicalTransport.LE, PhysicalTransport.BR_EDR), peer_address=ADDRESS))
model('bumble.keys:PairingKeys.Key', fields=dict(value=Bytes, authenticated=Bool, ediv=Opt(Int), rand=Opt(Bytes)))
KEY = Inst('bumble.keys:PairingKeys.Key')
model('bumble.keys:PairingKeys', fields=dict(address_type=Opt(Int), ltk=Opt(KEY), ltk_central=Opt(KEY), ltk_peripheral=Opt(KEY), irk=Opt(KEY),
                                            csrk=Opt(KEY), link_key=Opt(KEY), link_key_type=Opt(Int)))
KEYS = Inst('bumble.keys:PairingKeys')
# EDIV / Rand are only copied by on_pairing (never inspected): opaque values compared by identity, so that "None or a
# value" costs no case split here; the reconnection lemma (L4) uses typed ones
model(
    'bumble.smp:Session#p',
    fields=dict(
        manager=Inst('ghost:Manager#p'), connection=Inst('ghost:Link#p'), completed=Bool, pairing_result=OneOf(None, Inst('ghost:Future')),
        peer_bd_addr=OneOf(None, ADDRESS), ctkd_task=OneOf(None, Opaque('task')), pairing_method=IntRange(0, 4), sc=Bool, is_initiator=Bool,
        ltk=Bytes, ltk_ediv=Opaque('ediv'), ltk_rand=Opaque('rand'), peer_ltk=OneOf(None, Bytes), peer_ediv=Opaque('ediv'), peer_rand=Opaque('rand'),
        peer_identity_resolving_key=OneOf(None, Bytes), peer_signature_key=OneOf(None, Bytes), link_key=OneOf(None, Bytes),
    ),
)
SESSION_P = Inst('bumble.smp:Session#p')
P_GHOST = dict(stored=Int, failed=Int, keys=Const(None), address=Const(None), result_done=Bool, result_ok=Bool)


def key_is(key, value, ediv, rand):
    return key is not None and key.value == value and key.ediv is ediv and key.rand is rand


def other_key_is(key, value):
    """irk / csrk / link key: stored iff received, with the received value"""
    return (key is None) if value is None else (key is not None and key.value == value)


def stored_keys_post(k, self, address):
    """what the PairingKeys handed to the store hold"""
    if k is None:
        return [False, False, False, False, False, False]
    legacy_le = not self.sc and self.connection.transport == PhysicalTransport.LE
    peer_value = self.peer_ltk if self.peer_ltk else b''
    hon = all_keys_honest(k, self.pairing_method)
    return [
        hon[0] and hon[1] and hon[2] and hon[3] and hon[4] and hon[5],
        # Secure Connections / CTKD: one LTK; legacy: the key this device distributed and the key the peer distributed,
        # each with its EDIV/Rand, one in each of the two role slots
        implies(not legacy_le, key_is(k.ltk, self.ltk, None, None) and k.ltk_central is None and k.ltk_peripheral is None),
        implies(
            legacy_le,
            k.ltk is None
            and (
                (key_is(k.ltk_central, self.ltk, self.ltk_ediv, self.ltk_rand) and key_is(k.ltk_peripheral, peer_value, self.peer_ediv, self.peer_rand))
                or (key_is(k.ltk_central, peer_value, self.peer_ediv, self.peer_rand) and key_is(k.ltk_peripheral, self.ltk, self.ltk_ediv, self.ltk_rand))
            ),
        ),
        other_key_is(k.irk, self.peer_identity_resolving_key) and other_key_is(k.csrk, self.peer_signature_key) and other_key_is(k.link_key, self.link_key),
        address is (self.peer_bd_addr if self.peer_bd_addr is not None else self.connection.peer_address),
        k.address_type == address.address_type,
    ]


def on_pairing_post(self, old, ghost):
    first = not old.self.completed
    return [
        self.completed,
        # the keys go to the store exactly once per session (a second completion, or a completion after a failure, stores nothing)
        ghost.stored == old.ghost.stored + (1 if first else 0),
        ghost.failed == old.ghost.failed,
        implies(first and self.pairing_result is not None, ghost.result_done and (old.ghost.result_done or ghost.result_ok)),
        implies(not first, ghost.keys is old.ghost.keys),
    ] + [implies(first, c) for c in stored_keys_post(ghost.keys, self, ghost.address)]


contract(
    'bumble.smp:Session.on_pairing',
    prop='C13',
    params=dict(self=SESSION_P),
    ghost=P_GHOST,
    ensures=on_pairing_post,
    ensures_names=['completed', 'stored-once', 'no-failure-report', 'initiator-future-resolved', 'nothing-stored-again',
                   'authenticated-only-if-mitm-protected', 'sc-single-ltk', 'legacy-own-and-peer-ltk', 'other-keys-iff-received',
                   'filed-under-identity-address', 'address-type'],
    modifies=['self.completed', 'self.ctkd_task', 'ghost.stored', 'ghost.keys', 'ghost.address', 'ghost.result_done', 'ghost.result_ok'],
    inline=['PairingKeys.__init__', 'PairingKeys.Key.__init__'],
)
