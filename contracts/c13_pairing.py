"""C13 -- pairing ends the same way on both sides, with honest authentication.

L1 (this part): the association model.  Session.decide_pairing_method, reading the real Session.PAIRING_METHODS
by reflection, against the oracle of spec/smp.py (Core Vol 3 Part H 2.3.5.1, Tables 2.6-2.8), and a ghost driver
that runs it on an initiator and a responder session fed with the values the two exchange.
"""
from bumble import smp
from bumble.core import PhysicalTransport
from pyvc.contracts import (Any, Bool, Bytes, Callback, Const, Inst, Int, IntRange, ListOf, OneOf, Opaque, Opt, Str, contract, iff,
                            implies, lemma, model)
from pyvc.ext_c13 import stub_class
from spec import smp as S

ENVIRONMENT = [
    'two-party liveness ("either both complete or both fail; pairing never hangs") is a relation between two '
    'asynchronous state machines, user delegates and timers: outside function contracts, NOT claimed',
    'L1: the IO capability octets are the five defined values 0..4 (an undefined value reaches PAIRING_METHODS[...] and raises KeyError); '
    'the OOB branch of Tables 2.6/2.7 is decided in the request/response handlers (not under contract), decide_pairing_method is the IO-capability branch; '
    'both-sides lemma: the negotiated Secure Connections flag is the same on both sides and each AuthReq octet carries the sender\'s MITM flag '
    '(what Session.auth_req produces, contract); the request/response handlers that pass these values are not under contract',
    'L2/on_pairing: A1 -- the awaits inside on_pairing (ctkd_task, Manager.on_pairing) are atomic with respect to the session fields; Manager.on_pairing '
    '(key store update, Device.on_pairing) is a recorded call; requires: pairing_result exists exactly for the initiator (Session.__init__) and ctkd_task '
    'only on BR/EDR (distribute_keys) -- construction facts, not proved',
    'L4: KeyStore.get(str(peer address)) yields the entry filed for this peer at pairing (address resolution / identity address bookkeeping is environment); '
    'Device.send_async_command, lookup_connection, the event watcher and the pending future of encrypt are recorded stubs; no pairing session exists on the '
    'later connection (Manager.get_long_term_key yields None); the two sessions of one pairing hold the same Secure Connections LTK (f5 of the same inputs: '
    'C14 + the exchange) and each legacy session received exactly the LTK/EDIV/Rand the other distributed (the transport, C05/C18); '
    'reconnection_keys_agree_code runs on sessions without IRK/CSRK/link key/identity address',
    'the controller\'s part (LL_ENC_REQ carrying Rand/EDIV, LE Long Term Key Request event, Host.on_hci_le_long_term_key_request_event calling the provider) is environment',
]

PM = smp.PairingMethod
IO = OneOf(0, 1, 2, 3, 4)  # Vol 3 Part H Table 3.4: the five defined IO capabilities


def method_id(spec_method):
    """bumble's PairingMethod member for a key generation method of the specification"""
    if spec_method == S.JUST_WORKS:
        return PM.JUST_WORKS
    if spec_method == S.PASSKEY_ENTRY:
        return PM.PASSKEY
    if spec_method == S.NUMERIC_COMPARISON:
        return PM.NUMERIC_COMPARISON
    return PM.OOB


# ---------------------------------------------------------------------------
# L1a: decide_pairing_method == Tables 2.6/2.7 (MITM rule) + Table 2.8, with the display/input role of this side
# ---------------------------------------------------------------------------
model('ghost:Link', fields=dict(transport=OneOf(PhysicalTransport.LE, PhysicalTransport.BR_EDR)))
model(
    'bumble.smp:Session#dpm',
    fields=dict(connection=Inst('ghost:Link'), mitm=Bool, sc=Bool, is_initiator=Bool, pairing_method=IntRange(0, 4), passkey_display=Bool),
)
SESSION_DPM = Inst('bumble.smp:Session#dpm')


def peer_mitm(auth_req):
    """the MITM flag of the peer as received in its Pairing Request / Response (Figure 3.3, bit 2)"""
    return (auth_req // S.AUTHREQ_MITM) % 2 == 1


def dpm_post(self, auth_req, initiator_io_capability, responder_io_capability, old):
    # on LE: who is who -- the local flag belongs to the local role, the received one to the peer
    i_mitm = self.mitm if self.is_initiator else peer_mitm(auth_req)
    r_mitm = peer_mitm(auth_req) if self.is_initiator else self.mitm
    method = S.key_generation_method(initiator_io_capability, responder_io_capability, self.sc, i_mitm, r_mitm)
    roles = S.passkey_roles(initiator_io_capability, responder_io_capability, self.sc)
    le = self.connection.transport == PhysicalTransport.LE
    return [
        implies(le, self.pairing_method == method_id(method)),
        # Passkey Entry: this side displays iff the table says its role displays; otherwise it inputs
        implies(le and method == S.PASSKEY_ENTRY, self.passkey_display == (roles[0] if self.is_initiator else roles[1])),
        implies(le and method != S.PASSKEY_ENTRY, self.passkey_display == old.self.passkey_display),
        # SMP over BR/EDR (cross-transport key derivation): no association model is run at all
        implies(not le, self.pairing_method == PM.CTKD_OVER_CLASSIC and self.passkey_display == old.self.passkey_display),
    ]


contract(
    'bumble.smp:Session.decide_pairing_method',
    prop='C13',
    params=dict(self=SESSION_DPM, auth_req=IntRange(0, 255), initiator_io_capability=IO, responder_io_capability=IO),
    ensures=dpm_post,
    ensures_names=['method-is-table-2.8', 'passkey-role-is-table-2.8', 'no-role-without-passkey', 'br-edr-is-ctkd'],
    modifies=['self.pairing_method', 'self.passkey_display'],
)


# ---------------------------------------------------------------------------
# L1b: the oracle is self-consistent -- the transcription of Table 2.8 equals its structural reading, the
# roles of a Passkey Entry cell are complementary (never both display; both input only for two bare keyboards),
# and an authenticated method is only chosen when somebody asked for MITM protection
# ---------------------------------------------------------------------------
def lemma_table_sane(i_io, r_io, sc, i_mitm, r_mitm):
    cell = S.table_2_8(i_io, r_io, sc)
    assert cell == S.table_2_8_structural(i_io, r_io, sc)
    i_disp, r_disp = S.passkey_roles(i_io, r_io, sc)
    assert not (i_disp and r_disp)
    if cell[0] == S.PASSKEY_ENTRY:
        assert (i_disp != r_disp) or (i_io == S.KEYBOARD_ONLY and r_io == S.KEYBOARD_ONLY)
        # whoever displays can display, whoever inputs has a keyboard
        assert implies(i_disp, S.can_display(i_io) and S.can_type(r_io))
        assert implies(r_disp, S.can_display(r_io) and S.can_type(i_io))
        assert implies(not i_disp and not r_disp, S.can_type(i_io) and S.can_type(r_io))
    else:
        assert not i_disp and not r_disp
    if cell[0] == S.NUMERIC_COMPARISON:
        assert sc  # Numeric Comparison exists in LE Secure Connections only
    m = S.key_generation_method(i_io, r_io, sc, i_mitm, r_mitm)
    assert implies(m in S.AUTHENTICATED_METHODS, i_mitm or r_mitm)


lemma('table_2_8_sane', lemma_table_sane, prop='C13', params=dict(i_io=IO, r_io=IO, sc=Bool, i_mitm=Bool, r_mitm=Bool))


# ---------------------------------------------------------------------------
# L1c: both sides select the same model, with complementary roles.  Ghost driver: the initiator's session and
# the responder's session each run the real decide_pairing_method on what the two exchange -- the initiator
# on (AuthReq of the Pairing Response, own IO capability, IO capability of the response), the responder on
# (AuthReq of the Pairing Request, IO capability of the request, own IO capability).  The AuthReq octets are any
# octets whose MITM bit is the sender's flag: that is what the real Session.auth_req property produces (contract
# below); the other bits are arbitrary.
# ---------------------------------------------------------------------------
def lemma_both_sides(si, sr, i_io, r_io, req_auth, rsp_auth):
    si.decide_pairing_method(rsp_auth, i_io, r_io)  # on_smp_pairing_response_command
    sr.decide_pairing_method(req_auth, i_io, r_io)  # on_smp_pairing_request_command_async
    assert si.pairing_method == sr.pairing_method, 'same-method'
    assert si.pairing_method == method_id(S.key_generation_method(i_io, r_io, si.sc, si.mitm, sr.mitm)), 'method-of-the-specification'
    if si.pairing_method == PM.PASSKEY:
        # complementary: exactly one displays and the other inputs, unless both only have keyboards (both input)
        assert not (si.passkey_display and sr.passkey_display), 'never-both-display'
        assert (si.passkey_display != sr.passkey_display) or (i_io == S.KEYBOARD_ONLY and r_io == S.KEYBOARD_ONLY), 'complementary-roles'
        assert implies(i_io == S.KEYBOARD_ONLY and r_io == S.KEYBOARD_ONLY, not si.passkey_display and not sr.passkey_display), 'two-keyboards-both-input'
        assert implies(si.passkey_display, S.can_display(i_io)) and implies(sr.passkey_display, S.can_display(r_io)), 'who-displays-can-display'
        assert implies(not si.passkey_display, S.can_type(i_io)) and implies(not sr.passkey_display, S.can_type(r_io)), 'who-inputs-has-a-keyboard'


lemma(
    'both_sides_same_model',
    lemma_both_sides,
    prop='C13',
    params=dict(si=SESSION_DPM, sr=SESSION_DPM, i_io=IO, r_io=IO, req_auth=IntRange(0, 255), rsp_auth=IntRange(0, 255)),
    # LE link; the Secure Connections flag is the negotiated one (each side: own flag AND the peer's AuthReq SC bit,
    # computed by the request/response handlers before decide_pairing_method is called)
    requires=lambda si, sr, req_auth, rsp_auth: [
        si.is_initiator, not sr.is_initiator, si.sc == sr.sc,
        si.connection.transport == PhysicalTransport.LE, sr.connection.transport == PhysicalTransport.LE,
        peer_mitm(req_auth) == si.mitm, peer_mitm(rsp_auth) == sr.mitm,
    ],
    inline=['Session.decide_pairing_method'],
)

model('bumble.smp:Session#auth', fields=dict(bonding=Bool, sc=Bool, mitm=Bool, keypress=Bool, ct2=Bool))
contract(
    'bumble.smp:Session.auth_req',
    prop='C13',
    params=dict(self=Inst('bumble.smp:Session#auth')),
    # Vol 3 Part H Figure 3.3: the AuthReq octet carries exactly the session's flags
    ensures=lambda self, res: [
        peer_mitm(res) == self.mitm,
        ((res // S.AUTHREQ_SC) % 2 == 1) == self.sc,
        (res % 4 == 1) == self.bonding and (res % 4 == 0) == (not self.bonding),
        ((res // S.AUTHREQ_KEYPRESS) % 2 == 1) == self.keypress and ((res // S.AUTHREQ_CT2) % 2 == 1) == self.ct2,
        0 <= res and res < 64,
    ],
    ensures_names=['mitm-bit', 'sc-bit', 'bonding-flags', 'keypress-ct2-bits', 'reserved-bits-clear'],
    modifies=[],
    inline=['AuthReq.from_booleans'],
    returns=Int,
)


# ---------------------------------------------------------------------------
# L2: honest authentication flag.  Session.on_pairing builds the PairingKeys that Manager.on_pairing stores;
# the recording stub of Manager.on_pairing checks every key it is handed (ghost assert = obligation at the call).
# ---------------------------------------------------------------------------
from bumble import keys as _keys  # noqa: E402

MITM_PROTECTED = (PM.PASSKEY, PM.NUMERIC_COMPARISON, PM.OOB)  # statement: "passkey, numeric comparison, OOB"


def honest(key, method):
    """a stored key is marked authenticated only when a MITM-protected model was actually used"""
    return key is None or not key.authenticated or method in MITM_PROTECTED


def all_keys_honest(keys, method):
    return [
        honest(keys.ltk, method),
        honest(keys.ltk_central, method),
        honest(keys.ltk_peripheral, method),
        honest(keys.irk, method),
        honest(keys.csrk, method),
        honest(keys.link_key, method),
    ]


def mgr_on_pairing(ghost, session, identity_address, keys):
    hon = all_keys_honest(keys, session.pairing_method)
    assert hon[0] and hon[1] and hon[2] and hon[3] and hon[4] and hon[5], 'stored-key-authenticated-only-if-mitm-protected'
    ghost.stored = ghost.stored + 1
    ghost.keys = keys
    ghost.address = identity_address


def mgr_on_pairing_failure(ghost, session, reason):
    ghost.failed = ghost.failed + 1


def fut_done(ghost):
    return ghost.result_done


def fut_set_result(ghost, value):
    assert not ghost.result_done  # asyncio raises InvalidStateError otherwise
    ghost.result_done = True
    ghost.result_ok = True


def fut_set_exception(ghost, error):
    assert not ghost.result_done
    ghost.result_done = True
    ghost.result_ok = False


model('ghost:Future', fields={}, methods={
    'done': Callback('done', effect=fut_done),
    'set_result': Callback('set_result', effect=fut_set_result),
    'set_exception': Callback('set_exception', effect=fut_set_exception),
})
model('ghost:Manager#p', fields={}, methods={
    'on_pairing': Callback('on_pairing', effect=mgr_on_pairing, is_async=True),
    'on_pairing_failure': Callback('on_pairing_failure', effect=mgr_on_pairing_failure),
})
model('bumble.hci:Address#p', fields=dict(address_type=IntRange(0, 3)))
ADDRESS = Inst('bumble.hci:Address#p')
model('ghost:Link#p', fields=dict(transport=OneOf(PhysicalTransport.LE, PhysicalTransport.BR_EDR), peer_address=ADDRESS))
model('bumble.keys:PairingKeys.Key', fields=dict(value=Bytes, authenticated=Bool, ediv=OneOf(None, Int), rand=OneOf(None, Bytes)))
KEY = Inst('bumble.keys:PairingKeys.Key')
# OneOf(None, T) fields of an instance are decided lazily (on first read): no case split for fields a path never reads
NOKEY = OneOf(None, KEY)
model('bumble.keys:PairingKeys', fields=dict(address_type=OneOf(None, Int), ltk=NOKEY, ltk_central=NOKEY, ltk_peripheral=NOKEY, irk=NOKEY, csrk=NOKEY,
                                            link_key=NOKEY, link_key_type=OneOf(None, Int)))
KEYS = Inst('bumble.keys:PairingKeys')
# EDIV / Rand are only copied by on_pairing (never inspected): opaque values compared by identity, so that "None or a
# value" costs no case split here; the reconnection lemma (L4) uses typed ones
model(
    'bumble.smp:Session#p',
    fields=dict(
        manager=Inst('ghost:Manager#p'), connection=Inst('ghost:Link#p'), completed=Bool, pairing_result=OneOf(None, Inst('ghost:Future')),
        peer_bd_addr=OneOf(None, ADDRESS), ctkd_task=OneOf(None, Opaque('task')), pairing_method=IntRange(0, 4), sc=Bool, is_initiator=Bool,
        ltk=Bytes, ltk_ediv=Opaque('ediv'), ltk_rand=Opaque('rand'), peer_ltk=OneOf(None, Bytes), peer_ediv=Opaque('ediv'), peer_rand=Opaque('rand'),
        peer_identity_resolving_key=OneOf(None, Bytes), peer_signature_key=OneOf(None, Bytes), link_key=OneOf(None, Bytes),
        initiator_key_distribution=IntRange(0, 15), responder_key_distribution=IntRange(0, 15),
    ),
)
SESSION_P = Inst('bumble.smp:Session#p')
P_GHOST = dict(stored=Int, failed=Int, keys=Const(None), address=Const(None), result_done=Bool, result_ok=Bool)


def key_is(key, value, ediv, rand):
    return key is not None and key.value == value and key.ediv == ediv and key.rand == rand


def other_key_is(key, value):
    """irk / csrk / link key: stored iff received, with the received value"""
    return (key is None) if value is None else (key is not None and key.value == value)


def distributes_enc_key(session):
    """this device's LTK, EDIV and Rand were sent to the peer (legacy pairing): EncKey is set in the negotiated
    key distribution field of its role (Vol 3 Part H 3.6.1)"""
    mask = session.initiator_key_distribution if session.is_initiator else session.responder_key_distribution
    return mask % 2 == 1


def stored_keys_post(k, self, address):
    """what the PairingKeys handed to the store hold.  The two legacy slots are named after the role in which the
    *owner of the store* uses them (that is how Device.encrypt and Device.get_long_term_key read them): `ltk_central`
    is the key it encrypts with as Central = the LTK distributed by the peer, with the peer's EDIV/Rand;
    `ltk_peripheral` is the key it answers with as Peripheral = the LTK it distributed itself (Vol 3 Part H 2.4.2.3:
    the distributing device uses its LTK when it is the responding device).  A key that was not exchanged is not there."""
    if k is None:
        return [False, False, False, False, False, False, False]
    hon = all_keys_honest(k, self.pairing_method)
    return [hon[0] and hon[1] and hon[2] and hon[3] and hon[4] and hon[5]] + ltk_slots_post(k, self) + [
        other_key_is(k.irk, self.peer_identity_resolving_key) and other_key_is(k.csrk, self.peer_signature_key) and other_key_is(k.link_key, self.link_key),
        address is (self.peer_bd_addr if self.peer_bd_addr is not None else self.connection.peer_address),
        k.address_type == address.address_type,
    ]


def ltk_slots_post(k, self):
    """the long term keys among the stored keys"""
    legacy_le = not self.sc and self.connection.transport == PhysicalTransport.LE
    return [
        # Secure Connections / CTKD: one LTK
        implies(not legacy_le, key_is(k.ltk, self.ltk, None, None) and k.ltk_central is None and k.ltk_peripheral is None),
        implies(legacy_le, k.ltk is None and ((k.ltk_central is None) if self.peer_ltk is None else key_is(k.ltk_central, self.peer_ltk, self.peer_ediv, self.peer_rand))),
        implies(legacy_le, key_is(k.ltk_peripheral, self.ltk, self.ltk_ediv, self.ltk_rand) if distributes_enc_key(self) else (k.ltk_peripheral is None)),
    ]


STORED_NAMES = ['authenticated-only-if-mitm-protected', 'sc-single-ltk', 'legacy-central-slot-holds-peer-ltk', 'legacy-peripheral-slot-holds-own-ltk',
                'other-keys-iff-received', 'filed-under-identity-address', 'address-type']


def on_pairing_post(self, old, ghost):
    first = not old.self.completed
    return [
        self.completed,
        # the keys go to the store exactly once per session (a second completion, or a completion after a failure, stores nothing)
        ghost.stored == old.ghost.stored + (1 if first else 0),
        ghost.failed == old.ghost.failed,
        implies(first and self.pairing_result is not None, ghost.result_done and (old.ghost.result_done or ghost.result_ok)),
        implies(not first, ghost.keys is old.ghost.keys),
    ] + [implies(first, c) for c in stored_keys_post(ghost.keys, self, ghost.address)]


contract(
    'bumble.smp:Session.on_pairing',
    prop='C13',
    params=dict(self=SESSION_P),
    ghost=P_GHOST,
    # two facts about how a Session is built, used to keep the case split small (not proved here, see NOTES):
    # __init__ creates pairing_result exactly for the initiator; distribute_keys creates ctkd_task only on BR/EDR
    requires=lambda self: [(self.pairing_result is not None) == self.is_initiator,
                           self.ctkd_task is None or self.connection.transport == PhysicalTransport.BR_EDR],
    ensures=on_pairing_post,
    ensures_names=['completed', 'stored-once', 'no-failure-report', 'initiator-future-resolved', 'nothing-stored-again'] + STORED_NAMES,
    modifies=['self.completed', 'self.ctkd_task', 'ghost.stored', 'ghost.keys', 'ghost.address', 'ghost.result_done', 'ghost.result_ok'],
    inline=['PairingKeys.__init__', 'PairingKeys.Key.__init__'],
)


# ---------------------------------------------------------------------------
# L4: key agreement on reconnection.  Device.encrypt (central: which key goes into HCI_LE_Enable_Encryption) and
# Device.get_long_term_key (peripheral: which key answers the controller's LE Long Term Key Request)
# ---------------------------------------------------------------------------
import asyncio  # noqa: E402
import contextlib  # noqa: E402

from bumble import core as _core, device as _device, hci as _hci, utils as _utils  # noqa: E402


CMD_LE_ENABLE_ENCRYPTION = 1  # which HCI command was sent last
CMD_SET_CONNECTION_ENCRYPTION = 2


def store_get(ghost, name):
    """KeyStore.get(str(peer address)): the entry filed for this peer at pairing, or nothing"""
    return ghost.entry


def dev_send_async_command(ghost, command):
    """Device.send_async_command: records the HCI command handed to the controller"""
    ghost.n_sent = ghost.n_sent + 1
    if isinstance(command, _hci.HCI_LE_Enable_Encryption_Command):
        ghost.last_sent = CMD_LE_ENABLE_ENCRYPTION
        ghost.cmd_handle = command.connection_handle
        ghost.cmd_rand = command.random_number
        ghost.cmd_ediv = command.encrypted_diversifier
        ghost.cmd_key = command.long_term_key
    else:
        ghost.last_sent = CMD_SET_CONNECTION_ENCRYPTION


def smp_get_ltk(ghost, connection, rand, ediv):
    """Manager.get_long_term_key: the key of a pairing session in progress on this connection; on a later
    connection there is none"""
    return ghost.session_key


def conn_cancel_on_disconnection(ghost, awaitable):
    return None


model('ghost:KeyStore', fields={}, methods={'get': Callback('get', effect=store_get, is_async=True)})
model('ghost:SmpManager', fields={}, methods={'get_long_term_key': Callback('get_long_term_key', effect=smp_get_ltk)})
model(
    'bumble.device:Connection#e',
    fields=dict(handle=IntRange(0, 0xEFF), transport=OneOf(PhysicalTransport.LE, PhysicalTransport.BR_EDR), role=OneOf(_hci.Role.CENTRAL, _hci.Role.PERIPHERAL),
                peer_address=Opaque('address')),
    methods={'cancel_on_disconnection': Callback('cancel_on_disconnection', effect=conn_cancel_on_disconnection, is_async=True)},
)
CONN_E = Inst('bumble.device:Connection#e')


def dev_lookup_connection(ghost, handle):
    """Device.lookup_connection: the connection with that handle (ghost.conn), or None"""
    assert ghost.conn is None or ghost.conn.handle == handle, 'lookup-by-own-handle'
    return ghost.conn


model(
    'bumble.device:Device#e',
    fields=dict(keystore=OneOf(None, Inst('ghost:KeyStore')), smp_manager=Inst('ghost:SmpManager')),
    methods={
        'send_async_command': Callback('send_async_command', effect=dev_send_async_command, is_async=True),
        'lookup_connection': Callback('lookup_connection', effect=dev_lookup_connection),
    },
)
DEVICE_E = Inst('bumble.device:Device#e')
E_GHOST = dict(entry=OneOf(None, KEYS), cmd_handle=Int, cmd_rand=Bytes, cmd_ediv=Int, cmd_key=Bytes, n_sent=Int, last_sent=Int, session_key=OneOf(None, Bytes),
               conn=OneOf(None, CONN_E))
model('ghost:Loop', fields={}, methods={'create_future': Callback('create_future', effect=lambda ghost: 'future')})
model('ghost:Watcher', fields={}, methods={'on': Callback('on', effect=lambda ghost, emitter, event: (lambda handler: handler))})
ENCRYPT_STUBS = {
    asyncio.get_running_loop: Callback('get_running_loop', returns=Inst('ghost:Loop')),
}
stub_class(_utils.EventWatcher, 'ghost:Watcher')


def central_key(keys):
    """the (key, Rand, EDIV) a device holding `keys` for the peer encrypts with as Central, or None when it has none:
    the Secure Connections LTK (Rand = EDIV = 0, Vol 3 Part H 2.4.4.1 / Vol 6 Part B 5.1.3) or else the legacy
    LTK it keeps for the Central role with the Rand/EDIV that identify it"""
    if keys.ltk is not None:
        return (keys.ltk.value, bytes(8), 0)
    if keys.ltk_central is not None:
        return (keys.ltk_central.value, keys.ltk_central.rand if keys.ltk_central.rand else b'', keys.ltk_central.ediv if keys.ltk_central.ediv else 0)
    return None


def command_is(ghost, want):
    return want is not None and ghost.cmd_key == want[0] and ghost.cmd_rand == want[1] and ghost.cmd_ediv == want[2]


def encrypt_post(self, connection, enable, old, ghost):
    le = connection.transport == PhysicalTransport.LE
    want = central_key(ghost.entry) if le and ghost.entry is not None else None
    return [
        ghost.n_sent == old.ghost.n_sent + 1,
        ghost.last_sent == (CMD_LE_ENABLE_ENCRYPTION if le else CMD_SET_CONNECTION_ENCRYPTION),
        implies(le, connection.role == _hci.Role.CENTRAL and ghost.cmd_handle == connection.handle),
        implies(le, command_is(ghost, want)),
    ]


contract(
    'bumble.device:Device.encrypt',
    prop='C13',
    params=dict(self=DEVICE_E, connection=CONN_E, enable=Bool),
    ghost=E_GHOST,
    ensures=encrypt_post,
    ensures_names=['one-command', 'which-command', 'only-as-central', 'key-rand-ediv-from-the-store'],
    raises={
        _core.InvalidArgumentError: lambda connection, enable, old, ghost: [not enable and connection.transport == PhysicalTransport.LE, ghost.n_sent == old.ghost.n_sent],
        # nothing to encrypt with: no request is made
        _core.InvalidOperationError: lambda self, connection, old, ghost: [
            connection.transport == PhysicalTransport.LE and (self.keystore is None or ghost.entry is None or central_key(ghost.entry) is None),
            ghost.n_sent == old.ghost.n_sent,
        ],
        _core.InvalidStateError: lambda connection, old, ghost: [connection.transport == PhysicalTransport.LE and connection.role != _hci.Role.CENTRAL, ghost.n_sent == old.ghost.n_sent],
    },
    modifies=['ghost.cmd_handle', 'ghost.cmd_rand', 'ghost.cmd_ediv', 'ghost.cmd_key', 'ghost.n_sent', 'ghost.last_sent'],
    stubs=ENCRYPT_STUBS,
    with_enter=lambda path, cm, item=None: cm,
    with_exit=lambda path, cm: None,
)


def peripheral_key(keys, role):
    """the key a device holding `keys` for the peer answers the controller's Long Term Key Request with: the Secure
    Connections LTK, or else the legacy LTK it keeps for the role it has on this connection (the request only ever
    reaches the Peripheral, Vol 6 Part B 5.1.3.1)"""
    if keys.ltk is not None:
        return keys.ltk.value
    if role == _hci.Role.CENTRAL and keys.ltk_central is not None:
        return keys.ltk_central.value
    if role == _hci.Role.PERIPHERAL and keys.ltk_peripheral is not None:
        return keys.ltk_peripheral.value
    return None


def get_ltk_post(self, connection_handle, rand, ediv, res, ghost):
    conn = ghost.conn
    if conn is None:
        return [res is None]
    if ghost.session_key is not None:
        return [res is not None and res == ghost.session_key]  # a pairing session on this connection answers first
    if self.keystore is None or ghost.entry is None:
        return [res is None]
    want = peripheral_key(ghost.entry, conn.role)
    return [(res is None) if want is None else (res is not None and res == want)]


contract(
    'bumble.device:Device.get_long_term_key',
    prop='C13',
    params=dict(self=DEVICE_E, connection_handle=IntRange(0, 0xEFF), rand=Bytes, ediv=Int),
    ghost=E_GHOST,
    requires=lambda connection_handle, ghost: [ghost.conn is None or ghost.conn.handle == connection_handle],
    ensures=get_ltk_post,
    ensures_names=['answer-from-session-or-store'],
    returns=Opt(Bytes),
    modifies=[],
)


# ---------------------------------------------------------------------------
# L4 lemmas: after pairing, on a later connection, the key the Peripheral's store yields for the Central's
# (EDIV, Rand) is the key the Central encrypts with -- in the same roles as at pairing time and in swapped roles,
# legacy and Secure Connections, for every negotiated key distribution.
# ---------------------------------------------------------------------------
def ctl_select(ghost, keys, conn):
    """ghost control: from now on the key-store stub yields `keys` and lookup_connection yields `conn`"""
    ghost.entry = keys
    ghost.conn = conn
    ghost.session_key = None  # the pairing sessions ended with the connection they ran on


def ctl_request(ghost):
    return (ghost.cmd_key, ghost.cmd_rand, ghost.cmd_ediv)


model('ghost:Control', fields={}, methods={'select': Callback('select', effect=ctl_select), 'request': Callback('request', effect=ctl_request)})
CONTROL = Inst('ghost:Control')
# typed view of a session as on_pairing leaves it: data only (nothing of it runs in reconnection_keys_agree)
model(
    'bumble.smp:Session#r',
    fields=dict(
        manager=Inst('ghost:Manager#p'), connection=Inst('ghost:Link#p'), completed=Bool, pairing_result=Const(None),
        peer_bd_addr=OneOf(None, ADDRESS), ctkd_task=Const(None), pairing_method=IntRange(0, 4), sc=Bool, is_initiator=Bool,
        # peer_ediv / peer_rand are read only when peer_ltk is there (they arrive together: Master Identification is expected iff
        # Encryption Information is, compute_peer_expected_distributions)
        ltk=Bytes, ltk_ediv=Int, ltk_rand=Bytes, peer_ltk=OneOf(None, Bytes), peer_ediv=Int, peer_rand=Bytes,
        peer_identity_resolving_key=OneOf(None, Bytes), peer_signature_key=OneOf(None, Bytes), link_key=OneOf(None, Bytes),
        initiator_key_distribution=IntRange(0, 15), responder_key_distribution=IntRange(0, 15),
    ),
)
SESSION_R = Inst('bumble.smp:Session#r')


def received_is_distributed(receiver, sender):
    """what `receiver` got in Encryption Information / Master Identification is what `sender` distributed -- iff the
    negotiated key distribution says `sender` distributes its EncKey (the key distribution phase completes only when
    every expected command has arrived: check_key_distribution)"""
    if distributes_enc_key(sender):
        return (receiver.peer_ltk is not None
                and receiver.peer_ltk == sender.ltk and receiver.peer_ediv == sender.ltk_ediv and receiver.peer_rand == sender.ltk_rand)
    return receiver.peer_ltk is None


def same_pairing(si, sr):
    """the two sessions of one pairing: roles, negotiated flags and key distribution, the Secure Connections LTK both
    derive (f5 of the same inputs: crypto, C14), and the legacy keys each received from the other"""
    return [
        si.is_initiator and not sr.is_initiator,
        si.connection.transport == PhysicalTransport.LE and sr.connection.transport == PhysicalTransport.LE,
        si.sc == sr.sc,
        si.initiator_key_distribution == sr.initiator_key_distribution and si.responder_key_distribution == sr.responder_key_distribution,
        implies(si.sc, si.ltk == sr.ltk),
        implies(not si.sc, received_is_distributed(si, sr) and received_is_distributed(sr, si)),
        len(si.ltk) == 16 and len(sr.ltk) == 16,
    ]


def reconnect_and_compare(ctl, central_keys, peripheral_keys, cdev, pdev, cconn, pconn):
    """the Central encrypts the new connection from its store; the Peripheral's long-term-key provider is asked for
    the Rand/EDIV of that request"""
    ctl.select(central_keys, cconn)
    try:
        cdev.encrypt(cconn, True)
    except _core.InvalidOperationError:
        return  # the Central holds no key for this peer: no encryption request is made (pairing is needed again)
    key, rand, ediv = ctl.request()
    ctl.select(peripheral_keys, pconn)
    answer = pdev.get_long_term_key(pconn.handle, rand, ediv)
    assert answer is not None, 'peripheral-has-a-key-for-the-request'
    assert answer == key, 'peripheral-key-is-central-key'


def store_after_pairing(s, auth):
    """the PairingKeys a store holds after Session.on_pairing, as far as long term keys go: ltk_slots_post (a
    postcondition of on_pairing) determines every field of them except the `authenticated` flags, which are
    arbitrary here"""
    k = _keys.PairingKeys()
    if s.sc:
        k.ltk = _keys.PairingKeys.Key(value=s.ltk, authenticated=auth)
    else:
        if s.peer_ltk is not None:
            k.ltk_central = _keys.PairingKeys.Key(value=s.peer_ltk, authenticated=auth, ediv=s.peer_ediv, rand=s.peer_rand)
        if distributes_enc_key(s):
            k.ltk_peripheral = _keys.PairingKeys.Key(value=s.ltk, authenticated=auth, ediv=s.ltk_ediv, rand=s.ltk_rand)
    return k


def lemma_reconnection(ctl, si, sr, auth_i, auth_r, cdev, pdev, cconn, pconn, swapped):
    ki = store_after_pairing(si, auth_i)
    kr = store_after_pairing(sr, auth_r)
    post = ltk_slots_post(ki, si) + ltk_slots_post(kr, sr)
    assert post[0] and post[1] and post[2] and post[3] and post[4] and post[5], 'stores-are-as-on_pairing-leaves-them'
    if swapped:
        reconnect_and_compare(ctl, kr, ki, cdev, pdev, cconn, pconn)
    else:
        reconnect_and_compare(ctl, ki, kr, cdev, pdev, cconn, pconn)


RECONNECT_PARAMS = dict(cdev=DEVICE_E, pdev=DEVICE_E, cconn=CONN_E, pconn=CONN_E, swapped=Bool)


def reconnection(cdev, pdev, cconn, pconn):
    """a later LE connection between the two devices, each with its key store"""
    return [
        cdev.keystore is not None and pdev.keystore is not None,
        cconn.transport == PhysicalTransport.LE and pconn.transport == PhysicalTransport.LE,
        cconn.role == _hci.Role.CENTRAL and pconn.role == _hci.Role.PERIPHERAL,
    ]


lemma(
    'reconnection_keys_agree',
    lemma_reconnection,
    prop='C13',
    params=dict(ctl=CONTROL, si=SESSION_R, sr=SESSION_R, auth_i=Bool, auth_r=Bool, **RECONNECT_PARAMS),
    ghost=dict(E_GHOST, entry=Const(None), conn=Const(None), session_key=Const(None)),
    requires=lambda si, sr, cdev, pdev, cconn, pconn: same_pairing(si, sr) + reconnection(cdev, pdev, cconn, pconn),
    inline=['PairingKeys.__init__', 'PairingKeys.Key.__init__'],
    uses=['bumble.device:Device.encrypt', 'bumble.device:Device.get_long_term_key'],
)


# the same, on the code itself: the real on_pairing of both sessions fills the two stores, then the real
# Device.encrypt / Device.get_long_term_key read them (everything inlined, no contract in between).  To keep the number
# of paths small the sessions carry no IRK / CSRK / link key / identity address (on_pairing stores those after, and
# independently of, the long term keys: contract of Session.on_pairing above, which covers all combinations).
def ctl_stored(ghost):
    return ghost.keys


def mgr_store(ghost, session, identity_address, keys):
    """Manager.on_pairing: files the keys in the store (recorded only; the checks on them are in the contract of on_pairing)"""
    ghost.keys = keys


model('ghost:Control#c', fields={}, methods={'select': Callback('select', effect=ctl_select), 'request': Callback('request', effect=ctl_request),
                                             'stored': Callback('stored', effect=ctl_stored)})
model('ghost:Manager#c', fields={}, methods={'on_pairing': Callback('on_pairing', effect=mgr_store, is_async=True)})
model(
    'bumble.smp:Session#c',
    fields=dict(
        manager=Inst('ghost:Manager#c'), connection=Inst('ghost:Link#p'), completed=Const(False), pairing_result=Const(None),
        peer_bd_addr=Const(None), ctkd_task=Const(None), pairing_method=IntRange(0, 4), sc=Bool, is_initiator=Bool,
        ltk=Bytes, ltk_ediv=Int, ltk_rand=Bytes, peer_ltk=OneOf(None, Bytes), peer_ediv=Int, peer_rand=Bytes,
        peer_identity_resolving_key=Const(None), peer_signature_key=Const(None), link_key=Const(None),
        initiator_key_distribution=IntRange(0, 15), responder_key_distribution=IntRange(0, 15),
    ),
)
SESSION_C = Inst('bumble.smp:Session#c')


def lemma_reconnection_code(ctl, si, sr, cdev, pdev, cconn, pconn, swapped):
    si.on_pairing()
    ki = ctl.stored()
    sr.on_pairing()
    kr = ctl.stored()
    if swapped:
        reconnect_and_compare(ctl, kr, ki, cdev, pdev, cconn, pconn)
    else:
        reconnect_and_compare(ctl, ki, kr, cdev, pdev, cconn, pconn)


lemma(
    'reconnection_keys_agree_code',
    lemma_reconnection_code,
    prop='C13',
    params=dict(ctl=Inst('ghost:Control#c'), si=SESSION_C, sr=SESSION_C, **RECONNECT_PARAMS),
    ghost=dict(E_GHOST, entry=Const(None), conn=Const(None), session_key=Const(None), keys=Const(None)),
    requires=lambda si, sr, cdev, pdev, cconn, pconn: same_pairing(si, sr) + reconnection(cdev, pdev, cconn, pconn),
    inline=['Session.on_pairing', 'Device.encrypt', 'Device.get_long_term_key', 'PairingKeys.__init__', 'PairingKeys.Key.__init__'],
    stubs=ENCRYPT_STUBS,
    with_enter=lambda path, cm, item=None: cm,
    with_exit=lambda path, cm: None,
)
