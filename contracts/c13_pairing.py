"""C13 -- pairing ends the same way on both sides, with honest authentication.

L1 (this part): the association model.  Session.decide_pairing_method, reading the real Session.PAIRING_METHODS
by reflection, against the oracle of spec/smp.py (Core Vol 3 Part H 2.3.5.1, Tables 2.6-2.8), and a ghost driver
that runs it on an initiator and a responder session fed with the values the two exchange.
"""
from bumble import smp
from bumble.core import PhysicalTransport
from pyvc.contracts import (Any, Bool, Bytes, Callback, Const, Inst, Int, IntRange, OneOf, Opt, contract, iff, implies,
                            lemma, model)
from spec import smp as S

ENVIRONMENT = [
    'two-party liveness ("either both complete or both fail; pairing never hangs") is a relation between two '
    'asynchronous state machines, user delegates and timers: outside function contracts, NOT claimed',
]

PM = smp.PairingMethod
IO = OneOf(0, 1, 2, 3, 4)  # Vol 3 Part H Table 3.4: the five defined IO capabilities


def method_id(spec_method):
    """bumble's PairingMethod member for a key generation method of the specification"""
    if spec_method == S.JUST_WORKS:
        return PM.JUST_WORKS
    if spec_method == S.PASSKEY_ENTRY:
        return PM.PASSKEY
    if spec_method == S.NUMERIC_COMPARISON:
        return PM.NUMERIC_COMPARISON
    return PM.OOB


# ---------------------------------------------------------------------------
# L1a: decide_pairing_method == Tables 2.6/2.7 (MITM rule) + Table 2.8, with the display/input role of this side
# ---------------------------------------------------------------------------
model('ghost:Link', fields=dict(transport=OneOf(PhysicalTransport.LE, PhysicalTransport.BR_EDR)))
model(
    'bumble.smp:Session#dpm',
    fields=dict(connection=Inst('ghost:Link'), mitm=Bool, sc=Bool, is_initiator=Bool, pairing_method=IntRange(0, 4), passkey_display=Bool),
)
SESSION_DPM = Inst('bumble.smp:Session#dpm')


def peer_mitm(auth_req):
    """the MITM flag of the peer as received in its Pairing Request / Response (Figure 3.3, bit 2)"""
    return (auth_req // S.AUTHREQ_MITM) % 2 == 1


def dpm_post(self, auth_req, initiator_io_capability, responder_io_capability, old):
    # on LE: who is who -- the local flag belongs to the local role, the received one to the peer
    i_mitm = self.mitm if self.is_initiator else peer_mitm(auth_req)
    r_mitm = peer_mitm(auth_req) if self.is_initiator else self.mitm
    method = S.key_generation_method(initiator_io_capability, responder_io_capability, self.sc, i_mitm, r_mitm)
    roles = S.passkey_roles(initiator_io_capability, responder_io_capability, self.sc)
    le = self.connection.transport == PhysicalTransport.LE
    return [
        implies(le, self.pairing_method == method_id(method)),
        # Passkey Entry: this side displays iff the table says its role displays; otherwise it inputs
        implies(le and method == S.PASSKEY_ENTRY, self.passkey_display == (roles[0] if self.is_initiator else roles[1])),
        implies(le and method != S.PASSKEY_ENTRY, self.passkey_display == old.self.passkey_display),
        # SMP over BR/EDR (cross-transport key derivation): no association model is run at all
        implies(not le, self.pairing_method == PM.CTKD_OVER_CLASSIC and self.passkey_display == old.self.passkey_display),
    ]


contract(
    'bumble.smp:Session.decide_pairing_method',
    prop='C13',
    params=dict(self=SESSION_DPM, auth_req=IntRange(0, 255), initiator_io_capability=IO, responder_io_capability=IO),
    ensures=dpm_post,
    ensures_names=['method-is-table-2.8', 'passkey-role-is-table-2.8', 'no-role-without-passkey', 'br-edr-is-ctkd'],
    modifies=['self.pairing_method', 'self.passkey_display'],
)


# ---------------------------------------------------------------------------
# L1b: the oracle is self-consistent -- the transcription of Table 2.8 equals its structural reading, the
# roles of a Passkey Entry cell are complementary (never both display; both input only for two bare keyboards),
# and an authenticated method is only chosen when somebody asked for MITM protection
# ---------------------------------------------------------------------------
def lemma_table_sane(i_io, r_io, sc, i_mitm, r_mitm):
    cell = S.table_2_8(i_io, r_io, sc)
    assert cell == S.table_2_8_structural(i_io, r_io, sc)
    i_disp, r_disp = S.passkey_roles(i_io, r_io, sc)
    assert not (i_disp and r_disp)
    if cell[0] == S.PASSKEY_ENTRY:
        assert (i_disp != r_disp) or (i_io == S.KEYBOARD_ONLY and r_io == S.KEYBOARD_ONLY)
        # whoever displays can display, whoever inputs has a keyboard
        assert implies(i_disp, S.can_display(i_io) and S.can_type(r_io))
        assert implies(r_disp, S.can_display(r_io) and S.can_type(i_io))
        assert implies(not i_disp and not r_disp, S.can_type(i_io) and S.can_type(r_io))
    else:
        assert not i_disp and not r_disp
    if cell[0] == S.NUMERIC_COMPARISON:
        assert sc  # Numeric Comparison exists in LE Secure Connections only
    m = S.key_generation_method(i_io, r_io, sc, i_mitm, r_mitm)
    assert implies(m in S.AUTHENTICATED_METHODS, i_mitm or r_mitm)


lemma('table_2_8_sane', lemma_table_sane, prop='C13', params=dict(i_io=IO, r_io=IO, sc=Bool, i_mitm=Bool, r_mitm=Bool))


# ---------------------------------------------------------------------------
# L1c: both sides select the same model, with complementary roles.  Ghost driver: the initiator's session and
# the responder's session each run the real decide_pairing_method on what the two exchange -- the initiator
# on (AuthReq of the Pairing Response, own IO capability, IO capability of the response), the responder on
# (AuthReq of the Pairing Request, IO capability of the request, own IO capability); the AuthReq octets are
# produced by the real Session.auth_req property of the other side (keypress and ct2 are never set by Session:
# __init__ sets both False and the handlers only AND them).
# ---------------------------------------------------------------------------
model(
    'bumble.smp:Session#two',
    fields=dict(connection=Inst('ghost:Link'), mitm=Bool, sc=Bool, bonding=Bool, keypress=Const(False), ct2=Const(False), is_initiator=Bool,
                pairing_method=IntRange(0, 4), passkey_display=Bool),
)
SESSION_TWO = Inst('bumble.smp:Session#two')


def lemma_both_sides(si, sr, i_io, r_io):
    si.decide_pairing_method(sr.auth_req, i_io, r_io)  # on_smp_pairing_response_command
    sr.decide_pairing_method(si.auth_req, i_io, r_io)  # on_smp_pairing_request_command_async
    assert si.pairing_method == sr.pairing_method
    assert si.pairing_method == method_id(S.key_generation_method(i_io, r_io, si.sc, si.mitm, sr.mitm))
    if si.pairing_method == PM.PASSKEY:
        # complementary: exactly one displays and the other inputs, unless both only have keyboards (both input)
        assert not (si.passkey_display and sr.passkey_display)
        assert (si.passkey_display != sr.passkey_display) or (i_io == S.KEYBOARD_ONLY and r_io == S.KEYBOARD_ONLY)
        assert implies(i_io == S.KEYBOARD_ONLY and r_io == S.KEYBOARD_ONLY, not si.passkey_display and not sr.passkey_display)
        assert implies(si.passkey_display, S.can_display(i_io)) and implies(sr.passkey_display, S.can_display(r_io))
        assert implies(not si.passkey_display, S.can_type(i_io)) and implies(not sr.passkey_display, S.can_type(r_io))


lemma(
    'both_sides_same_model',
    lemma_both_sides,
    prop='C13',
    params=dict(si=SESSION_TWO, sr=SESSION_TWO, i_io=IO, r_io=IO),
    # LE link; the Secure Connections flag is the negotiated one (each side: own flag AND the peer's AuthReq SC bit,
    # computed by the request/response handlers before decide_pairing_method is called)
    requires=lambda si, sr: [si.is_initiator, not sr.is_initiator, si.sc == sr.sc,
                             si.connection.transport == PhysicalTransport.LE, sr.connection.transport == PhysicalTransport.LE],
    inline=['Session.decide_pairing_method', 'Session.auth_req', 'AuthReq.from_booleans'],
)
