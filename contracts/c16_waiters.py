"""C16 -- teardown is complete, part 2: *waiters are released*.

(a) `utils.cancel_on_event` (with its nested on_event / on_done) and `Connection.cancel_on_disconnection`: after the
    event the wrapped future is finished on every path, the listener is removed exactly once;
(b) for the procedures of the kernel modules that wait on a connection- or transport-scoped future: a cut
    (disconnection / transport loss) injected at the await runs the *real* teardown function of the owning layer and
    the awaited future must then be finished -- or the await is in a protected form (wrapped by cancel_on_event /
    cancel_on_disconnection, whose release is (a), or bounded by wait_for(timeout)).
"""
import asyncio

from bumble import core as _core
from bumble import device as _device
from bumble import l2cap as _l2cap
from bumble import utils as _utils
from contracts.c16_env import (CANCELLED, EMITTER, EXCEPTION, FUT, FUT_INLINE, NEW_FUT, PENDING, RESULT, TASKFUT, Fut, RecEmitter, TaskFut, fst, fut_released,
                               run_done_callbacks)
from pyvc import ext_c03  # noqa: F401  (skeleton profile helpers)
from pyvc import ext_c16  # noqa: F401
from pyvc.contracts import Bytes as _Bytes
from pyvc.contracts import ConcList as _ConcList
from pyvc.contracts import EmptyDict as _EmptyDict
from pyvc.contracts import Any, Bool, Callback, Const, Inst, Int, IntRange, ListOf, OneOf, Opaque, Opt, Str, contract, implies, lemma, model

ENVIRONMENT = [
    'C16: asyncio.ensure_future(x) returns x itself when x is already a Future/Task (asyncio semantics); a coroutine is wrapped into '
    'a Task by asyncio (environment) -- cancel_on_event is verified for both kinds of future object',
    'C16: a Task whose cancel() was called finishes cancelled (the wrapped coroutines of the kernel do not swallow CancelledError: not verified)',
    'C16: the event loop runs the done-callbacks of a finished future exactly once each (asyncio call_soon); pyee calls the listeners '
    'registered for an event at emit time and raises KeyError from remove_listener for an unknown listener',
]

ENSURE_STUBS = {asyncio.ensure_future: Callback('ensure_future', effect=lambda ghost, awaitable: awaitable)}


def lemma_cancel_on_event(emitter, fut, event_first, twice):
    """utils.cancel_on_event(emitter, event, future) for a plain future or a task in any state"""
    state0 = fut.st
    wrapped = _utils.cancel_on_event(emitter, 'disconnection', fut)
    assert wrapped is fut, 'returns-the-future-itself'
    if state0 != PENDING:
        # nothing to protect: no listener, no callback is left behind
        assert emitter.count('disconnection') == 0 and len(fut.cbs) == 0, 'finished-future-registers-nothing'
    else:
        assert emitter.count('disconnection') == 1 and len(fut.cbs) == 1, 'one-listener-one-done-callback'
        if event_first:
            emitter.emit('disconnection', 0x13)
            # the waiter is released on every path: cancelled (a task) or failed with CancelledError (a plain future)
            assert fut.st != PENDING, 'released-by-the-event'
            assert fut.st == (CANCELLED if isinstance(fut, asyncio.Task) else EXCEPTION), 'ends-with-cancellation'
            if twice:
                # the event again before the loop got to run the done-callbacks: no exception, no state change
                emitter.emit('disconnection', 0x13)
        else:
            fut.set_result(None)  # the awaited operation completes by itself
        state1 = fut.st
        run_done_callbacks(fut)
        assert emitter.count('disconnection') == 0, 'listener-removed-exactly-once'
        emitter.emit('disconnection', 0x13)  # a later event finds no listener
        assert fut.st == state1, 'later-events-do-nothing'


lemma(
    'cancel_on_event',
    lemma_cancel_on_event,
    prop='C16',
    params=dict(emitter=EMITTER, fut=OneOf(FUT, TASKFUT), event_first=Bool, twice=Bool),
    modifies=['emitter.listeners', 'fut.st', 'fut.cbs', 'fut.exc'],
    inline=['bumble.utils:cancel_on_event', 'cancel_on_event', 'RecEmitter.*', 'contracts.c16_env:run_done_callbacks', 'run_done_callbacks'] + FUT_INLINE,
    stubs=ENSURE_STUBS,
    note='a second remove_listener would raise KeyError (pyee): "exactly once" is the absence of that exception plus count == 0',
)


# ---------------------------------------------------------------------------
# Connection.cancel_on_disconnection: the wrapper used by the connection-scoped waits
# ---------------------------------------------------------------------------
def rec_cancel_on_event(ghost, emitter, event, awaitable):
    ghost.wrapped = ghost.wrapped + [emitter.handle, 1 if event == 'disconnection' else 0]
    awaitable.guard = 1
    return awaitable


model('bumble.device:Connection#c16w', fields=dict(handle=IntRange(0, 0xFFFF)))
contract(
    'bumble.device:Connection.cancel_on_disconnection',
    prop='C16',
    params=dict(self=Inst('bumble.device:Connection#c16w'), awaitable=FUT),
    ghost=dict(wrapped=ListOf(Int)),
    ensures=lambda self, awaitable, res, old, ghost: [
        res is awaitable,
        # wrapped exactly once, on *this* connection's emitter, for the event Device.on_disconnection / on_flush emit on it
        ghost.wrapped == old.ghost.wrapped + [self.handle, 1],
        awaitable.guard == 1,
    ],
    ensures_names=['returns-the-wrapped-future', 'cancelled-by-this-connections-disconnection-event', 'marked-protected'],
    modifies=['ghost.wrapped', 'awaitable.guard'],
    stubs={_utils.cancel_on_event: Callback('cancel_on_event', effect=rec_cancel_on_event)},
)


# ---------------------------------------------------------------------------
# (b) a cut injected at the awaits of a procedure
# ---------------------------------------------------------------------------
# At `await x` where x is a future object (not a coroutine call) the hook forks the path:
#   no cut -- the awaited operation completes by itself (result), execution continues;
#   cut    -- the link / transport goes away *now*: the real teardown function of the layer that owns the future is
#             executed on the current state (`teardown(path, env)`), then the obligation `waiter-released` is stated:
#             the awaited future is finished, or it is in a protected form (guard 1: wrapped by cancel_on_event /
#             cancel_on_disconnection -- released by the event, lemma cancel_on_event; guard 2: bounded by
#             asyncio.wait_for(timeout)).  Execution then continues with the exception the waiter gets
#             (CancelledError, TimeoutError, the exception set on the future), so that `finally` / `except` blocks
#             of the procedure are covered as well; ghost.cut says that the cut happened.
# `await <call>` of a coroutine function is transitive (that function has its own awaits); the hook accepts an
# uninterpreted awaited value only if the awaited expression is syntactically a call.
def _is_future(path, v):
    from pyvc.values import Obj, Ref

    return isinstance(v, Ref) and isinstance(path.obj(v), Obj) and path.obj(v).cls in (Fut, TaskFut)


def _await_ordinal(path, node):
    """position of this await among the awaits of the enclosing function, in source order (stable obligation names)"""
    import ast

    f = path.func_stack[-1]
    aw = sorted((x for x in ast.walk(f.node) if isinstance(x, ast.Await)), key=lambda x: (x.lineno, x.col_offset))
    for i, x in enumerate(aw):
        if x is node or (x.lineno, x.col_offset) == (node.lineno, node.col_offset):
            return i
    return node.lineno


def make_cut_hook(teardown):
    import ast

    import z3

    from pyvc.engine import PathEnd, Unsupported, mk_bool, zint
    from pyvc.values import Unknown

    def hook(path, v, node):
        if not _is_future(path, v):
            if isinstance(v, Unknown) and not isinstance(node.value, ast.Call):
                raise Unsupported(f'await of an uninterpreted value that is not a call at line {node.lineno}: cannot tell whether it is a bare future')
            return v
        env = dict(path.entry_env)
        for fr in reversed(path.scope):
            env.update(path.obj(fr).vars)
        if path.decide([True, True], f'cut at the await of line {node.lineno}') == 0:
            # no cut: the operation completes by itself
            if path.branch(mk_bool(zint(path.getattr(v, 'st')) == PENDING) if not isinstance(path.getattr(v, 'st'), int) else path.getattr(v, 'st') == PENDING):
                path.setattr(v, 'st', RESULT)
            return finish(path, v, node)
        g = path.wobj(path.ghost).fields
        if 'cut' in g:
            g['cut'] = True
        teardown(path, env)
        st, guard = path.getattr(v, 'st'), path.getattr(v, 'guard')
        released = path.bool_or([path.compare_op(ast.NotEq(), st, PENDING), path.compare_op(ast.NotEq(), guard, 0)])
        path.oblige(path.cfg.obl_name(path, 'waiter-released', f'await{_await_ordinal(path, node)}'), 'waiter-released', released)
        return finish(path, v, node)

    def finish(path, v, node):
        st, guard = path.getattr(v, 'st'), path.getattr(v, 'guard')
        if path.branch(path.compare_op(ast.Eq(), st, RESULT)):
            return Unknown('result of the awaited future') if path.skeleton else None
        if path.branch(path.compare_op(ast.Eq(), st, CANCELLED)):
            path.raise_(asyncio.CancelledError)
        if path.branch(path.compare_op(ast.Eq(), st, EXCEPTION)):
            exc = path.getattr(v, 'exc')
            if exc is None:
                path.raise_(RuntimeError, 'exception set on the future')
            from pyvc.engine import PyExc

            raise PyExc(exc)
        # still pending after the cut
        if path.branch(path.compare_op(ast.Eq(), guard, 1)):
            path.raise_(asyncio.CancelledError)  # released by the event (lemma cancel_on_event)
        if path.branch(path.compare_op(ast.Eq(), guard, 2)):
            path.raise_(asyncio.TimeoutError)  # released by the timeout
        raise PathEnd()  # a bare pending future: the coroutine never resumes (the obligation above is refuted)

    return hook


def call_method(path, obj, name, *args):
    return path.call(path.getattr(obj, name), list(args), {})


def mark_timeout(ghost, fut, timeout):
    """asyncio.wait_for(fut, timeout): the wait is bounded (the caller gets TimeoutError at the latest after `timeout`)"""
    fut.guard = 2
    return fut


def mark_event(ghost, fut):
    """connection.cancel_on_disconnection(fut) (contract above) / utils.cancel_on_event(emitter, event, fut) (lemma above)"""
    fut.guard = 1
    return fut


def mark_event3(ghost, emitter, event, fut):
    fut.guard = 1
    return fut


def mark_flush(ghost, emitter, event, fut):
    """utils.cancel_on_event(device, 'flush', fut): the event Device.on_flush emits when the transport is lost"""
    assert event == 'flush', 'wrapped-for-the-flush-event'
    fut.guard = 1
    return fut


model('ghost:Loop#c16', fields={}, methods={'create_future': Callback('create_future', returns=NEW_FUT)})
WAIT_STUBS = {
    asyncio.get_running_loop: Callback('get_running_loop', returns=Inst('ghost:Loop#c16')),
    asyncio.wait_for: Callback('wait_for', effect=mark_timeout),
    _utils.cancel_on_event: Callback('cancel_on_event', effect=mark_event3),
}
model('ghost:Connection#c16w', fields=dict(handle=IntRange(0, 0xFFFF)), methods={'cancel_on_disconnection': Callback('cancel_on_disconnection', effect=mark_event)})
W_CONN = Inst('ghost:Connection#c16w')


# -- L2CAP channels ------------------------------------------------------------------------------
def rec_frame(ghost, *args):
    ghost.frames = ghost.frames + 1


model('ghost:ChannelManager#c16w', fields=dict(le_coc_requests=Const({})), methods={
    'next_identifier': Callback('next_identifier', returns=IntRange(1, 255)),
    'on_channel_closed': Callback('on_channel_closed'),
    'send_control_frame': Callback('send_control_frame', effect=rec_frame),
})
model(
    'bumble.l2cap:ClassicChannel#c16w',
    fields=dict(state=OneOf(*_l2cap.ClassicChannel.State), connection_result=Opt(FUT), disconnection_result=Opt(FUT), connection=W_CONN,
                manager=Inst('ghost:ChannelManager#c16w'), signaling_cid=Int, source_cid=Int, destination_cid=Int, psm=Int),
    methods={'emit': Callback('emit')},
)
W_GHOST = dict(cut=Bool, frames=Int)
CL_INLINE = ['ClassicChannel._disconnect_sync', 'ClassicChannel._change_state', 'ClassicChannel.send_control_frame', 'ClassicChannel.abort'] + FUT_INLINE

contract(
    'bumble.l2cap:ClassicChannel.disconnect',
    prop='C16',
    profile='skeleton',
    params=dict(self=Inst('bumble.l2cap:ClassicChannel#c16w')),
    ghost=W_GHOST,
    requires=lambda ghost: [not ghost.cut],
    ensures=lambda self, ghost: [fut_released(self.disconnection_result)],
    ensures_names=['nothing-left-pending'],
    raises={_core.InvalidStateError: None, asyncio.CancelledError: None},
    modifies=['*'],
    inline=CL_INLINE,
    stubs=WAIT_STUBS,
    # link loss: ChannelManager.on_disconnection aborts every channel registered for the connection (contract in c16_teardown.py)
    await_hook=make_cut_hook(lambda path, env: call_method(path, env['self'], 'abort')),
)

contract(
    'bumble.l2cap:ClassicChannel.connect',
    prop='C16',
    profile='skeleton',
    params=dict(self=Inst('bumble.l2cap:ClassicChannel#c16w')),
    ghost=W_GHOST,
    requires=lambda ghost: [not ghost.cut],
    ensures=lambda self, ghost: [self.connection_result is None],
    ensures_names=['nothing-left-pending'],
    raises={_core.InvalidStateError: None, asyncio.CancelledError: lambda self: [self.connection_result is None]},
    modifies=['*'],
    inline=CL_INLINE,
    stubs=WAIT_STUBS,
    await_hook=make_cut_hook(lambda path, env: call_method(path, env['self'], 'abort')),
    note='the wait is wrapped in connection.cancel_on_disconnection: released by the connection event, not by abort()',
)

model(
    'bumble.l2cap:LeCreditBasedChannel#c16w',
    fields=dict(state=OneOf(*_l2cap.LeCreditBasedChannel.State), connection_result=Opt(FUT), disconnection_result=Opt(FUT), connection=W_CONN,
                manager=Inst('ghost:ChannelManager#c16w'), source_cid=Int, destination_cid=Int, psm=Int, mtu=Int, mps=Int, peer_credits=Int),
    methods={'emit': Callback('emit'), 'flush_output': Callback('flush_output')},
)
LE_INLINE = ['LeCreditBasedChannel._change_state', 'LeCreditBasedChannel.send_control_frame', 'LeCreditBasedChannel.abort'] + FUT_INLINE
def le_nothing_pending(self, ghost):
    return implies(ghost.cut, self.connection_result is None and self.disconnection_result is None)


LE_WAITER = dict(
    prop='C16',
    profile='skeleton',
    params=dict(self=Inst('bumble.l2cap:LeCreditBasedChannel#c16w')),
    ghost=W_GHOST,
    requires=lambda ghost: [not ghost.cut],
    ensures=lambda self, ghost: [le_nothing_pending(self, ghost)],
    ensures_names=['nothing-left-pending-after-a-cut'],
    modifies=['*'],
    inline=LE_INLINE,
    stubs=WAIT_STUBS,
    await_hook=make_cut_hook(lambda path, env: call_method(path, env['self'], 'abort')),
    note='bare await: released because ChannelManager.on_disconnection aborts every channel of the connection, CONNECTING ones included',
)
contract(
    'bumble.l2cap:LeCreditBasedChannel.connect',
    # (the request this channel registered in ChannelManager.le_coc_requests[handle] is dropped with the link by
    # ChannelManager.on_disconnection: c16_teardown.py 'tables-emptied-for-the-handle')
    raises={_core.InvalidStateError: None, asyncio.CancelledError: lambda self, ghost: [le_nothing_pending(self, ghost)]},
    **LE_WAITER,
)
contract(
    'bumble.l2cap:LeCreditBasedChannel.disconnect',
    raises={_core.InvalidStateError: None, asyncio.CancelledError: lambda self, ghost: [le_nothing_pending(self, ghost)]},
    **LE_WAITER,
)


# -- GATT client request ----------------------------------------------------------------------------
def cleared(self):
    return [self.pending_request is None, self.pending_response is None]


model('ghost:Semaphore#c16w', fields={})
model(
    'bumble.gatt_client:Client#c16w',
    fields=dict(request_semaphore=Inst('ghost:Semaphore#c16w'), pending_request=Const(None), pending_response=Const(None), _bearer_id=Str),
    methods={'send_gatt_pdu': Callback('send_gatt_pdu', effect=rec_frame)},
)
contract(
    'bumble.gatt_client:Client.send_request',
    prop='C16',
    profile='skeleton',
    params=dict(self=Inst('bumble.gatt_client:Client#c16w'), request=Any),
    ghost=W_GHOST,
    requires=lambda ghost: [not ghost.cut],
    # however the wait ends (response, bearer gone, timeout) nothing stays registered as pending
    ensures=lambda self, ghost, old: cleared(self) + [ghost.frames == old.ghost.frames + 1],
    ensures_names=['pending-request-cleared', 'pending-response-cleared', 'request-sent-once'],
    raises={asyncio.CancelledError: cleared, _core.TimeoutError: cleared},
    modifies=['*'],
    inline=['Client.on_disconnection', 'TimeoutError.__init__', 'BaseBumbleError.__init__'] + FUT_INLINE,
    stubs=WAIT_STUBS,
    with_enter=lambda path, cm: None,
    with_exit=lambda path, cm: None,
    # the bearer goes away: Client.on_disconnection is its 'disconnection' / 'close' listener (Client.__init__)
    await_hook=make_cut_hook(lambda path, env: call_method(path, env['self'], 'on_disconnection', 0x13)),
    note='request_semaphore (async with) is a no-op stub: mutual exclusion of requests is C10/C12 matter',
)


# -- GATT server indication ---------------------------------------------------------------------------
def _sem():
    return 'semaphore'


def _none():
    return None


def no_server_state(self, bearer):
    return bearer not in self.subscribers and bearer not in self.indication_semaphores and bearer not in self.pending_confirmations


model('bumble.device:Connection#c16b', fields=dict(handle=IntRange(0, 0xEFF), att_mtu=IntRange(23, 0xFFFF)))
model('bumble.att:Attribute#c16', fields=dict(handle=IntRange(1, 0xFFFF)), methods={'encode_value': Callback('encode_value', returns=_Bytes)})
model(
    'bumble.gatt_server:Server#c16w',
    fields=dict(subscribers=_EmptyDict(None), indication_semaphores=_EmptyDict(_sem), pending_confirmations=_EmptyDict(_none)),
    methods={'send_gatt_pdu': Callback('send_gatt_pdu', effect=rec_frame)},
)


def _native_defaultdicts(env):
    import collections

    s = env['self']
    s.indication_semaphores = collections.defaultdict(lambda: asyncio.Semaphore(1))
    s.pending_confirmations = collections.defaultdict(lambda: None)


contract(
    'bumble.gatt_server:Server._indicate_single_bearer',
    prop='C16',
    profile='skeleton',
    params=dict(self=Inst('bumble.gatt_server:Server#c16w'), bearer=Inst('bumble.device:Connection#c16b'), attribute=Inst('bumble.att:Attribute#c16'), value=_Bytes, force=Const(True)),
    ghost=W_GHOST,
    requires=lambda ghost: [not ghost.cut],
    # an indication is waiting for its confirmation when the bearer goes away: the waiter ends (with the timeout error)
    # and it does not bring the state of the closed bearer back
    ensures=lambda self, bearer, ghost: [implies(ghost.cut, no_server_state(self, bearer)), implies(not ghost.cut, self.pending_confirmations.get(bearer) is None)],
    ensures_names=['no-state-of-a-closed-bearer-comes-back', 'slot-free-again'],
    raises={asyncio.CancelledError: lambda self, bearer, ghost: [implies(ghost.cut, no_server_state(self, bearer))],
            TimeoutError: lambda self, bearer, ghost: [implies(ghost.cut, no_server_state(self, bearer))]},
    modifies=['*'],
    inline=['Server.on_disconnection'] + FUT_INLINE,
    stubs=WAIT_STUBS,
    with_enter=lambda path, cm: None,
    with_exit=lambda path, cm: None,
    native_setup=_native_defaultdicts,
    # Device.on_disconnection hands the closed connection to Server.on_disconnection
    await_hook=make_cut_hook(lambda path, env: call_method(path, env['self'], 'on_disconnection', env['bearer'])),
    note='forced indication of an encoded value (the subscription gating and the PDU are C12); the confirmation wait is bounded by '
         'wait_for(GATT_REQUEST_TIMEOUT): the accepted protected form',
)


# -- SMP pairing ------------------------------------------------------------------------------------------
model('ghost:SmpManager#c16w', fields={}, methods={'on_session_end': Callback('on_session_end')})
model('ghost:Connection#c16smp', fields=dict(handle=IntRange(0, 0xFFFF)), methods={
    'cancel_on_disconnection': Callback('cancel_on_disconnection', effect=mark_event), 'remove_listener': Callback('remove_listener')})
model(
    'bumble.smp:Session#c16w',
    fields=dict(pairing_result=Opt(FUT), connection=Inst('ghost:Connection#c16smp'), manager=Inst('ghost:SmpManager#c16w')),
    methods={'send_pairing_request_command': Callback('send_pairing_request_command', effect=rec_frame)},
)
contract(
    'bumble.smp:Session.pair',
    prop='C16',
    profile='skeleton',
    params=dict(self=Inst('bumble.smp:Session#c16w')),
    ghost=W_GHOST,
    requires=lambda self, ghost: [not ghost.cut, self.pairing_result is not None],
    ensures=lambda ghost, old: [ghost.frames == old.ghost.frames + 1],
    ensures_names=['pairing-request-sent-once'],
    raises={asyncio.CancelledError: None, RuntimeError: None},
    modifies=['*'],
    inline=['Session.on_disconnection'] + FUT_INLINE,
    stubs=WAIT_STUBS,
    await_hook=make_cut_hook(lambda path, env: call_method(path, env['self'], 'on_disconnection', 0x13)),
    note='an initiator session always has a pairing_result future (Session.__init__); the wait is wrapped in cancel_on_disconnection; '
         'RuntimeError stands for the pairing failure set on the future (Session.on_pairing_failure)',
)


# -- Device.disconnect -------------------------------------------------------------------------------------
def rec_on(ghost, event, fn):
    ghost.listening = ghost.listening + 1


def rec_off(ghost, event, fn):
    ghost.listening = ghost.listening - 1


model('ghost:Link#c16w', fields=dict(handle=IntRange(0, 0xFFFF), EVENT_DISCONNECTION=Const('disconnection'), EVENT_DISCONNECTION_FAILURE=Const('disconnection_failure')),
      methods={'on': Callback('on', effect=rec_on), 'remove_listener': Callback('remove_listener', effect=rec_off)})
model('bumble.device:Device#c16w', fields=dict(disconnecting=Bool), methods={
    'send_async_command': Callback('send_async_command', effect=rec_frame, is_async=True, raises=(RuntimeError,)),
    'emit': Callback('emit'),
})


def disconnect_done(self, ghost, old):
    return [ghost.listening == old.ghost.listening, not self.disconnecting]


contract(
    'bumble.device:Device.disconnect',
    prop='C16',
    profile='skeleton',
    params=dict(self=Inst('bumble.device:Device#c16w'), connection=Inst('ghost:Link#c16w'), reason=IntRange(0, 255)),
    ghost=dict(W_GHOST, listening=Int),
    requires=lambda ghost: [not ghost.cut],
    # however it ends, the two temporary listeners on the link are removed again and the flag is reset
    ensures=disconnect_done,
    ensures_names=['temporary-listeners-removed', 'disconnecting-flag-reset'],
    raises={asyncio.CancelledError: disconnect_done, RuntimeError: disconnect_done},
    modifies=['*'],
    inline=FUT_INLINE,
    stubs={**WAIT_STUBS, _utils.cancel_on_event: Callback('cancel_on_event', effect=mark_flush)},
    # transport loss: Host.on_transport_lost emits 'flush', Device.on_flush re-emits it on the device (contracts in c16_teardown.py)
    await_hook=make_cut_hook(lambda path, env: None),
    note='the wait for the Disconnection Complete event is wrapped in cancel_on_event(device, "flush"): if the transport dies the '
         'waiter is cancelled; RuntimeError stands for a failing HCI command (C03) / the disconnection failure set on the future',
)


# -- L2CAP connection parameter update request (peripheral -> central) -----------------------------------------------
model(
    'bumble.l2cap:ChannelManager#c16u',
    fields=dict(connection_parameters_update_response=Opt(FUT), channels=_EmptyDict(None), le_coc_channels=_EmptyDict(None),
                pending_credit_based_connections=_EmptyDict(None), identifiers=_EmptyDict(None)),
    methods={'send_control_frame': Callback('send_control_frame', effect=rec_frame), 'next_identifier': Callback('next_identifier', returns=IntRange(1, 255))},
)


def update_done(self):
    return [self.connection_parameters_update_response is None]


contract(
    'bumble.l2cap:ChannelManager.update_connection_parameters',
    prop='C16',
    profile='skeleton',
    params=dict(self=Inst('bumble.l2cap:ChannelManager#c16u'), connection=W_CONN, interval_min=Int, interval_max=Int, latency=Int, timeout=Int),
    ghost=W_GHOST,
    requires=lambda self, ghost: [not ghost.cut],
    # the manager has ONE slot for this request: whatever ends the wait must also free the slot, or every later request
    # (on any connection) is refused with 'request already pending'
    ensures=lambda self, ghost: [implies(ghost.cut, self.connection_parameters_update_response is None)],
    ensures_names=['slot-free-after-a-cut'],
    raises={_core.InvalidStateError: None, asyncio.CancelledError: lambda self, ghost: [implies(ghost.cut, self.connection_parameters_update_response is None)]},
    modifies=['*'],
    inline=['ChannelManager.on_disconnection'] + FUT_INLINE,
    stubs=WAIT_STUBS,
    await_hook=make_cut_hook(lambda path, env: call_method(path, env['self'], 'on_disconnection', path.getattr(env['connection'], 'handle'), 0x13)),
)


# -- enhanced credit-based connection request (EATT) ------------------------------------------------------------------
model('bumble.l2cap:LeCreditBasedChannelSpec#c16', fields=dict(psm=IntRange(1, 0xFF), mtu=Int, mps=Int, max_credits=Int))
model(
    'bumble.l2cap:ChannelManager#c16e',
    fields=dict(channels=_EmptyDict(None), le_coc_channels=_EmptyDict(None), pending_credit_based_connections=_EmptyDict(None), identifiers=_EmptyDict(None)),
    methods={
        'send_control_frame': Callback('send_control_frame', effect=rec_frame),
        'next_identifier': Callback('next_identifier', returns=IntRange(1, 255)),
        'find_free_le_cids': Callback('find_free_le_cids', returns=_ConcList(IntRange(0x40, 0x7F), 1)),
    },
)


def no_l2cap_state(self, connection):
    h = connection.handle
    return h not in self.channels and h not in self.le_coc_channels and h not in self.pending_credit_based_connections


contract(
    'bumble.l2cap:ChannelManager.create_enhanced_credit_based_channels',
    prop='C16',
    profile='skeleton',
    params=dict(self=Inst('bumble.l2cap:ChannelManager#c16e'), connection=W_CONN, spec=Inst('bumble.l2cap:LeCreditBasedChannelSpec#c16'), count=Const(1)),
    ghost=W_GHOST,
    requires=lambda self, ghost: [not ghost.cut],
    # the connection goes away while the request is outstanding: the real ChannelManager.on_disconnection runs on the tables this
    # function has just filled; the waiter is released (cancelled) and nothing of the connection is registered again
    ensures=lambda self, connection, ghost: [not ghost.cut],
    ensures_names=['normal-return-only-without-a-cut'],
    raises={asyncio.CancelledError: lambda self, connection, ghost: [ghost.cut, no_l2cap_state(self, connection)], RuntimeError: None},
    modifies=['*'],
    inline=['ChannelManager.on_disconnection'] + FUT_INLINE,
    stubs=WAIT_STUBS,
    await_hook=make_cut_hook(lambda path, env: call_method(path, env['self'], 'on_disconnection', path.getattr(env['connection'], 'handle'), 0x13)),
    note='bounded(count=1: one channel requested; the tables start empty); channel objects and the request PDU are uninterpreted (skeleton)',
)


# ---------------------------------------------------------------------------
# (c) the other procedures of bumble/device.py that wait for a controller / peer event of one connection: every future
# they await must be in a protected form (no layer's teardown completes these futures: they are locals of the procedure)
# ---------------------------------------------------------------------------
def _async_def_names():
    import ast
    import glob
    import os

    import bumble

    names = set()
    root = os.path.dirname(bumble.__file__)
    for fn in glob.glob(os.path.join(root, '**', '*.py'), recursive=True):
        for x in ast.walk(ast.parse(open(fn).read())):
            if isinstance(x, ast.AsyncFunctionDef):
                names.add(x.name)
    return names


ASYNC_DEF_NAMES = _async_def_names()


def make_form_hook():
    """await hook of the protected-form family: a future object must be wrapped (guard 1) or bounded (guard 2); an
    uninterpreted awaited value is accepted only when the awaited expression is a call of a method/function whose name
    is the name of an `async def` of the bumble package (a coroutine call: its own awaits are its own obligations) or
    asyncio.sleep (bounded by its timer)"""
    import ast

    from pyvc.engine import Unsupported
    from pyvc.values import Unknown

    cut = make_cut_hook(lambda path, env: None)

    def hook(path, v, node):
        if _is_future(path, v):
            return cut(path, v, node)
        if isinstance(v, Unknown) or v is None:
            call = node.value
            name = None
            if isinstance(call, ast.Call):
                name = call.func.attr if isinstance(call.func, ast.Attribute) else getattr(call.func, 'id', None)
            if name is None or not (name in ASYNC_DEF_NAMES or name == 'sleep'):
                raise Unsupported(f'await of `{ast.unparse(node.value)[:60]}`: neither a modelled future nor a coroutine call')
            return v
        return v

    return hook


model('ghost:Self#c16f', fields={})
model('ghost:CisLink#c16f', fields=dict(acl_connection=W_CONN))
FORM_FAMILY = [
    'Device.update_connection_parameters', 'Device.update_connection_parameters_with_subrate', 'Device.update_connection_subrate',
    'Device.authenticate', 'Device.encrypt', 'Device.switch_role', 'Device.request_remote_name',
    'Device.get_remote_le_features', 'Device.get_remote_classic_features', 'Device.get_remote_cs_capabilities',
    'Device.create_cs_config', 'Device.enable_cs_security', 'Device.enable_cs_procedure',
    'Device.accept_cis_request', 'Device.create_big', 'Device.create_big_sync',
]
for _fn in FORM_FAMILY:
    _native = getattr(_device.Device, _fn.split('.')[1])
    _pnames = [p for p in __import__('inspect').signature(_native).parameters]
    _params = {p: Any for p in _pnames}
    _params['self'] = Inst('ghost:Self#c16f')
    if 'connection' in _params:
        _params['connection'] = W_CONN
    if 'cis_link' in _params:
        _params['cis_link'] = Inst('ghost:CisLink#c16f')
    contract(
        f'bumble.device:{_fn}',
        prop='C16',
        profile='skeleton',
        params=_params,
        ghost=W_GHOST,
        requires=lambda ghost: [not ghost.cut],
        raises={asyncio.CancelledError: None, asyncio.TimeoutError: None, _core.BaseBumbleError: None, RuntimeError: None},
        modifies=['ghost.cut'],
        inline=FUT_INLINE,
        stubs=WAIT_STUBS,
        with_enter=lambda path, cm: cm,
        with_exit=lambda path, cm: None,
        decorators_ok=['utils.experimental(\'Only for testing.\')', 'experimental'],
        await_hook=make_form_hook(),
        invariants={0: lambda: [True]},  # get_remote_classic_features reads the feature pages in a loop: nothing to carry over
        note='protected-form family: every future this procedure awaits is wrapped by cancel_on_disconnection / cancel_on_event or bounded by wait_for',
    )
