"""C19 (AVCTP part) -- an AVCTP message fragmented by a peer as the AVCTP specification lays out (profile identifier
in the start packet only) is reassembled byte-identically; a broken fragment sequence discards only that message.

  MessageAssembler.reset / __init__ / on_message_complete / on_pdu    step contract from AVCTP 6.1 and the statement
  Protocol.send_message                                               one single packet, exactly the specified layout
  lemma avctp_roundtrip                                               the oracle fragmenter (spec/avctp.py) through the
                                                                      assembler contract, any cut of any message
"""
import struct

from pyvc.contracts import (Any, Bool, Bytes, Callback, Inst, Int, IntRange, ListOf, contract, forall, iff, implies, lemma,
                            model, at, ite)
from spec.avctp import (CONTINUE, END, SINGLE, START, be16, continue_packet, cr_of, end_packet, header_len, ipid_of,
                        label_of, ptype_of, single_packet, start_packet)

ENVIRONMENT = [
    'AVCTP: the assembler callback (Protocol.on_message) does not re-enter the assembler (A2); an exception it raises '
    'is logged and dropped',
    'AVCTP: packets shorter than the header their packet type announces (AVCTP 6.1: 3 / 4 / 1 / 1 octets) are outside '
    'the contract (robustness against malformed input is C17)',
    'AVCTP: bumble never fragments on the sending side (TODO in Protocol.send_message): a message longer than '
    'peer_mtu - 3 is written as one over-long single packet; the statement only asks for reassembly of what a peer '
    'fragments, so the sender contract states the packet layout, not an MTU bound',
]


def asm_deliver(ghost, transaction_label, is_command, ipid, pid, payload):
    ghost.n = ghost.n + 1
    ghost.d_label = transaction_label
    ghost.d_command = is_command
    ghost.d_ipid = ipid
    ghost.d_pid = pid
    ghost.d_payload = payload
    if ghost.cb_fails:
        raise ValueError('callback failed')


ASM_CB = Callback('callback', effect=asm_deliver, raises=(ValueError,))
model(
    'bumble.avctp:MessageAssembler',
    fields=dict(
        callback=ASM_CB,
        packets_received=Int,
        transaction_label=IntRange(-1, 15),
        pid=IntRange(-1, 0xFFFF),
        c_r=IntRange(-1, 1),
        ipid=IntRange(-1, 1),
        payload=Bytes,
        number_of_packets=IntRange(0, 255),
        packet_count=Int,
    ),
)
ASM = Inst('bumble.avctp:MessageAssembler')
ASM_GHOST = dict(n=Int, d_label=Int, d_command=Bool, d_ipid=Bool, d_pid=Int, d_payload=Bytes, cb_fails=Bool)
ASM_STATE = ['self.packets_received', 'self.transaction_label', 'self.pid', 'self.c_r', 'self.ipid', 'self.payload', 'self.number_of_packets', 'self.packet_count']
ASM_MOD = ASM_STATE + ['ghost.n', 'ghost.d_label', 'ghost.d_command', 'ghost.d_ipid', 'ghost.d_pid', 'ghost.d_payload']


def clean(a):
    """nothing in progress: exactly what reset() establishes"""
    return a.transaction_label == -1 and a.packets_received == 0 and a.pid == -1 and a.c_r == -1 and a.ipid == -1 and len(a.payload) == 0 and a.number_of_packets == 0


def wf(a):
    """representation invariant: idle (label -1) means clean; otherwise the label, C/R, IPID and PID of the start
    packet are held and packets_received counts the packets whose fragments are in `payload`"""
    return ite(a.transaction_label < 0, clean(a), a.packets_received >= 1 and a.pid >= 0 and a.c_r >= 0 and a.ipid >= 0)


def in_progress(a, label, c_r, ipid, pid, count, payload, received):
    return a.transaction_label == label and a.c_r == c_r and a.ipid == ipid and a.pid == pid and a.number_of_packets == count and a.payload == payload and a.packets_received == received


def same_state(a, o):
    return (a.transaction_label == o.transaction_label and a.c_r == o.c_r and a.ipid == o.ipid and a.pid == o.pid and a.number_of_packets == o.number_of_packets
            and a.payload == o.payload and a.packets_received == o.packets_received)


def nothing_delivered(old, ghost):
    return (ghost.n == old.ghost.n and ghost.d_label == old.ghost.d_label and ghost.d_command == old.ghost.d_command and ghost.d_ipid == old.ghost.d_ipid
            and ghost.d_pid == old.ghost.d_pid and ghost.d_payload == old.ghost.d_payload)


def delivered(old, ghost, label, c_r, ipid, pid, payload):
    return ghost.n == old.ghost.n + 1 and ghost.d_label == label and ghost.d_command == (c_r == 0) and ghost.d_ipid == (ipid != 0) and ghost.d_pid == pid and ghost.d_payload == payload


def asm_step(self, pdu, old, ghost):
    """reassembly step from AVCTP 6.1 and the statement: a single packet is a whole message; a start packet
    (carrying the packet count and the profile identifier) begins a message whatever was in progress; continue and
    end packets carry NO profile identifier -- their message bytes start at octet 1 -- and extend the message in
    progress when transaction label and C/R agree; the message is delivered exactly when the end packet is packet
    number `count`, as the concatenation of all fragments; anything else delivers nothing and leaves the assembler
    clean or untouched"""
    o = old.self
    t = ptype_of(pdu)
    label = label_of(pdu)
    c_r = cr_of(pdu)
    ipid = ipid_of(pdu)
    invalid = c_r == 0 and ipid != 0  # IPID in a command
    idle = o.transaction_label < 0
    cont = not invalid and (t == CONTINUE or t == END)
    matches = cont and not idle and label == o.transaction_label and c_r == o.c_r
    stray = cont and not matches
    buf = o.payload + pdu[1:]
    complete = matches and t == END and o.packets_received + 1 == o.number_of_packets
    single = not invalid and t == SINGLE
    return [
        wf(self),
        iff(ghost.n == old.ghost.n + 1, single or complete),
        implies(single, delivered(old, ghost, label, c_r, ipid, be16(pdu, 1), pdu[3:]) and clean(self)),
        implies(complete, delivered(old, ghost, o.transaction_label, o.c_r, o.ipid, o.pid, buf) and clean(self)),
        implies(not (single or complete), nothing_delivered(old, ghost)),
        implies(not invalid and t == START, in_progress(self, label, c_r, ipid, be16(pdu, 2), at(pdu, 1), pdu[4:], 1)),
        implies(invalid or stray, clean(self) or same_state(self, o)),
        implies(matches and t == CONTINUE, in_progress(self, o.transaction_label, o.c_r, o.ipid, o.pid, o.number_of_packets, buf, o.packets_received + 1) or clean(self)),
        implies(matches and t == CONTINUE and o.packets_received + 1 < o.number_of_packets, not clean(self)),
        implies(matches and t == END and not complete, clean(self)),
    ]


STEP_NAMES = ['wf', 'delivered-once-iff-single-or-complete', 'single-delivered-exact', 'complete-delivered-exact', 'nothing-delivered-otherwise',
              'start-begins-message', 'invalid-or-stray-dropped', 'continue-extends-without-pid', 'continue-kept-below-count', 'bad-end-discards']

contract('bumble.avctp:MessageAssembler.reset', prop='C19', params=dict(self=ASM), ensures=lambda self: [clean(self), wf(self), self.packet_count == 0], modifies=ASM_STATE)
USE_RESET = ['bumble.avctp:MessageAssembler.reset']

contract(
    'bumble.avctp:MessageAssembler.__init__',
    prop='C19',
    params=dict(
        self=Inst('bumble.avctp:MessageAssembler', callback=Any, packets_received=Any, transaction_label=Any, pid=Any, c_r=Any, ipid=Any, payload=Any,
                  number_of_packets=Any, packet_count=Any),
        callback=ASM_CB,
    ),
    ensures=lambda self: [clean(self), wf(self)],
    modifies=['self.*'],
    inline=['MessageAssembler.reset'],
)

contract(
    'bumble.avctp:MessageAssembler.on_message_complete',
    prop='C19',
    params=dict(self=ASM),
    ghost=ASM_GHOST,
    ensures=lambda self, old, ghost: [
        clean(self),
        delivered(old, ghost, old.self.transaction_label, old.self.c_r, old.self.ipid, old.self.pid, old.self.payload),
    ],
    ensures_names=['clean-afterwards', 'delivered-once-exact'],
    modifies=ASM_MOD,
    uses=USE_RESET,
)

contract(
    'bumble.avctp:MessageAssembler.on_pdu',
    prop='C19',
    params=dict(self=ASM, pdu=Bytes),
    ghost=ASM_GHOST,
    # at least the header its packet type announces (AVCTP 6.1): 3 single, 4 start, 1 continue / end
    requires=lambda self, pdu: [wf(self), len(pdu) >= 1, len(pdu) >= header_len(ptype_of(pdu))],
    ensures=asm_step,
    ensures_names=STEP_NAMES,
    modifies=ASM_MOD,
    uses=USE_RESET + ['bumble.avctp:MessageAssembler.on_message_complete'],
)


# ---------------------------------------------------------------------------
# lemma: what a peer fragments as AVCTP 6.1 lays out is reassembled byte-identically
# ---------------------------------------------------------------------------
def cut_at(cuts, message, count, k):
    """end offset of fragment k (0-based); the last fragment ends the message"""
    return ite(k >= count - 1, len(message), at(cuts, k))


def lemma_avctp_roundtrip(asm, message, label, c_r, ipid, pid, count, cuts):
    """oracle sender (spec/avctp.py: PID in the single / start packet only), any cut of the message into `count`
    fragments, fed to the real assembler through its contract from ANY well-formed state (idle or in the middle of
    another, broken, message)"""
    if count == 1:
        asm.on_pdu(single_packet(label, c_r, ipid, pid, message))
    else:
        asm.on_pdu(start_packet(label, c_r, ipid, pid, count, message[: cut_at(cuts, message, count, 0)]))
        k = 1
        while k < count:
            frag = message[cut_at(cuts, message, count, k - 1) : cut_at(cuts, message, count, k)]
            if k == count - 1:
                asm.on_pdu(end_packet(label, c_r, ipid, frag))
            else:
                asm.on_pdu(continue_packet(label, c_r, ipid, frag))
            k = k + 1


def cuts_ok(cuts, message, count):
    return [
        len(cuts) >= count - 1,
        forall(0, count - 1, lambda i: 0 <= cuts[i] and cuts[i] <= len(message)),
        forall(0, count - 2, lambda i: cuts[i] <= cuts[i + 1]),
    ]


RT_MOD = ['asm.packets_received', 'asm.transaction_label', 'asm.pid', 'asm.c_r', 'asm.ipid', 'asm.payload', 'asm.number_of_packets', 'asm.packet_count',
          'ghost.n', 'ghost.d_label', 'ghost.d_command', 'ghost.d_ipid', 'ghost.d_pid', 'ghost.d_payload']

lemma(
    'avctp_roundtrip',
    lemma_avctp_roundtrip,
    prop='C19',
    params=dict(asm=ASM, message=Bytes, label=IntRange(0, 15), c_r=IntRange(0, 1), ipid=IntRange(0, 1), pid=IntRange(0, 0xFFFF), count=IntRange(1, 255), cuts=ListOf(Int)),
    ghost=ASM_GHOST,
    # IPID is only meaningful in a response (AVCTP 6.1.1)
    requires=lambda asm, message, c_r, ipid, count, cuts: [wf(asm), implies(c_r == 0, ipid == 0)] + cuts_ok(cuts, message, count),
    ensures=lambda asm, message, label, c_r, ipid, pid, old, ghost: [
        ghost.n == old.ghost.n + 1,
        ghost.d_payload == message,
        ghost.d_label == label and ghost.d_command == (c_r == 0) and ghost.d_ipid == (ipid != 0) and ghost.d_pid == pid,
        clean(asm),
    ],
    ensures_names=['delivered-exactly-once', 'byte-identical', 'label-cr-ipid-pid', 'clean-afterwards'],
    modifies=RT_MOD,
    invariants={
        0: lambda asm, message, label, c_r, ipid, pid, count, cuts, k, old, ghost: [
            1 <= k and k <= count,
            wf(asm),
            implies(k < count, in_progress(asm, label, c_r, ipid, pid, count, message[: cut_at(cuts, message, count, k - 1)], k) and ghost.n == old.ghost.n),
            implies(k >= count, clean(asm) and delivered(old, ghost, label, c_r, ipid, pid, message)),
        ]
    },
    decreases={0: lambda count, k: count - k},
    uses=['bumble.avctp:MessageAssembler.on_pdu'],
)


# ---------------------------------------------------------------------------
# sender: Protocol.send_message (never fragments)
# ---------------------------------------------------------------------------
def ch_write(ghost, pdu):
    ghost.k = ghost.k + 1
    ghost.sent = pdu


model('ghost:AvctpChannel', fields=dict(peer_mtu=IntRange(48, 0xFFFF)), methods={'write': Callback('write', effect=ch_write)})
model('bumble.avctp:Protocol#tx', fields=dict(l2cap_channel=Inst('ghost:AvctpChannel')))

contract(
    'bumble.avctp:Protocol.send_message',
    prop='C19',
    params=dict(self=Inst('bumble.avctp:Protocol#tx'), transaction_label=IntRange(0, 15), is_command=Bool, ipid=Bool, pid=IntRange(0, 0xFFFF), payload=Bytes),
    ghost=dict(k=Int, sent=Bytes),
    ensures=lambda transaction_label, is_command, ipid, pid, payload, old, ghost: [
        ghost.k == old.ghost.k + 1,
        # exactly the single packet of AVCTP 6.1 (C/R 0 for a command), whatever the length
        ghost.sent == single_packet(transaction_label, 0 if is_command else 1, 1 if ipid else 0, pid, payload),
    ],
    ensures_names=['one-packet', 'single-packet-layout'],
    modifies=['ghost.k', 'ghost.sent'],
    note='bumble does not fragment AVCTP messages (TODO in the code): no MTU bound is claimed',
)
