"""C07 — LE / enhanced credit-based channels: exact byte stream, credit discipline, progress."""
import struct

from bumble import core, l2cap
from pyvc.contracts import (Any, Bool, Bytes, Callback, DequeOf, Event, Inst, Int, IntRange, ListOf, OneOf, Opaque, Opt,
                            contract, forall, iff, implies, lemma, model, at, ite)
from pyvc.ext_c07 import all_nonempty, flat, own_fresh
from spec.coc import (is_sdu_prefix, le16, ledger_ok, payload_part, rs_complete, rs_overflow, rs_pending, sdu_frame)

ENVIRONMENT = [
    'ChannelManager.send_pdu / send_control_frame (and below them Host.send_l2cap_pdu, ACL fragmentation = C05, HCI '
    'flow control = C04) are replaced by recording stubs: frames reach the peer unmodified and in order',
    'asyncio: every function of the kernel is synchronous and runs atomically (A1)',
    'the application sink does not re-enter the channel (A2); stream exactness needs the sink to be installed before the '
    'first SDU completes: an SDU completed without a sink is dropped as a whole by design (contract on_pdu@no-sink proves '
    'that such frames are still counted in the credit ledger and keep reassembly framed)',
    'write sizes and SDU lengths are >= 1 (the statement\'s quantifier): a zero-length SDU is outside the on_pdu contract '
    '(in_sdu_length == 0 doubles as "length unknown"; natively such an SDU wedges the reassembly, see notes/C07/NOTES.md)',
    'the peer announces MTU/MPS in their legal ranges (the request/response handlers do not validate them); only '
    '1 <= MTU <= 65535 and MPS >= 1 are needed by the sender proofs',
    'liveness proper (the transfer completes) needs fairness of the peer and of the scheduler; only its safety '
    'shadows are proved (no stall with credits, the peer always holds a credit after a frame, two-party ledger, no deadlock)',
    'the composition of coc_stream with the sender contract over delayed (order preserving) delivery is a paper step: '
    'the receiver state is a function of the frame sequence only, which is what coc_stream quantifies over',
    'negotiation lemmas build the manager tables in the ghost driver: at most one other channel on the connection '
    '(arbitrary endpoints), 1 or 2 channels per enhanced request / response (the specification allows 5): bounded',
    'create_le_credit_based_channel / create_enhanced_credit_based_channels / LeCreditBasedChannel.connect (async, '
    'initiator side registration after the await) are not under contract',
]

CONNECTED = int(l2cap.LeCreditBasedChannel.State.CONNECTED)
LE_SIG_CID = l2cap.L2CAP_LE_SIGNALING_CID


# ---------------------------------------------------------------------------
# collaborators (recording stubs)
# ---------------------------------------------------------------------------
def frame_fits(ghost, pdu):
    """non-empty, never larger than the peer's MPS"""
    return 1 <= len(pdu) and len(pdu) <= ghost.mps


def frame_within_sdu(ghost, pdu):
    """a frame never straddles two SDUs"""
    return not rs_overflow(ghost.rbuf + pdu)


def sdu_within_mtu(ghost, pdu):
    """no SDU larger than the peer's MTU (and none empty)"""
    b = ghost.rbuf + pdu
    return implies(len(b) >= 2, 1 <= le16(b) and le16(b) <= ghost.mtu)


def frame_ok(ghost, pdu):
    """what the sender guarantees for every frame it emits, relative to the SDU in progress at the receiver"""
    return frame_fits(ghost, pdu) and frame_within_sdu(ghost, pdu) and sdu_within_mtu(ghost, pdu)


def spec_rx_step(ghost, pdu):
    """the *spec receiver* (spec/coc.py) consumes one K-frame"""
    b = ghost.rbuf + pdu
    done = rs_complete(b)
    ghost.rout = ghost.rout + ite(done, payload_part(b), b'')
    ghost.rn = ghost.rn + ite(done, 1, 0)
    ghost.rbuf = ite(done, b'', b)


def mgr_send_pdu(ghost, connection, cid, pdu):
    """a K-frame leaves on the data channel"""
    assert ghost.c >= 1  # the sender holds a credit
    ghost.c = ghost.c - 1
    assert cid == ghost.dcid  # on the peer's channel endpoint
    ghost.k = ghost.k + 1
    assert frame_fits(ghost, pdu)
    assert frame_within_sdu(ghost, pdu)
    assert sdu_within_mtu(ghost, pdu)
    spec_rx_step(ghost, pdu)


def mgr_send_control_frame(ghost, connection, cid, frame):
    """the only signalling frame the data path of a channel sends is a credit indication"""
    assert isinstance(frame, l2cap.L2CAP_LE_Flow_Control_Credit)
    assert cid == LE_SIG_CID
    ghost.cr_frames = ghost.cr_frames + 1
    ghost.cr_total = ghost.cr_total + frame.credits
    ghost.cr_cid = frame.cid
    ghost.cr_last = frame.credits


def mgr_next_identifier(ghost, connection):
    pass


model(
    'ghost:CocManager',
    fields={},
    methods={
        'send_pdu': Callback('send_pdu', effect=mgr_send_pdu),
        'send_control_frame': Callback('send_control_frame', effect=mgr_send_control_frame),
        'next_identifier': Callback('next_identifier', effect=mgr_next_identifier, returns=IntRange(1, 255)),
    },
)


def rx_sink(ghost, sdu):
    ghost.sunk = ghost.sunk + sdu
    ghost.nsdu = ghost.nsdu + 1
    ghost.last = sdu


model(
    'bumble.l2cap:LeCreditBasedChannel',
    fields=dict(
        manager=Inst('ghost:CocManager'),
        connection=Opaque('conn'),
        psm=Int,
        source_cid=IntRange(0, 0xFFFF),
        destination_cid=IntRange(0, 0xFFFF),
        mtu=Int,
        mps=Int,
        credits=Int,
        peer_mtu=Int,
        peer_mps=Int,
        peer_credits=Int,
        peer_max_credits=Int,
        peer_credits_threshold=Int,
        in_sdu=Opt(Bytes),
        in_sdu_length=Int,
        out_queue=DequeOf(Bytes),
        out_sdu=Opt(Bytes),
        sink=Opt(Callback('sink', effect=rx_sink)),
        connected=Bool,
        connection_result=Any,
        disconnection_result=Any,
        drained=Event(),
        att_mtu=Int,
        state=IntRange(0, 5),
    ),
)
CHAN = Inst('bumble.l2cap:LeCreditBasedChannel')


# ---------------------------------------------------------------------------
# receiver: on_pdu
# ---------------------------------------------------------------------------
def rx_buf(self):
    """octets of the SDU in progress (abstraction of in_sdu: None and b'' both mean none)"""
    return self.in_sdu if self.in_sdu is not None else b''


def wf_rx(self):
    """in_sdu is a proper prefix of an SDU; in_sdu_length caches its length field once 2 octets are there
    (0 = not yet known: this is why a zero-length SDU is outside the contract)"""
    b = rx_buf(self)
    return [
        implies(len(b) < 2, self.in_sdu_length == 0),
        implies(len(b) >= 2, self.in_sdu_length == le16(b) and self.in_sdu_length >= 1 and len(b) < 2 + self.in_sdu_length),
    ]


def wf_ledger(self):
    return ledger_ok(self.peer_credits, self.peer_max_credits, self.peer_credits_threshold)


RX_GHOST = dict(sunk=Bytes, nsdu=Int, last=Bytes, cr_frames=Int, cr_total=Int, cr_cid=Int, cr_last=Int)


def on_pdu_post(self, pdu, old, ghost):
    b = rx_buf(old.self) + pdu
    done = rs_complete(b)
    over = rs_overflow(b)
    refill = old.self.peer_credits - 1 <= self.peer_credits_threshold
    return [
        wf_rx(self),
        # reassembly = the step function of the specification
        iff(ghost.nsdu == old.ghost.nsdu + 1, done),
        ghost.nsdu == old.ghost.nsdu + ite(done, 1, 0),
        ghost.sunk == old.ghost.sunk + ite(done, payload_part(b), b''),
        implies(done, ghost.last == payload_part(b)),
        implies(done or over, self.in_sdu is None and self.in_sdu_length == 0),
        implies(rs_pending(b), self.in_sdu is not None and self.in_sdu == b),
        # credit ledger
        wf_ledger(self),
        self.peer_credits == ite(refill, self.peer_max_credits, old.self.peer_credits - 1),
        ghost.cr_frames == old.ghost.cr_frames + ite(refill, 1, 0),
        # names the endpoint of the device that sends the credits (Core Vol 3 Part A 4.24)
        implies(refill, ghost.cr_cid == self.source_cid and 1 <= ghost.cr_last and ghost.cr_last <= 65535),
        # conservation: what the peer may still send == what it could before - this frame + what was returned
        self.peer_credits == old.self.peer_credits - 1 + (ghost.cr_total - old.ghost.cr_total),
    ]


ON_PDU_NAMES = [
    'wf-short', 'wf-known',
    'delivered-iff-complete', 'delivered-once', 'delivered-bytes', 'last-sdu', 'clean-after-sdu', 'in-progress',
    'peer-holds-a-credit', 'ledger', 'credit-frame-iff-threshold', 'credit-frame-names-source-cid', 'credits-conserved',
]

contract(
    'bumble.l2cap:LeCreditBasedChannel.on_pdu',
    prop='C07',
    params=dict(self=CHAN, pdu=Bytes),
    ghost=RX_GHOST,
    requires=lambda self, pdu: [
        self.sink is not None,
        wf_rx(self),
        wf_ledger(self),
        self.peer_max_credits <= 65535,
        # zero-length SDUs are outside the statement (write sizes >= 1)
        implies(len(rx_buf(self) + pdu) >= 2, le16(rx_buf(self) + pdu) >= 1),
    ],
    ensures=on_pdu_post,
    ensures_names=ON_PDU_NAMES,
    modifies=['self.in_sdu', 'self.in_sdu_length', 'self.peer_credits', 'ghost.sunk', 'ghost.nsdu', 'ghost.last', 'ghost.cr_frames', 'ghost.cr_total', 'ghost.cr_cid', 'ghost.cr_last'],
    inline=['L2CAP_Control_Frame.*', 'LeCreditBasedChannel.send_control_frame', 'L2CAP_LE_Flow_Control_Credit.*'],
)


def on_pdu_no_sink_post(self, pdu, old, ghost):
    """no application sink yet: a completed SDU may be dropped as a whole (documented), but every K-frame still costs
    the peer one credit (Core Vol 3 Part A 10.1) and reassembly stays framed"""
    b = rx_buf(old.self) + pdu
    refill = old.self.peer_credits - 1 <= self.peer_credits_threshold
    return [
        wf_rx(self),
        ghost.nsdu == old.ghost.nsdu and ghost.sunk == old.ghost.sunk,
        implies(rs_complete(b) or rs_overflow(b), self.in_sdu is None and self.in_sdu_length == 0),
        implies(rs_pending(b), self.in_sdu is not None and self.in_sdu == b),
        wf_ledger(self),
        self.peer_credits == ite(refill, self.peer_max_credits, old.self.peer_credits - 1),
        ghost.cr_frames == old.ghost.cr_frames + ite(refill, 1, 0),
        implies(refill, ghost.cr_cid == self.source_cid and 1 <= ghost.cr_last and ghost.cr_last <= 65535),
        self.peer_credits == old.self.peer_credits - 1 + (ghost.cr_total - old.ghost.cr_total),
    ]


contract(
    'bumble.l2cap:LeCreditBasedChannel.on_pdu',
    key='bumble.l2cap:LeCreditBasedChannel.on_pdu@no-sink',
    prop='C07',
    params=dict(self=Inst('bumble.l2cap:LeCreditBasedChannel', sink=OneOf(None)), pdu=Bytes),
    ghost=RX_GHOST,
    requires=lambda self, pdu: [
        self.sink is None,
        wf_rx(self),
        wf_ledger(self),
        self.peer_max_credits <= 65535,
        implies(len(rx_buf(self) + pdu) >= 2, le16(rx_buf(self) + pdu) >= 1),
    ],
    ensures=on_pdu_no_sink_post,
    ensures_names=['wf-short', 'wf-known', 'nothing-delivered', 'clean-after-sdu', 'in-progress', 'peer-holds-a-credit', 'ledger',
                   'credit-frame-iff-threshold', 'credit-frame-names-source-cid', 'credits-conserved'],
    modifies=['self.in_sdu', 'self.in_sdu_length', 'self.peer_credits', 'ghost.cr_frames', 'ghost.cr_total', 'ghost.cr_cid', 'ghost.cr_last'],
    inline=['L2CAP_Control_Frame.*', 'LeCreditBasedChannel.send_control_frame', 'L2CAP_LE_Flow_Control_Credit.*'],
    note='frames that arrive before the application installed its sink (unavoidable on the initiator side when the acceptor talks first)',
)


# ---------------------------------------------------------------------------
# sender: process_output / write / on_credits / flush_output
# ---------------------------------------------------------------------------
# ghost.c     mirror of self.credits, decremented by the send stub (which asserts c >= 1)
# ghost.k     number of K-frames sent
# ghost.rbuf  spec receiver: octets of the SDU in progress;  ghost.rout: payload octets of completed SDUs
# ghost.rn    number of completed SDUs
TX_GHOST = dict(c=Int, mps=Int, mtu=Int, dcid=Int, k=Int, rbuf=Bytes, rout=Bytes, rn=Int)


def tx_rest(self):
    return self.out_sdu if self.out_sdu is not None else b''


def tx_cur(self, ghost):
    """the SDU being transmitted, whole: what the receiver already has ++ what is still to send"""
    return ghost.rbuf + tx_rest(self)


def tx_stream(self, ghost):
    """every payload octet accepted by write(), in order: delivered ++ in progress ++ waiting"""
    return ghost.rout + payload_part(tx_cur(self, ghost)) + flat(self.out_queue)


def tx_idle(self):
    return self.out_sdu is None and len(self.out_queue) == 0


def tx_params(self, ghost):
    return [
        1 <= self.peer_mtu,
        self.peer_mtu <= 65535,
        1 <= self.peer_mps,
        ghost.mps == self.peer_mps,
        ghost.mtu == self.peer_mtu,
        ghost.dcid == self.destination_cid,
    ]


def wf_tx_core(self, ghost):
    q = self.out_queue
    cur = tx_cur(self, ghost)
    return [
        self.credits >= 0,
        # a started SDU is a whole frame le16(n) ++ payload, 1 <= n <= peer MTU, with at least one octet left to send
        implies(self.out_sdu is None, len(ghost.rbuf) == 0),
        implies(self.out_sdu is not None, len(tx_rest(self)) >= 1 and len(cur) >= 3 and len(cur) == 2 + le16(cur) and le16(cur) <= self.peer_mtu),
        # nothing empty waits in the queue (write sizes >= 1)
        all_nonempty(q),
        # the drained flag is never set while something waits
        implies(self.drained.is_set(), tx_idle(self)),
    ]


def wf_tx(self, ghost):
    # ghost.c: credits granted by the peer and not yet used (the send stub asserts c >= 1 and takes one)
    return [ghost.c == self.credits] + wf_tx_core(self, ghost)


TX_MOD = ['self.credits', 'self.out_sdu', 'self.out_queue', 'self.drained', 'ghost.c', 'ghost.k', 'ghost.rbuf', 'ghost.rout', 'ghost.rn']


def tx_post(self, old, ghost):
    return [
        wf_tx(self, ghost),
        # nothing lost, duplicated or reordered: delivered ++ in progress ++ waiting is unchanged
        tx_stream(self, ghost) == tx_stream(old.self, old.ghost),
        # one credit per frame
        old.self.credits - self.credits == ghost.k - old.ghost.k,
        ghost.k >= old.ghost.k,
        # no stall: on return either no credit is left or nothing is left to send
        self.credits == 0 or tx_idle(self),
        # completion is signalled as soon as everything has been sent with a credit to spare
        implies(tx_idle(self) and self.credits > 0, self.drained.is_set()),
        # nothing to send: nothing is sent
        implies(tx_idle(old.self), ghost.k == old.ghost.k),
    ]


TX_POST_NAMES = ['mirror', 'credits>=0', 'no-sdu-in-progress', 'sdu-in-progress-wf', 'queue-nonempty-items', 'drained-sound',
                 'stream-preserved', 'one-credit-per-frame', 'frames-monotone', 'no-stall', 'drained-complete', 'idle-sends-nothing']


def po_outer_inv(self, old, ghost):
    return [
        tx_params(self, ghost),
        wf_tx(self, ghost),
        tx_stream(self, ghost) == tx_stream(old.self, old.ghost),
        old.self.credits - self.credits == ghost.k - old.ghost.k,
        ghost.k >= old.ghost.k,
        implies(tx_idle(old.self), tx_idle(self) and ghost.k == old.ghost.k),
    ]


def po_inner_inv(self, payload, old, ghost):
    """SDU assembly (only the queue and the local payload change: loop_modifies)"""
    q = self.out_queue
    return [
        all_nonempty(q),
        len(payload) <= self.peer_mtu,
        len(payload) >= 1 or len(q) >= 1,
        ghost.rout + payload + flat(q) == tx_stream(old.self, old.ghost),
    ]


PROCESS_OUTPUT = dict(
    params=dict(self=CHAN),
    ghost=TX_GHOST,
    requires=lambda self, ghost: [tx_params(self, ghost), wf_tx(self, ghost)],
    ensures=tx_post,
    ensures_names=TX_POST_NAMES,
    modifies=TX_MOD,
)

contract(
    'bumble.l2cap:LeCreditBasedChannel.process_output',
    prop='C07',
    invariants={0: po_outer_inv, 1: po_inner_inv},
    decreases={
        0: lambda self: 2 * self.credits + (1 if self.out_sdu is None else 0),
        1: lambda self, payload: self.peer_mtu - len(payload),
    },
    loop_locals={0: dict(payload=Bytes, chunk=Bytes, packet=Bytes), 1: dict(chunk=Bytes)},
    loop_modifies={1: ['self.out_queue']},
    inline=['LeCreditBasedChannel.send_pdu'],
    **PROCESS_OUTPUT,
)

contract('bumble.l2cap:LeCreditBasedChannel.process_output', key='bumble.l2cap:LeCreditBasedChannel.process_output@callee', **PROCESS_OUTPUT)
USE_PO = ['bumble.l2cap:LeCreditBasedChannel.process_output@callee']

contract(
    'bumble.l2cap:LeCreditBasedChannel.write',
    prop='C07',
    params=dict(self=CHAN, data=Bytes),
    ghost=TX_GHOST,
    requires=lambda self, data, ghost: [tx_params(self, ghost), wf_tx(self, ghost), len(data) >= 1],
    ensures=lambda self, data, old, ghost: [
        wf_tx(self, ghost),
        # the written octets join the stream at its end, once: delivered ++ in progress ++ waiting grows by exactly data
        tx_stream(self, ghost) == tx_stream(old.self, old.ghost) + ite(old.self.state == CONNECTED, data, b''),
        old.self.credits - self.credits == ghost.k - old.ghost.k,
        ghost.k >= old.ghost.k,
        implies(old.self.state == CONNECTED, self.credits == 0 or tx_idle(self)),
        implies(old.self.state == CONNECTED and tx_idle(self) and self.credits > 0, self.drained.is_set()),
        # not connected: the data is refused, nothing is sent
        implies(old.self.state != CONNECTED, ghost.k == old.ghost.k and self.credits == old.self.credits),
    ],
    ensures_names=['mirror', 'credits>=0', 'no-sdu-in-progress', 'sdu-in-progress-wf', 'queue-nonempty-items', 'drained-sound',
                   'stream-extended-by-data', 'one-credit-per-frame', 'frames-monotone', 'no-stall', 'drained-complete', 'refused-when-not-connected'],
    modifies=TX_MOD,
    uses=USE_PO,
)

contract(
    'bumble.l2cap:LeCreditBasedChannel.on_credits',
    prop='C07',
    params=dict(self=CHAN, credits=IntRange(0, 0xFFFF)),
    ghost=TX_GHOST,
    # the peer's credit indication has been accounted in the ghost ledger: ghost.c == credits held + credits granted
    requires=lambda self, credits, ghost: [tx_params(self, ghost), wf_tx_core(self, ghost), ghost.c == self.credits + credits],
    ensures=lambda self, credits, old, ghost: [
        wf_tx(self, ghost),
        tx_stream(self, ghost) == tx_stream(old.self, old.ghost),
        # every granted credit is either still held or was spent on exactly one frame
        old.self.credits + credits - self.credits == ghost.k - old.ghost.k,
        ghost.k >= old.ghost.k,
        self.credits == 0 or tx_idle(self),
        implies(tx_idle(self) and self.credits > 0, self.drained.is_set()),
        implies(tx_idle(old.self), ghost.k == old.ghost.k and self.credits == old.self.credits + credits),
    ],
    ensures_names=['mirror', 'credits>=0', 'no-sdu-in-progress', 'sdu-in-progress-wf', 'queue-nonempty-items', 'drained-sound',
                   'stream-preserved', 'one-credit-per-frame', 'frames-monotone', 'no-stall', 'drained-complete', 'idle-keeps-all-credits'],
    modifies=TX_MOD,
    uses=USE_PO,
)

contract(
    'bumble.l2cap:LeCreditBasedChannel.flush_output',
    prop='C07',
    params=dict(self=CHAN),
    ensures=lambda self, old: [self.out_sdu is None, len(self.out_queue) == 0, implies(old.self.drained.is_set(), self.drained.is_set())],
    ensures_names=['no-sdu', 'queue-empty', 'drained-not-cleared'],
    modifies=['self.out_sdu', 'self.out_queue', 'self.drained'],
    note='used on disconnection only: what was not sent is discarded, no stream claim; the drained flag may be set (the channel is idle afterwards) but is never cleared',
)


# ---------------------------------------------------------------------------
# construction and the connection responses (initiator side of the negotiation)
# ---------------------------------------------------------------------------
_NEW_FIELDS = ['manager', 'connection', 'psm', 'source_cid', 'destination_cid', 'mtu', 'mps', 'credits', 'peer_mtu', 'peer_mps',
               'peer_credits', 'peer_max_credits', 'peer_credits_threshold', 'in_sdu', 'in_sdu_length', 'out_queue', 'out_sdu', 'sink',
               'connected', 'connection_result', 'disconnection_result', 'drained', 'att_mtu', 'state']
# the object __init__ receives: a bare instance, NO instance attribute yet -- a read of a name __init__ did not assign
# falls back to the class attribute of the real class (as in CPython), e.g. a class-level default `out_queue = deque()`
model('bumble.l2cap:LeCreditBasedChannel#new', fields={})
INIT = int(l2cap.LeCreditBasedChannel.State.INIT)
CONNECTION_ERROR = int(l2cap.LeCreditBasedChannel.State.CONNECTION_ERROR)


def fresh_channel(self, source_cid, destination_cid, mtu, mps, credits, peer_mtu, peer_mps, peer_credits):
    """a new channel: parameters exactly as given, empty buffers, full ledger"""
    return [
        self.source_cid == source_cid,
        self.destination_cid == destination_cid,
        self.mtu == mtu,
        self.mps == mps,
        self.credits == credits,
        self.peer_mtu == peer_mtu,
        self.peer_mps == peer_mps,
        self.peer_credits == peer_credits,
        self.peer_max_credits == peer_credits,
        self.peer_credits_threshold == peer_credits // 2,
        self.in_sdu is None,
        self.in_sdu_length == 0,
        len(self.out_queue) == 0,
        self.out_sdu is None,
        self.sink is None,
        self.drained.is_set(),
    ]


FRESH_NAMES = ['source_cid', 'destination_cid', 'mtu', 'mps', 'credits', 'peer_mtu', 'peer_mps', 'peer_credits', 'peer_max_credits',
               'threshold', 'no-sdu-in', 'sdu-length-unknown', 'queue-empty', 'no-sdu-out', 'no-sink', 'drained']

contract(
    'bumble.l2cap:LeCreditBasedChannel.__init__',
    prop='C07',
    params=dict(
        self=Inst('bumble.l2cap:LeCreditBasedChannel#new'),
        manager=Inst('ghost:CocManager'),
        connection=Opaque('conn'),
        psm=Int,
        source_cid=IntRange(0, 0xFFFF),
        destination_cid=IntRange(0, 0xFFFF),
        mtu=Int,
        mps=Int,
        credits=Int,
        peer_mtu=Int,
        peer_mps=Int,
        peer_credits=Int,
        connected=Bool,
    ),
    ensures=lambda self, source_cid, destination_cid, mtu, mps, credits, peer_mtu, peer_mps, peer_credits, connected, psm: fresh_channel(
        self, source_cid, destination_cid, mtu, mps, credits, peer_mtu, peer_mps, peer_credits
    )
    + [
        self.psm == psm,
        self.state == (CONNECTED if connected else INIT),
        # the representation invariants of both directions hold from the start
        wf_rx(self),
        implies(peer_credits >= 1, wf_ledger(self)),
        # the mutable per-channel objects belong to THIS channel: assigned by __init__ to the instance and created
        # by this call (a class-level default would be one object shared by every channel: bytes written to one
        # channel would leave on another -- the stream claim of every channel rests on its own out_queue)
        own_fresh(self, 'out_queue'),
        own_fresh(self, 'drained'),
        # everything else the other contracts read as per-channel state is set on the instance or is an immutable default
        self.connection_result is None and self.disconnection_result is None,
    ],
    ensures_names=FRESH_NAMES + ['psm', 'state', 'wf-short', 'wf-known', 'ledger', 'out-queue-is-this-channels-own-new-deque',
                                 'drained-is-this-channels-own-new-event', 'no-result-futures-yet'],
    modifies=['self.*'],
    inline=['EventEmitter.__init__', '*EventEmitter.__init__'],
)

model(
    'bumble.l2cap:L2CAP_LE_Credit_Based_Connection_Response',
    fields=dict(identifier=IntRange(0, 255), destination_cid=IntRange(0, 0xFFFF), mtu=IntRange(0, 0xFFFF), mps=IntRange(0, 0xFFFF), initial_credits=IntRange(0, 0xFFFF), result=IntRange(0, 0xFFFF)),
)


def fut_set_result(ghost, value):
    ghost.resolved = ghost.resolved + 1


def fut_set_exception(ghost, exc):
    ghost.failed = ghost.failed + 1


model('ghost:Future', fields={}, methods={'set_result': Callback('set_result', effect=fut_set_result), 'set_exception': Callback('set_exception', effect=fut_set_exception)})


def chan_emit(ghost, event, *args):
    ghost.events = ghost.events + 1


model(
    'bumble.l2cap:LeCreditBasedChannel#conn',
    fields=dict(
        destination_cid=IntRange(0, 0xFFFF),
        credits=Int,
        peer_mtu=Int,
        peer_mps=Int,
        connected=Bool,
        connection_result=Opt(Inst('ghost:Future')),
        state=IntRange(0, 5),
        # only read by log lines (needed when a counter-model is replayed natively)
        source_cid=IntRange(0, 0xFFFF), psm=Int, mtu=Int, mps=Int, peer_credits=Int,
    ),
    methods={'emit': Callback('emit', effect=chan_emit)},
)
LE_OK = int(l2cap.L2CAP_LE_Credit_Based_Connection_Response.Result.CONNECTION_SUCCESSFUL)

contract(
    'bumble.l2cap:LeCreditBasedChannel.on_connection_response',
    prop='C07',
    params=dict(self=Inst('bumble.l2cap:LeCreditBasedChannel#conn'), response=Inst('bumble.l2cap:L2CAP_LE_Credit_Based_Connection_Response')),
    ghost=dict(resolved=Int, failed=Int, events=Int),
    ensures=lambda self, response, old, ghost: [
        # accepted: the channel takes the peer's endpoint, MTU, MPS and initial credits exactly as on the wire
        implies(
            old.self.connection_result is not None and response.result == LE_OK,
            self.destination_cid == response.destination_cid
            and self.peer_mtu == response.mtu
            and self.peer_mps == response.mps
            and self.credits == response.initial_credits
            and self.state == CONNECTED
            and ghost.resolved == old.ghost.resolved + 1,
        ),
        # refused: nothing of the response is taken over, the waiter gets the error
        implies(
            old.self.connection_result is not None and response.result != LE_OK,
            self.destination_cid == old.self.destination_cid and self.credits == old.self.credits and self.state == CONNECTION_ERROR and ghost.failed == old.ghost.failed + 1,
        ),
        # unexpected: ignored
        implies(old.self.connection_result is None, self.destination_cid == old.self.destination_cid and self.credits == old.self.credits and self.state == old.self.state),
        self.connection_result is None,
        # the waiter is released exactly once, with the right outcome
        ghost.resolved == old.ghost.resolved + ite(old.self.connection_result is not None and response.result == LE_OK, 1, 0),
        ghost.failed == old.ghost.failed + ite(old.self.connection_result is not None and response.result != LE_OK, 1, 0),
    ],
    ensures_names=['accepted-parameters-as-on-the-wire', 'refused', 'unexpected-ignored', 'waiter-cleared', 'resolved-once', 'failed-once'],
    modifies=['self.destination_cid', 'self.peer_mtu', 'self.peer_mps', 'self.credits', 'self.connected', 'self.state', 'self.connection_result', 'ghost.resolved', 'ghost.failed', 'ghost.events'],
    inline=['LeCreditBasedChannel._change_state', 'L2capError.__init__', 'ProtocolError.__init__', 'BaseError.__init__'],
)

model(
    'bumble.l2cap:L2CAP_Credit_Based_Connection_Response',
    fields=dict(identifier=IntRange(0, 255), mtu=IntRange(0, 0xFFFF), mps=IntRange(0, 0xFFFF), initial_credits=IntRange(0, 0xFFFF), result=IntRange(0, 0xFFFF), destination_cid=ListOf(IntRange(0, 0xFFFF))),
)
ECRED_OK = int(l2cap.L2CAP_Credit_Based_Connection_Response.Result.ALL_CONNECTIONS_SUCCESSFUL)

contract(
    'bumble.l2cap:LeCreditBasedChannel.on_enhanced_connection_response',
    prop='C07',
    params=dict(self=Inst('bumble.l2cap:LeCreditBasedChannel#conn'), destination_cid=IntRange(0, 0xFFFF), response=Inst('bumble.l2cap:L2CAP_Credit_Based_Connection_Response')),
    ghost=dict(events=Int),
    ensures=lambda self, destination_cid, response, old, ghost: [
        implies(
            response.result == ECRED_OK,
            self.destination_cid == destination_cid
            and self.peer_mtu == response.mtu
            and self.peer_mps == response.mps
            and self.credits == response.initial_credits
            and self.state == CONNECTED,
        ),
        implies(response.result != ECRED_OK, self.destination_cid == old.self.destination_cid and self.credits == old.self.credits and self.state == CONNECTION_ERROR),
    ],
    ensures_names=['accepted-parameters-as-on-the-wire', 'refused'],
    modifies=['self.destination_cid', 'self.peer_mtu', 'self.peer_mps', 'self.credits', 'self.connected', 'self.state', 'ghost.events'],
    inline=['LeCreditBasedChannel._change_state'],
)

model('bumble.l2cap:LeCreditBasedChannelSpec', fields=dict(psm=Opt(Int), mtu=Int, mps=Int, max_credits=Int))

contract(
    'bumble.l2cap:LeCreditBasedChannelSpec.__post_init__',
    prop='C07',
    params=dict(self=Inst('bumble.l2cap:LeCreditBasedChannelSpec')),
    # a specification object exists only with parameters in the legal ranges (Core Vol 3 Part A 4.22)
    ensures=lambda self: [1 <= self.max_credits and self.max_credits <= 65535, 23 <= self.mtu and self.mtu <= 65535, 23 <= self.mps and self.mps <= 65533],
    ensures_names=['credits-1..65535', 'mtu-23..65535', 'mps-23..65533'],
    raises={core.InvalidArgumentError: lambda self: [not (1 <= self.max_credits and self.max_credits <= 65535 and 23 <= self.mtu and self.mtu <= 65535 and 23 <= self.mps and self.mps <= 65533)]},
    modifies=[],
    inline=['BaseError.__init__', 'InvalidArgumentError.__init__'],
)


# ---------------------------------------------------------------------------
# negotiation (acceptor side) and routing of the later credit indications / data PDUs
# ---------------------------------------------------------------------------
def mgr_sig(ghost, connection, cid, frame):
    ghost.sig_n = ghost.sig_n + 1
    ghost.sig_chan = cid
    ghost.sig = frame


def srv_on_connection(ghost, channel):
    ghost.accepted_n = ghost.accepted_n + 1
    ghost.accepted_prev = ghost.accepted
    ghost.accepted = channel


model('ghost:Conn', fields=dict(handle=IntRange(0, 0xEFF)))
model(
    'bumble.l2cap:LeCreditBasedChannelServer',
    # a server exists only through create_le_credit_based_server(spec): parameters in the legal ranges (Spec.__post_init__)
    fields=dict(psm=Int, max_credits=IntRange(1, 65535), mtu=IntRange(23, 65535), mps=IntRange(23, 65533)),
    methods={'on_connection': Callback('on_connection', effect=srv_on_connection)},
)
model(
    'bumble.l2cap:ChannelManager',
    fields=dict(channels=Any, le_coc_channels=Any, le_coc_servers=Any, pending_credit_based_connections=Any),
    methods={'send_control_frame': Callback('send_control_frame', effect=mgr_sig), 'send_pdu': Callback('send_pdu', effect=mgr_send_pdu)},
)
model(
    'bumble.l2cap:L2CAP_LE_Credit_Based_Connection_Request',
    fields=dict(identifier=IntRange(0, 255), le_psm=IntRange(0, 0xFFFF), source_cid=IntRange(0, 0xFFFF), mtu=IntRange(0, 0xFFFF), mps=IntRange(0, 0xFFFF), initial_credits=IntRange(0, 0xFFFF)),
)
MGR = Inst('bumble.l2cap:ChannelManager')
SERVER = Inst('bumble.l2cap:LeCreditBasedChannelServer')
NEG_GHOST = dict(sig_n=Int, sig_chan=Int, sig=Any, accepted_n=Int, accepted=Any, accepted_prev=Any, **TX_GHOST)
LE_CID_FIRST = l2cap.L2CAP_LE_U_DYNAMIC_CID_RANGE_START
LE_RESULT = l2cap.L2CAP_LE_Credit_Based_Connection_Response.Result


def setup_tables(mgr, h, psm, server, has_server, other, has_other):
    """the manager's tables before the request: a server on the PSM or none; no channel on this connection, or one
    (any local / peer endpoint), registered the way an established channel is: by its source CID in `channels`, by the
    peer's CID in `le_coc_channels`"""
    mgr.le_coc_servers = {}
    if has_server:
        mgr.le_coc_servers[psm] = server
    mgr.channels = {}
    mgr.le_coc_channels = {}
    if has_other:
        row = {}
        row[other.source_cid] = other
        mgr.channels[h] = row
        le_row = {}
        le_row[other.destination_cid] = other
        mgr.le_coc_channels[h] = le_row


def lemma_le_request(mgr, connection, request, server, has_server, other, has_other, grant, ghost):
    h = connection.handle
    setup_tables(mgr, h, request.le_psm, server, has_server, other, has_other)
    other_credits = other.credits

    mgr.on_l2cap_le_credit_based_connection_request(connection, LE_SIG_CID, request)

    rsp = ghost.sig
    assert ghost.sig_n == 1 and ghost.sig_chan == LE_SIG_CID  # exactly one response, on the signalling channel
    if not has_server:
        assert rsp.result == LE_RESULT.CONNECTION_REFUSED_LE_PSM_NOT_SUPPORTED
        assert ghost.accepted_n == 0
        return
    if has_other and other.destination_cid == request.source_cid:
        # the peer reuses one of its endpoints: refused, the existing channel keeps its registration
        assert rsp.result == LE_RESULT.CONNECTION_REFUSED_SOURCE_CID_ALREADY_ALLOCATED
        assert ghost.accepted_n == 0
        assert mgr.find_le_coc_channel(h, request.source_cid) is other
        return
    # accepted
    assert ghost.accepted_n == 1
    ch = ghost.accepted
    assert rsp.result == LE_RESULT.CONNECTION_SUCCESSFUL and rsp.identifier == request.identifier
    # both sides hold the same parameters: what the request carried is what the channel sends with ...
    assert ch.destination_cid == request.source_cid
    assert ch.peer_mtu == request.mtu and ch.peer_mps == request.mps and ch.credits == request.initial_credits
    # ... and what the response announces is what the channel receives with
    assert rsp.destination_cid == ch.source_cid and rsp.mtu == ch.mtu and rsp.mps == ch.mps and rsp.initial_credits == ch.peer_credits
    assert ch.mtu == server.mtu and ch.mps == server.mps and ch.peer_credits == server.max_credits and ch.peer_max_credits == server.max_credits
    assert ch.state == CONNECTED
    assert LE_CID_FIRST <= ch.source_cid and ch.source_cid <= LE_CID_FIRST + 1
    assert not (has_other and ch.source_cid == other.source_cid)
    # data PDUs: the peer addresses them to the endpoint named in the response
    assert mgr.find_channel(h, rsp.destination_cid) is ch
    # credit indications: the peer names ITS endpoint (Core Vol 3 Part A 4.24), equal to our allocation or not
    mgr.on_l2cap_le_flow_control_credit(connection, LE_SIG_CID, l2cap.L2CAP_LE_Flow_Control_Credit(identifier=1, cid=request.source_cid, credits=grant))
    assert ch.credits == request.initial_credits + grant
    assert other.credits == other_credits



def neg_requires(request, server, other, has_other, grant, ghost):
    return [
        ghost.sig_n == 0,
        ghost.accepted_n == 0,
        # the request carries parameters in their legal ranges (the statement's quantifier)
        23 <= request.mtu,
        23 <= request.mps and request.mps <= 65533,
        # ghost ledger of the channel about to be created (see on_credits): credits granted so far
        ghost.c == request.initial_credits + grant,
        ghost.mps == request.mps,
        ghost.mtu == request.mtu,
        ghost.dcid == request.source_cid,
        len(ghost.rbuf) == 0,
        # an established channel (if any) on the same connection
        implies(has_other, other.state == CONNECTED),
    ]


lemma(
    'coc_le_request_then_credit',
    lemma_le_request,
    prop='C07',
    params=dict(mgr=MGR, connection=Inst('ghost:Conn'), request=Inst('bumble.l2cap:L2CAP_LE_Credit_Based_Connection_Request'), server=SERVER,
                has_server=Bool, other=CHAN, has_other=Bool, grant=IntRange(0, 0xFFFF)),
    ghost=NEG_GHOST,
    requires=neg_requires,
    uses=['bumble.l2cap:LeCreditBasedChannel.on_credits'],
    inline=['ChannelManager.on_l2cap_le_credit_based_connection_request', 'ChannelManager.on_l2cap_le_flow_control_credit', 'ChannelManager.find_le_coc_channel',
            'ChannelManager.find_channel', 'ChannelManager.find_free_le_cid', 'ChannelManager.find_free_le_cids', 'LeCreditBasedChannel.__init__',
            'L2CAP_Control_Frame.*', 'L2CAP_LE_Credit_Based_Connection_Response.*', 'L2CAP_LE_Flow_Control_Credit.*'],
)


# --- enhanced credit based connection request (up to 5 channels per request; here 1 and 2: bounded) ---------------
from pyvc.contracts import ConcList  # noqa: E402

ECRED_RESULT = l2cap.L2CAP_Credit_Based_Connection_Response.Result


def lemma_enhanced_request(mgr, connection, request, server, has_server, other, has_other, which, grant, ghost):
    h = connection.handle
    n = len(request.source_cid)
    setup_tables(mgr, h, request.spsm, server, has_server, other, has_other)
    other_credits = other.credits

    mgr.on_l2cap_credit_based_connection_request(connection, LE_SIG_CID, request)

    rsp = ghost.sig
    assert ghost.sig_n == 1 and ghost.sig_chan == LE_SIG_CID
    if not has_server:
        assert rsp.result == ECRED_RESULT.ALL_CONNECTIONS_REFUSED_SPSM_NOT_SUPPORTED
        assert ghost.accepted_n == 0
        return
    if has_other and other.destination_cid in request.source_cid:
        assert rsp.result == ECRED_RESULT.SOME_CONNECTIONS_REFUSED_SOURCE_CID_ALREADY_ALLOCATED
        assert ghost.accepted_n == 0
        assert mgr.find_le_coc_channel(h, other.destination_cid) is other
        return
    # accepted: one channel per requested endpoint, in the order of the request
    assert ghost.accepted_n == n
    assert rsp.result == ECRED_RESULT.ALL_CONNECTIONS_SUCCESSFUL and rsp.identifier == request.identifier
    assert len(rsp.destination_cid) == n
    ch = ghost.accepted if which == n - 1 else ghost.accepted_prev
    peer_cid = request.source_cid[which]
    assert ch.destination_cid == peer_cid
    assert ch.peer_mtu == request.mtu and ch.peer_mps == request.mps and ch.credits == request.initial_credits
    assert rsp.destination_cid[which] == ch.source_cid and rsp.mtu == ch.mtu and rsp.mps == ch.mps and rsp.initial_credits == ch.peer_credits
    assert ch.mtu == server.mtu and ch.mps == server.mps and ch.peer_credits == server.max_credits and ch.peer_max_credits == server.max_credits
    assert ch.state == CONNECTED
    assert not (has_other and ch.source_cid == other.source_cid)
    # data PDUs: addressed to the endpoint named in the response
    assert mgr.find_channel(h, rsp.destination_cid[which]) is ch
    # credit indications name the PEER's endpoint (Core Vol 3 Part A 4.24), equal to our allocation or not
    mgr.on_l2cap_le_flow_control_credit(connection, LE_SIG_CID, l2cap.L2CAP_LE_Flow_Control_Credit(identifier=1, cid=peer_cid, credits=grant))
    assert ch.credits == request.initial_credits + grant
    assert other.credits == other_credits


def enh_requires(request, server, other, has_other, which, grant, ghost):
    n = len(request.source_cid)
    return [
        ghost.sig_n == 0,
        ghost.accepted_n == 0,
        0 <= which and which < n,
        23 <= request.mtu,
        23 <= request.mps and request.mps <= 65533,
        # the requested endpoints are distinct
        implies(n == 2, request.source_cid[0] != request.source_cid[n - 1]),
        ghost.c == request.initial_credits + grant,
        ghost.mps == request.mps,
        ghost.mtu == request.mtu,
        ghost.dcid == request.source_cid[which],
        len(ghost.rbuf) == 0,
        implies(has_other, other.state == CONNECTED),
    ]


for _n in (1, 2):
    model(
        f'bumble.l2cap:L2CAP_Credit_Based_Connection_Request#{_n}',
        fields=dict(identifier=IntRange(0, 255), spsm=IntRange(0, 0xFFFF), mtu=IntRange(0, 0xFFFF), mps=IntRange(0, 0xFFFF), initial_credits=IntRange(0, 0xFFFF),
                    source_cid=ConcList(IntRange(0, 0xFFFF), _n)),
    )
    lemma(
        f'coc_enhanced_request_then_credit_{_n}',
        lemma_enhanced_request,
        prop='C07',
        params=dict(mgr=MGR, connection=Inst('ghost:Conn'), request=Inst(f'bumble.l2cap:L2CAP_Credit_Based_Connection_Request#{_n}'), server=SERVER,
                    # (the refusal for an unknown SPSM happens before the endpoints are looked at: covered by the 1-channel instance)
                    has_server=Bool if _n == 1 else OneOf(True), other=CHAN, has_other=Bool, which=IntRange(0, _n - 1), grant=IntRange(0, 0xFFFF)),
        ghost=NEG_GHOST,
        requires=enh_requires,
        uses=['bumble.l2cap:LeCreditBasedChannel.on_credits'],
        inline=['ChannelManager.on_l2cap_credit_based_connection_request', 'ChannelManager.on_l2cap_le_flow_control_credit', 'ChannelManager.find_le_coc_channel',
                'ChannelManager.find_channel', 'ChannelManager.find_free_le_cid', 'ChannelManager.find_free_le_cids', 'LeCreditBasedChannel.__init__',
                'L2CAP_Control_Frame.*', 'L2CAP_Credit_Based_Connection_Response.*', 'L2CAP_LE_Flow_Control_Credit.*'],
        note=f'bounded: {_n} channel(s) in the request (the specification allows up to 5), at most one other channel on the connection',
    )


# ---------------------------------------------------------------------------
# lemma coc_stream: the frames the sender emits, fed to the real receiver (through its contract), in order
# ---------------------------------------------------------------------------
STREAM_GHOST = dict(mps=Int, mtu=Int, rbuf=Bytes, rout=Bytes, rn=Int, **RX_GHOST)


def lemma_coc_stream(rx, frames, ghost):
    """`frames` is any sequence of K-frames; as long as each one satisfies what the sender contract guarantees
    per frame (frame_ok, asserted by the send stub of process_output against the spec receiver), the real
    receiver stays in step with the spec receiver and hands the application exactly the same octets"""
    i = 0
    while i < len(frames):
        f = frames[i]
        if not frame_ok(ghost, f):
            return
        spec_rx_step(ghost, f)
        rx.on_pdu(f)
        i = i + 1


def in_step(rx, ghost):
    return [
        rx_buf(rx) == ghost.rbuf,  # same SDU in progress
        ghost.sunk == ghost.rout,  # the application got exactly the payload octets of the completed SDUs, in order
        ghost.nsdu == ghost.rn,  # in as many sink calls as SDUs
        wf_rx(rx),
        wf_ledger(rx),  # and the peer holds a credit after every frame
    ]


lemma(
    'coc_stream',
    lemma_coc_stream,
    prop='C07',
    params=dict(rx=Inst('bumble.l2cap:LeCreditBasedChannel', sink=Callback('sink', effect=rx_sink), out_sdu=Any, connection_result=Any), frames=ListOf(Bytes)),
    ghost=STREAM_GHOST,
    requires=lambda rx, frames, ghost: in_step(rx, ghost) + [rx.peer_max_credits <= 65535],
    ensures=lambda rx, frames, old, ghost: in_step(rx, ghost),
    ensures_names=['same-sdu-in-progress', 'delivered-exactly-the-sent-payloads', 'one-sink-call-per-sdu', 'wf-short', 'wf-known', 'peer-holds-a-credit'],
    invariants={
        0: lambda rx, frames, i, old, ghost: in_step(rx, ghost)
        + [
            0 <= i,
            i <= len(frames),
            # credit conservation over the whole sequence: one credit per frame received, plus what was returned
            rx.peer_credits == old.rx.peer_credits - i + (ghost.cr_total - old.ghost.cr_total),
        ]
    },
    decreases={0: lambda frames, i: len(frames) - i},
    loop_locals={0: dict(f=Bytes)},
    modifies=['rx.in_sdu', 'rx.in_sdu_length', 'rx.peer_credits', 'ghost.sunk', 'ghost.nsdu', 'ghost.last', 'ghost.cr_frames', 'ghost.cr_total', 'ghost.cr_cid',
              'ghost.cr_last', 'ghost.rbuf', 'ghost.rout', 'ghost.rn'],
    uses=['bumble.l2cap:LeCreditBasedChannel.on_pdu'],
)


# ---------------------------------------------------------------------------
# two-party credit ledger under arbitrary (order preserving) delays: safety shadow of "the transfer completes"
# ---------------------------------------------------------------------------
# ghost.k frames sent by tx, ghost.rxn frames that reached rx (k - rxn in flight);
# ghost.cr_total credits returned by rx, ghost.cr_delivered credits that reached tx (the difference is in flight)
LEDGER_GHOST = dict(rxn=Int, cr_delivered=Int, **TX_GHOST, **RX_GHOST)
RX_SIDE = Inst('bumble.l2cap:LeCreditBasedChannel', sink=Callback('sink', effect=rx_sink), out_sdu=Any)
TX_SIDE = Inst('bumble.l2cap:LeCreditBasedChannel', sink=Any, in_sdu=Any)


def two_party_ledger(tx, rx, ghost):
    return [
        # held by the sender + on their way back + spent on frames still on their way == what the receiver still allows
        tx.credits + (ghost.cr_total - ghost.cr_delivered) + (ghost.k - ghost.rxn) == rx.peer_credits,
        ghost.cr_delivered <= ghost.cr_total,
        ghost.rxn <= ghost.k,
        tx.credits >= 0,
        wf_ledger(rx),
        # no deadlock: a sender without credits is never left alone; a frame or a credit indication is on its way
        implies(tx.credits == 0, ghost.k - ghost.rxn >= 1 or ghost.cr_total - ghost.cr_delivered >= 1),
    ]


LEDGER_NAMES = ['two-party-ledger', 'grants-in-flight>=0', 'frames-in-flight>=0', 'credits>=0', 'peer-holds-a-credit', 'no-deadlock']


def lemma_ledger_send(tx, rx, data):
    tx.write(data)


def lemma_ledger_recv(tx, rx, pdu, ghost):
    ghost.rxn = ghost.rxn + 1  # the oldest frame in flight arrives
    rx.on_pdu(pdu)


def lemma_ledger_credit(tx, rx, a, ghost):
    ghost.cr_delivered = ghost.cr_delivered + a  # a credit indication (or part of the credits in flight) arrives
    ghost.c = ghost.c + a
    tx.on_credits(a)


_LEDGER_COMMON = dict(prop='C07', ghost=LEDGER_GHOST, ensures=lambda tx, rx, ghost: two_party_ledger(tx, rx, ghost), ensures_names=LEDGER_NAMES)
_TX_MOD2 = ['tx.credits', 'tx.out_sdu', 'tx.out_queue', 'tx.drained', 'ghost.c', 'ghost.k', 'ghost.rbuf', 'ghost.rout', 'ghost.rn']
_RX_MOD2 = ['rx.in_sdu', 'rx.in_sdu_length', 'rx.peer_credits', 'ghost.sunk', 'ghost.nsdu', 'ghost.last', 'ghost.cr_frames', 'ghost.cr_total', 'ghost.cr_cid', 'ghost.cr_last']

lemma(
    'coc_ledger_send',
    lemma_ledger_send,
    params=dict(tx=TX_SIDE, rx=RX_SIDE, data=Bytes),
    requires=lambda tx, rx, data, ghost: two_party_ledger(tx, rx, ghost) + [tx_params(tx, ghost), wf_tx(tx, ghost), len(data) >= 1],
    modifies=_TX_MOD2,
    uses=['bumble.l2cap:LeCreditBasedChannel.write'],
    **_LEDGER_COMMON,
)
lemma(
    'coc_ledger_recv',
    lemma_ledger_recv,
    params=dict(tx=TX_SIDE, rx=RX_SIDE, pdu=Bytes),
    requires=lambda tx, rx, pdu, ghost: two_party_ledger(tx, rx, ghost)
    + [ghost.k - ghost.rxn >= 1, wf_rx(rx), rx.peer_max_credits <= 65535, implies(len(rx_buf(rx) + pdu) >= 2, le16(rx_buf(rx) + pdu) >= 1)],
    modifies=_RX_MOD2 + ['ghost.rxn'],
    uses=['bumble.l2cap:LeCreditBasedChannel.on_pdu'],
    **_LEDGER_COMMON,
)
lemma(
    'coc_ledger_credit',
    lemma_ledger_credit,
    params=dict(tx=TX_SIDE, rx=RX_SIDE, a=IntRange(1, 0xFFFF)),
    requires=lambda tx, rx, a, ghost: two_party_ledger(tx, rx, ghost) + [tx_params(tx, ghost), wf_tx(tx, ghost), a <= ghost.cr_total - ghost.cr_delivered],
    modifies=_TX_MOD2 + ['ghost.cr_delivered'],
    uses=['bumble.l2cap:LeCreditBasedChannel.on_credits'],
    **_LEDGER_COMMON,
)


# ---------------------------------------------------------------------------
# negotiation, initiator side: the responses reach the channel(s) that sent the request
# ---------------------------------------------------------------------------
CONN_VIEW = Inst('bumble.l2cap:LeCreditBasedChannel#conn')
model('bumble.l2cap:ChannelManager#init', fields=dict(channels=Any, le_coc_requests=Any, le_coc_channels=Any, pending_credit_based_connections=Any))


def lemma_le_response(mgr, connection, ch, request, response, known, ghost):
    """state as create_le_credit_based_channel leaves it while it waits: the channel under its source CID in
    `channels`, the request under its identifier in `le_coc_requests`"""
    h = connection.handle
    row = {}
    row[request.source_cid] = ch
    mgr.channels = {}
    mgr.channels[h] = row
    # (requests are kept per connection handle since the C09 repair of le_coc_requests)
    pending = {}
    if known:
        pending[response.identifier] = request
    mgr.le_coc_requests = {}
    mgr.le_coc_requests[h] = pending
    mgr.le_coc_channels = {}
    waiting = ch.connection_result is not None
    dcid0 = ch.destination_cid
    credits0 = ch.credits
    state0 = ch.state

    mgr.on_l2cap_le_credit_based_connection_response(connection, LE_SIG_CID, response)

    assert response.identifier not in mgr.le_coc_requests[h]  # a response is consumed once
    if known and waiting and response.result == LE_OK:
        # the initiator takes the peer's endpoint, MTU, MPS and credits exactly as in the response
        assert ch.destination_cid == response.destination_cid and ch.peer_mtu == response.mtu and ch.peer_mps == response.mps
        assert ch.credits == response.initial_credits and ch.state == CONNECTED
        assert ghost.resolved == 1 and ghost.failed == 0
        # and is addressed by the peer's CID from now on (credits, disconnection), before any other PDU is processed
        assert mgr.le_coc_channels[h][response.destination_cid] is ch
    if known and waiting and response.result != LE_OK:
        assert ch.state == CONNECTION_ERROR and ch.credits == credits0 and ghost.failed == 1 and ghost.resolved == 0
    if not known:
        assert ch.destination_cid == dcid0 and ch.credits == credits0 and ch.state == state0 and ghost.resolved == 0 and ghost.failed == 0


lemma(
    'coc_le_response',
    lemma_le_response,
    prop='C07',
    params=dict(mgr=Inst('bumble.l2cap:ChannelManager#init'), connection=Inst('ghost:Conn'), ch=CONN_VIEW,
                request=Inst('bumble.l2cap:L2CAP_LE_Credit_Based_Connection_Request'), response=Inst('bumble.l2cap:L2CAP_LE_Credit_Based_Connection_Response'), known=Bool),
    ghost=dict(resolved=Int, failed=Int, events=Int),
    requires=lambda ghost: [ghost.resolved == 0, ghost.failed == 0],
    uses=['bumble.l2cap:LeCreditBasedChannel.on_connection_response'],
    inline=['ChannelManager.on_l2cap_le_credit_based_connection_response', 'ChannelManager.find_channel'],
)


def lemma_enhanced_response(mgr, connection, ch0, ch1, response, known, ghost):
    """state as create_enhanced_credit_based_channels leaves it while it waits: (future, [channels]) under the
    request identifier in `pending_credit_based_connections[handle]`"""
    h = connection.handle
    mgr.pending_credit_based_connections = {}
    if known:
        row = {}
        row[response.identifier] = (ghost.fut, [ch0, ch1])
        mgr.pending_credit_based_connections[h] = row
    s0 = ch0.state
    s1 = ch1.state

    mgr.on_l2cap_credit_based_connection_response(connection, LE_SIG_CID, response)

    if known and response.result == ECRED_RESULT.ALL_CONNECTIONS_SUCCESSFUL:
        # the i-th channel of the request gets the i-th endpoint of the response, and the common parameters
        assert ch0.destination_cid == response.destination_cid[0] and ch1.destination_cid == response.destination_cid[1]
        assert ch0.peer_mtu == response.mtu and ch0.peer_mps == response.mps and ch0.credits == response.initial_credits and ch0.state == CONNECTED
        assert ch1.peer_mtu == response.mtu and ch1.peer_mps == response.mps and ch1.credits == response.initial_credits and ch1.state == CONNECTED
        assert ghost.resolved == 1 and ghost.failed == 0
    if known and response.result != ECRED_RESULT.ALL_CONNECTIONS_SUCCESSFUL:
        assert ch0.state == CONNECTION_ERROR and ch1.state == CONNECTION_ERROR and ghost.failed == 1 and ghost.resolved == 0
    if not known:
        assert ch0.state == s0 and ch1.state == s1 and ghost.resolved == 0 and ghost.failed == 0


model(
    'bumble.l2cap:L2CAP_Credit_Based_Connection_Response#2',
    fields=dict(identifier=IntRange(0, 255), mtu=IntRange(0, 0xFFFF), mps=IntRange(0, 0xFFFF), initial_credits=IntRange(0, 0xFFFF),
                result=OneOf(*list(ECRED_RESULT)), destination_cid=ConcList(IntRange(0, 0xFFFF), 2)),
)
lemma(
    'coc_enhanced_response_2',
    lemma_enhanced_response,
    prop='C07',
    params=dict(mgr=Inst('bumble.l2cap:ChannelManager#init'), connection=Inst('ghost:Conn'), ch0=CONN_VIEW, ch1=CONN_VIEW,
                response=Inst('bumble.l2cap:L2CAP_Credit_Based_Connection_Response#2'), known=Bool),
    ghost=dict(resolved=Int, failed=Int, events=Int, fut=Inst('ghost:Future')),
    requires=lambda ghost: [ghost.resolved == 0, ghost.failed == 0],
    uses=['bumble.l2cap:LeCreditBasedChannel.on_enhanced_connection_response'],
    inline=['ChannelManager.on_l2cap_credit_based_connection_response', 'L2capError.__init__', 'ProtocolError.__init__', 'BaseError.__init__'],
    note='bounded: a request for 2 channels answered with 2 endpoints (the specification allows up to 5)',
)
