"""C16 -- teardown is complete, part 1: *state is gone*.

Every layer's teardown function removes the entry of the closed handle / bearer from the registry it owns and
changes nothing else (frame).
"""
import asyncio

from bumble import gatt_client as _gatt_client
from bumble import hci
from bumble import host as _host
from bumble import l2cap as _l2cap
from pyvc import ext_c13
from pyvc import ext_c16  # noqa: F401  (iteration over symbolic maps)
from pyvc.ext_c16 import forall_keys
from pyvc.contracts import (Any, Bool, Bytes, Callback, Const, DequeOf, EmptyDict, Event, Inst, Int, IntRange, ListOf, MapOf, OneOf, Opaque, Opt, TupleOf, contract,
                            forall, iff, implies, lemma, mget, mhas, model)

from contracts.c16_env import Fut, CANCELLED, EXCEPTION, FUT, FUT_INLINE, PENDING, RESULT, fst, fut_released

ENVIRONMENT = [
    'C16: the cross-layer fan-out Disconnection_Complete -> Host.on_hci_disconnection_complete_event -> emit("disconnection") -> '
    '{Device.on_disconnection -> connection.emit("disconnection") -> {cancel_on_disconnection waiters, smp.Session, gatt Client}, '
    'gatt Server.on_disconnection; ChannelManager.on_disconnection -> channel.abort()} is NOT composed by the prover: each function is '
    'proved against recording stubs of its callees / listeners, and pyee delivering an emitted event to every registered listener is '
    'environment.  Checked: Device subscribes to the host events by reflection (device_host_event_handlers, at import), '
    'ChannelManager.host.setter and gatt Client.__init__ by lemmas; smp.Session.__init__ (connection.on(EVENT_DISCONNECTION, ...)) is not',
    'C16: "a cut at every message boundary, under every schedule" is replaced by: at every await of the procedures under contract the '
    'teardown of the owning layer is run on the state the procedure has built so far (contracts/c16_waiters.py) -- this relies on A1 '
    '(code between two awaits is atomic); interleavings of two procedures on the same object are not enumerated',
    'C16: listeners / callbacks invoked by the teardown functions (connection.emit, channel.emit, DataPacketQueue callbacks) do not raise '
    'and do not re-enter the object (A2); an exception out of a listener of Host.emit("disconnection") would skip the host clean-up '
    '(that Device.on_disconnection and ChannelManager.on_disconnection raise nothing is proved)',
    'C16: table representation invariants assumed as preconditions, not proved here: a link is stored under its own handle in '
    'Device.connections / sco_links / cis_links; a channel under its own source CID in ChannelManager.channels[h] and under its peer CID '
    'in le_coc_channels[h] (C09 proves the L2CAP one); controller connections under their own peer address; a handle is in at most one '
    'of the host link tables (the controller allocates handles from one space)',
    'C16: ChannelManager.on_disconnection is proved on a view of the four tables at the one key it is called with '
    '(contracts/c16_env.py:KeyView: any access with another key is a failed obligation); dict.pop/get at that key are the dict model (A4)',
    'C16: RFCOMM / SDP / AVDTP / AVCTP / HFP transactions are covered only through the L2CAP close of their channel (abort -> "close" event); '
    'their own waiters (rfcomm DLC/multiplexer futures, sdp/avdtp transaction futures) are not under contract',
]

HANDLE = IntRange(0, 0xFFFF)


# ---------------------------------------------------------------------------
# Host: Disconnection Complete, transport lost, flush
# ---------------------------------------------------------------------------
EV = {'disconnection': 1, 'disconnection_failure': 2, 'flush': 3}
Q_ACL, Q_LE, Q_ISO = 1, 2, 3


def host_emit(ghost, name, *args):
    """Host.emit: the fan-out to the listeners (Device.on_disconnection / on_flush, ChannelManager.on_disconnection:
    their own contracts below prove that no exception escapes them); records (event, handle, reason|status) in order"""
    ghost.events = ghost.events + [(EV[name], args[0] if len(args) > 0 else 0, args[1] if len(args) > 1 else 0)]


def acl_flush(ghost, handle):
    ghost.flushed = ghost.flushed + [(Q_ACL, handle)]


def le_flush(ghost, handle):
    ghost.flushed = ghost.flushed + [(Q_LE, handle)]


def iso_flush(ghost, handle):
    ghost.flushed = ghost.flushed + [(Q_ISO, handle)]


def acl_reset(ghost):
    ghost.resets = ghost.resets + [Q_ACL]


def le_reset(ghost):
    ghost.resets = ghost.resets + [Q_LE]


def iso_reset(ghost):
    ghost.resets = ghost.resets + [Q_ISO]


def flags_pop(ghost, handle, default):
    ghost.flag_pops = ghost.flag_pops + [handle]


def flags_clear(ghost):
    ghost.flag_clears = ghost.flag_clears + 1


# recording stubs for the three DataPacketQueue objects (DataPacketQueue.flush itself: contracts/c04_flow.py, C04 P4:
# no packet of the handle remains, its per-connection state is forgotten; DataPacketQueue.reset: below)
model('ghost:AclQueue#c16', fields={}, methods={'flush': Callback('flush', effect=acl_flush), 'reset': Callback('reset', effect=acl_reset)})
model('ghost:LeQueue#c16', fields={}, methods={'flush': Callback('flush', effect=le_flush), 'reset': Callback('reset', effect=le_reset)})
model('ghost:IsoQueue#c16', fields={}, methods={'flush': Callback('flush', effect=iso_flush), 'reset': Callback('reset', effect=iso_reset)})
model('ghost:IntDict#c16', fields={}, methods={'pop': Callback('pop', effect=flags_pop), 'clear': Callback('clear', effect=flags_clear)})
model('ghost:Semaphore#c16', fields={}, methods={'acquire': Callback('acquire', is_async=True), 'release': Callback('release')})
model('bumble.host:Connection#c16', fields=dict(handle=(HANDLE, 0)))
model('bumble.host:ScoLink#c16', fields=dict(connection_handle=(HANDLE, 0)))
model('bumble.host:IsoLink#c16', fields=dict(handle=(HANDLE, 0)))
model('bumble.hci:HCI_Disconnection_Complete_Event#c16', fields=dict(status=IntRange(0, 255), connection_handle=HANDLE, reason=IntRange(0, 255)))
model(
    'bumble.host:Host#c16',
    fields=dict(
        connections=MapOf('bumble.host:Connection#c16'),
        cis_links=MapOf('bumble.host:IsoLink#c16'),
        sco_links=MapOf('bumble.host:ScoLink#c16'),
        bis_links=MapOf('bumble.host:IsoLink#c16'),
        bigs=Inst('ghost:IntDict#c16'),
        link_ts_flags=Inst('ghost:IntDict#c16'),
        acl_packet_queue=Opt(Inst('ghost:AclQueue#c16')),
        le_acl_packet_queue=Opt(Inst('ghost:LeQueue#c16')),
        iso_packet_queue=Opt(Inst('ghost:IsoQueue#c16')),
        pending_response=Opt(FUT),
        command_semaphore=Inst('ghost:Semaphore#c16'),
    ),
    methods={'emit': Callback('emit', effect=host_emit)},
)
HOST = Inst('bumble.host:Host#c16')
HOST_GHOST = dict(events=ListOf(TupleOf(Int, Int, Int)), flushed=ListOf(TupleOf(Int, Int)), resets=ListOf(Int), flag_pops=ListOf(Int), flag_clears=Int, g=HANDLE)
HOST_TABLES = ['self.connections', 'self.cis_links', 'self.sco_links']


def host_links(host, h):
    """in how many of the host's link tables the handle is registered"""
    return (1 if mhas(host.connections, h) else 0) + (1 if mhas(host.cis_links, h) else 0) + (1 if mhas(host.sco_links, h) else 0)


def host_others_kept(new, old, h, g):
    return implies(g != h, iff(mhas(new.connections, g), mhas(old.connections, g)) and iff(mhas(new.cis_links, g), mhas(old.cis_links, g))
                   and iff(mhas(new.sco_links, g), mhas(old.sco_links, g)))


def host_all_kept(new, old, g):
    return iff(mhas(new.connections, g), mhas(old.connections, g)) and iff(mhas(new.cis_links, g), mhas(old.cis_links, g)) and iff(mhas(new.sco_links, g), mhas(old.sco_links, g))


def queue_flushes(host, h):
    """every data queue the host has is flushed for the handle, each once (the LE queue may be the ACL queue itself:
    DataPacketQueue.flush of a forgotten handle changes nothing, C04)"""
    return (([(Q_ACL, h)] if host.acl_packet_queue is not None else []) + ([(Q_LE, h)] if host.le_acl_packet_queue is not None else [])
            + ([(Q_ISO, h)] if host.iso_packet_queue is not None else []))


def queue_resets(host):
    return (([Q_ACL] if host.acl_packet_queue is not None else []) + ([Q_LE] if host.le_acl_packet_queue is not None else [])
            + ([Q_ISO] if host.iso_packet_queue is not None else []))


def disc_complete_post(self, event, old, ghost):
    h = event.connection_handle
    known = host_links(old.self, h) >= 1
    ok = known and event.status == 0
    return [
        # the closed handle is no longer a live link of the host (handles are unique across the three tables:
        # the controller allocates them from one space)
        implies(ok, not mhas(self.connections, h)),
        implies(ok and host_links(old.self, h) <= 1, host_links(self, h) == 0),
        # nothing else changed in the tables
        host_others_kept(self, old.self, h, ghost.g),
        implies(not ok, host_all_kept(self, old.self, h)),
        # the layers above are told exactly once (Device, ChannelManager listen to 'disconnection')
        implies(ok, ghost.events == old.ghost.events + [(1, h, event.reason)]),
        # the data queued for the handle is discarded in every queue, the ISO time-stamp flag forgotten
        implies(ok, ghost.flushed == old.ghost.flushed + queue_flushes(self, h) and ghost.flag_pops == old.ghost.flag_pops + [h]),
        # a failed disconnection: only the failure is reported
        implies(known and event.status != 0, ghost.events == old.ghost.events + [(2, h, event.status)] and ghost.flushed == old.ghost.flushed and ghost.flag_pops == old.ghost.flag_pops),
        # an unknown handle: nothing happens
        implies(not known, ghost.events == old.ghost.events and ghost.flushed == old.ghost.flushed and ghost.flag_pops == old.ghost.flag_pops),
    ]


contract(
    'bumble.host:Host.on_hci_disconnection_complete_event',
    prop='C16',
    params=dict(self=HOST, event=Inst('bumble.hci:HCI_Disconnection_Complete_Event#c16')),
    ghost=HOST_GHOST,
    ensures=disc_complete_post,
    ensures_names=['gone-from-connections', 'gone-from-every-link-table', 'other-links-kept', 'no-change-unless-success', 'listeners-told-once',
                   'every-data-queue-flushed-for-the-handle', 'failure-only-reported', 'unknown-handle-ignored'],
    modifies=HOST_TABLES + ['ghost.flag_pops', 'ghost.events', 'ghost.flushed'],
    # the host's own look-up helper (handle -> the data queue its link uses) is followed, not skipped: a clean-up that
    # goes through it instead of naming the three queues is judged by the same post (which queues were flushed)
    inline=['Host.get_data_packet_queue'],
)


def host_flushed_post(self, old, ghost):
    """after a flush (transport lost, Host.flush before a reset / power off) the host holds no link and no queued data:
    the device drops all its connections on the 'flush' event, and the controller side no longer exists"""
    return [
        ghost.events == old.ghost.events + [(3, 0, 0)],
        not mhas(self.connections, ghost.g),
        not mhas(self.cis_links, ghost.g) and not mhas(self.sco_links, ghost.g) and not mhas(self.bis_links, ghost.g),
        ghost.resets == old.ghost.resets + queue_resets(self),
    ]


FLUSHED_NAMES = ['flush-emitted-exactly-once', 'no-connection-left', 'no-other-link-left', 'every-data-queue-emptied']
FLUSH_MOD = HOST_TABLES + ['self.bis_links', 'ghost.events', 'ghost.resets', 'ghost.flag_clears']

contract(
    'bumble.host:Host.on_transport_lost',
    prop='C16',
    params=dict(self=HOST),
    ghost=HOST_GHOST,
    ensures=lambda self, old, ghost: [
        # whoever waits for an HCI response is released, with an error (not left pending, not silently cancelled)
        fut_released(self.pending_response),
        implies(fst(old.self.pending_response) == PENDING, fst(self.pending_response) == EXCEPTION),
        implies(fst(old.self.pending_response) != PENDING, fst(self.pending_response) == fst(old.self.pending_response)),
    ] + host_flushed_post(self, old, ghost),
    ensures_names=['pending-command-released', 'pending-command-failed-with-error', 'finished-response-untouched'] + FLUSHED_NAMES,
    modifies=FLUSH_MOD + ['self.pending_response.st', 'self.pending_response.exc'],
    inline=FUT_INLINE + ['TransportLostError.__init__', 'BaseBumbleError.__init__', 'Host._forget_links'],
    note='no `raises`: in whatever state the pending response future is (pending, already resolved by the response that just arrived, '
         'cancelled by its caller), no exception escapes and the flush is emitted',
)

contract(
    'bumble.host:Host.flush',
    prop='C16',
    params=dict(self=HOST),
    ghost=HOST_GHOST,
    ensures=host_flushed_post,
    ensures_names=FLUSHED_NAMES,
    modifies=FLUSH_MOD,
    inline=['Host._forget_links'],
    note='the command-semaphore protocol of flush is C03 (contracts/c03_commands.py); here: what the flush leaves behind',
)


# ---------------------------------------------------------------------------
# Device.on_disconnection / Device.on_flush
# ---------------------------------------------------------------------------
K_ACL, K_SCO, K_CIS = 1, 2, 3
EVN = {'disconnection': 1, 'disconnection_failure': 2, 'flush': 3}


def acl_emit(ghost, link, name, *args):
    ghost.link_events = ghost.link_events + [(K_ACL, link.handle, EVN[name], args[0])]
    # ghost.g is a fixed but arbitrary handle: how often *its* connection object was told
    ghost.told_g = ghost.told_g + (1 if link.handle == ghost.g and EVN[name] == 1 else 0)


def sco_emit(ghost, link, name, *args):
    ghost.link_events = ghost.link_events + [(K_SCO, link.handle, EVN[name], args[0])]


def cis_emit(ghost, link, name, *args):
    ghost.link_events = ghost.link_events + [(K_CIS, link.handle, EVN[name], args[0])]


def dev_emit(ghost, name, *args):
    ghost.dev_events = ghost.dev_events + [EVN[name]]


def gs_on_disconnection(ghost, bearer):
    """recording stub for gatt_server.Server.on_disconnection (its own contract is below)"""
    ghost.gatt_told = ghost.gatt_told + [bearer.handle]
    ghost.gatt_g = ghost.gatt_g + (1 if bearer.handle == ghost.g else 0)


model('bumble.device:Connection#c16', fields=dict(handle=(HANDLE, 0)), methods={'emit': Callback('emit', effect=acl_emit, with_self=True)})
model('bumble.device:ScoLink#c16', fields=dict(handle=(HANDLE, 0)), methods={'emit': Callback('emit', effect=sco_emit, with_self=True)})
model('bumble.device:CisLink#c16', fields=dict(handle=(HANDLE, 0)), methods={'emit': Callback('emit', effect=cis_emit, with_self=True)})
model('ghost:GattServer#c16', fields={}, methods={'on_disconnection': Callback('on_disconnection', effect=gs_on_disconnection)})
model(
    'bumble.device:Device#c16',
    fields=dict(
        connections=MapOf('bumble.device:Connection#c16'),
        sco_links=MapOf('bumble.device:ScoLink#c16'),
        cis_links=MapOf('bumble.device:CisLink#c16'),
        gatt_server=Inst('ghost:GattServer#c16'),
    ),
    methods={'emit': Callback('emit', effect=dev_emit)},
)
DEVICE = Inst('bumble.device:Device#c16')
LINK_EVENTS = ListOf(TupleOf(Int, Int, Int, Int))
DEV_GHOST = dict(link_events=LINK_EVENTS, dev_events=ListOf(Int), gatt_told=ListOf(Int), g=HANDLE, told_g=Int, gatt_g=Int)


def keyed_by_own_handle(table, h):
    """representation invariant of the link tables: the object stored under handle h carries handle h"""
    return implies(mhas(table, h), mget(table, h, 'handle') == h)


def in_tables(dev, h):
    return (1 if mhas(dev.connections, h) else 0) + (1 if mhas(dev.sco_links, h) else 0) + (1 if mhas(dev.cis_links, h) else 0)


def others_kept(new, old, h, g):
    """every other entry of the three tables is where it was (g is an arbitrary handle)"""
    return implies(
        g != h,
        iff(mhas(new.connections, g), mhas(old.connections, g)) and iff(mhas(new.sco_links, g), mhas(old.sco_links, g)) and iff(mhas(new.cis_links, g), mhas(old.cis_links, g)),
    )


contract(
    'bumble.device:Device.on_disconnection',
    prop='C16',
    params=dict(self=DEVICE, connection_handle=HANDLE, reason=IntRange(0, 255)),
    ghost=DEV_GHOST,
    requires=lambda self, connection_handle: [
        keyed_by_own_handle(self.connections, connection_handle),
        keyed_by_own_handle(self.sco_links, connection_handle),
        keyed_by_own_handle(self.cis_links, connection_handle),
    ],
    ensures=lambda self, connection_handle, reason, old, ghost: [
        # the closed handle is no longer a live connection of the device
        not mhas(self.connections, connection_handle),
        implies(in_tables(old.self, connection_handle) <= 1, in_tables(self, connection_handle) == 0),
        others_kept(self, old.self, connection_handle, ghost.g),
        # an ACL connection: the connection object is told (that is what releases every cancel_on_disconnection waiter,
        # the SMP session and the GATT client), then the GATT server is told about this bearer; exactly once each
        implies(mhas(old.self.connections, connection_handle),
                ghost.link_events == old.ghost.link_events + [(K_ACL, connection_handle, 1, reason)] and ghost.gatt_told == old.ghost.gatt_told + [connection_handle]),
        implies(not mhas(old.self.connections, connection_handle) and mhas(old.self.sco_links, connection_handle),
                ghost.link_events == old.ghost.link_events + [(K_SCO, connection_handle, 1, reason)] and ghost.gatt_told == old.ghost.gatt_told),
        implies(not mhas(old.self.connections, connection_handle) and not mhas(old.self.sco_links, connection_handle) and mhas(old.self.cis_links, connection_handle),
                ghost.link_events == old.ghost.link_events + [(K_CIS, connection_handle, 1, reason)] and ghost.gatt_told == old.ghost.gatt_told),
        implies(in_tables(old.self, connection_handle) == 0, ghost.link_events == old.ghost.link_events and ghost.gatt_told == old.ghost.gatt_told),
    ],
    ensures_names=['gone-from-connections', 'gone-from-every-link-table', 'other-links-kept', 'acl-connection-and-gatt-server-told-once',
                   'sco-link-told-once', 'cis-link-told-once', 'unknown-handle-ignored'],
    modifies=['self.connections', 'self.sco_links', 'self.cis_links', 'ghost.link_events', 'ghost.gatt_told', 'ghost.told_g', 'ghost.gatt_g'],
    decorators_ok=['host_event_handler'],
    note='host_event_handler only records the method name in device_host_event_handlers and returns the function unchanged',
)

contract(
    'bumble.device:Device.on_flush',
    prop='C16',
    params=dict(self=DEVICE),
    ghost=DEV_GHOST,
    requires=lambda self, ghost: [forall_keys(self.connections, lambda k: mget(self.connections, k, 'handle') == k)],
    ensures=lambda self, old, ghost: [
        # transport lost / host flushed: no live link is left on the device ...
        not mhas(self.connections, ghost.g),
        not mhas(self.sco_links, ghost.g),
        not mhas(self.cis_links, ghost.g),
        # ... the 'flush' event released the waiters wrapped in cancel_on_event(device, 'flush') ...
        ghost.dev_events == old.ghost.dev_events + [3],
        # ... every connection that existed was told 'disconnection' exactly once (ghost.g is arbitrary) ...
        ghost.told_g == old.ghost.told_g + (1 if mhas(old.self.connections, ghost.g) else 0),
        # ... and its GATT server state was dropped like on an ordinary disconnection
        ghost.gatt_g == old.ghost.gatt_g + (1 if mhas(old.self.connections, ghost.g) else 0),
    ],
    ensures_names=['no-connection-left', 'no-sco-link-left', 'no-cis-link-left', 'flush-event-emitted-once', 'every-connection-told-once', 'gatt-server-told-for-every-connection'],
    invariants={0: lambda self, old, ghost, _seen: [
        ghost.dev_events == old.ghost.dev_events + [3],
        ghost.told_g == old.ghost.told_g + (1 if mhas(_seen, ghost.g) else 0),
        ghost.gatt_g == old.ghost.gatt_g + (1 if mhas(_seen, ghost.g) else 0),
    ]},
    loop_modifies={0: ['ghost.link_events', 'ghost.gatt_told', 'ghost.told_g', 'ghost.gatt_g']},
    modifies=['self.connections', 'self.sco_links', 'self.cis_links', 'ghost.link_events', 'ghost.gatt_told', 'ghost.dev_events', 'ghost.told_g', 'ghost.gatt_g'],
    decorators_ok=['host_event_handler'],
    note='host_event_handler returns the function unchanged',
)


# ---------------------------------------------------------------------------
# DataPacketQueue: a task waiting in drain(handle) is released when the handle is flushed (the queue content of flush
# is C04); DataPacketQueue.reset (present on a tree with notes/C16/fix-2.diff) empties the queue
# ---------------------------------------------------------------------------
PCS = 'bumble.host:DataPacketQueue.PerConnectionState'
model(PCS + '#c16', fields=dict(in_flight=(Int, 0), drained=(Event(), False)))
model(
    'bumble.host:DataPacketQueue#c16',
    fields=dict(
        max_packet_size=Int,
        max_in_flight=Int,
        _in_flight=Int,
        _connection_state=MapOf(PCS + '#c16', default_factory=True),
        _send=Callback('_send'),
        _packets=DequeOf(TupleOf(Opaque('pkt'), Int)),
        _queued=Int,
        _completed=Int,
    ),
    methods={'emit': Callback('emit')},
)
DPQ = Inst('bumble.host:DataPacketQueue#c16')


def keep_others(entries, h):
    return [(p, x) for (p, x) in entries if x != h]


def lemma_drain_released_by_flush(q, h):
    """whoever awaits `connection_state.drained.wait()` in DataPacketQueue.drain(h) holds the Event object of the
    state registered at that time; flush(h) sets exactly that event (and forgets the state)"""
    state = q._connection_state.get(h)
    if state is not None:
        waiting_on = state.drained
        q.flush(h)
        assert waiting_on.is_set(), 'drain-waiter-released'
        assert h not in q._connection_state, 'state-forgotten'


lemma(
    'drain_released_by_flush',
    lemma_drain_released_by_flush,
    prop='C16',
    params=dict(q=DPQ, h=HANDLE),
    inline=['DataPacketQueue.flush', 'DataPacketQueue._check_queue'],
    # sending the packets that wait for other connections neither re-creates the state of h nor touches its event
    invariants={('DataPacketQueue._check_queue', 0): lambda q, h, old: [
        len(q._packets) <= len(keep_others(list(old.q._packets), h)),
        list(q._packets) == keep_others(list(old.q._packets), h)[: len(q._packets)],
        not mhas(q._connection_state, h),
        mget(q._connection_state, h, 'drained'),
    ]},
    modifies=['q._in_flight', 'q._packets', 'q._connection_state', 'q._completed'],
)


def lemma_queue_reset(q, h):
    """DataPacketQueue.reset(): nothing queued, nothing in flight, no per-connection state, and whoever waits in
    drain(h) for any connection h is released (h is arbitrary)"""
    state = q._connection_state.get(h)
    waiting_on = state.drained if state is not None else None
    q.reset()
    assert len(q._packets) == 0, 'no-packet-left'
    assert q._in_flight == 0 and q._completed == q._queued, 'nothing-in-flight-nothing-pending'
    assert h not in q._connection_state, 'state-forgotten'
    if waiting_on is not None:
        assert waiting_on.is_set(), 'drain-waiter-released'


if hasattr(_host.DataPacketQueue, 'reset'):
    lemma(
        'queue_reset',
        lemma_queue_reset,
        prop='C16',
        params=dict(q=DPQ, h=HANDLE),
        inline=['DataPacketQueue.reset'],
        invariants={('DataPacketQueue.reset', 0): lambda q, h, old, _seen: [
            forall_keys(q._connection_state, lambda k: mhas(old.q._connection_state, k)),
            forall_keys(old.q._connection_state, lambda k: mhas(q._connection_state, k)),
            implies(mhas(_seen, h), mget(q._connection_state, h, 'drained')),
        ]},
        modifies=['q._in_flight', 'q._packets', 'q._connection_state', 'q._completed'],
        note='only on a tree that has DataPacketQueue.reset (notes/C16/fix-2.diff)',
    )


# ---------------------------------------------------------------------------
# virtual controller: the link-layer end of a disconnection
# ---------------------------------------------------------------------------
def ctl_send(ghost, packet):
    """Controller.send_hci_packet: records every Disconnection Complete event handed to the host"""
    assert isinstance(packet, hci.HCI_Disconnection_Complete_Event)
    ghost.dc_events = ghost.dc_events + [(packet.status, packet.connection_handle, packet.reason)]


ADDR = Opaque('addr')  # hci.Address: hashed and compared by value; only equality matters here
model('bumble.controller:Connection#c16', fields=dict(handle=(HANDLE, 0), peer_address=(ADDR, None)))
model('bumble.controller:ScoLink#c16', fields=dict(handle=(HANDLE, 0), peer_address=(ADDR, None)))
model(
    'bumble.controller:Controller#c16',
    fields=dict(
        le_connections=MapOf('bumble.controller:Connection#c16', key=ADDR),
        classic_connections=MapOf('bumble.controller:Connection#c16', key=ADDR),
        sco_links=MapOf('bumble.controller:ScoLink#c16', key=ADDR),
    ),
    methods={'send_hci_packet': Callback('send_hci_packet', effect=ctl_send)},
)
model('bumble.controller:Connection#c16p', fields=dict(handle=HANDLE, peer_address=ADDR))
CTRL = Inst('bumble.controller:Controller#c16')
CTRL_GHOST = dict(dc_events=ListOf(TupleOf(Int, Int, Int)), a=ADDR)
REASON = IntRange(0, 255)

contract(
    'bumble.controller:Controller.on_classic_disconnected',
    prop='C16',
    params=dict(self=CTRL, peer_address=ADDR, reason=REASON),
    ghost=CTRL_GHOST,
    ensures=lambda self, peer_address, reason, old, ghost: [
        not mhas(self.classic_connections, peer_address),
        implies(ghost.a != peer_address, iff(mhas(self.classic_connections, ghost.a), mhas(old.self.classic_connections, ghost.a))),
        # the host is told exactly once, with the handle of the connection that was removed
        implies(mhas(old.self.classic_connections, peer_address),
                ghost.dc_events == old.ghost.dc_events + [(0, mget(old.self.classic_connections, peer_address, 'handle'), reason)]),
        implies(not mhas(old.self.classic_connections, peer_address), ghost.dc_events == old.ghost.dc_events),
    ],
    ensures_names=['gone-from-classic-connections', 'other-connections-kept', 'host-told-once-with-its-handle', 'unknown-peer-ignored'],
    modifies=['self.classic_connections', 'ghost.dc_events'],
)

contract(
    'bumble.controller:Controller.on_classic_sco_disconnected',
    prop='C16',
    params=dict(self=CTRL, peer_address=ADDR, reason=REASON),
    ghost=CTRL_GHOST,
    ensures=lambda self, peer_address, reason, old, ghost: [
        not mhas(self.sco_links, peer_address),
        implies(ghost.a != peer_address, iff(mhas(self.sco_links, ghost.a), mhas(old.self.sco_links, ghost.a))),
        implies(mhas(old.self.sco_links, peer_address), ghost.dc_events == old.ghost.dc_events + [(0, mget(old.self.sco_links, peer_address, 'handle'), reason)]),
        implies(not mhas(old.self.sco_links, peer_address), ghost.dc_events == old.ghost.dc_events),
    ],
    ensures_names=['gone-from-sco-links', 'other-links-kept', 'host-told-once-with-its-handle', 'unknown-peer-ignored'],
    modifies=['self.sco_links', 'ghost.dc_events'],
)

contract(
    'bumble.controller:Controller.on_le_disconnected',
    prop='C16',
    params=dict(self=CTRL, connection=Inst('bumble.controller:Connection#c16p'), reason=REASON),
    ghost=CTRL_GHOST,
    # callers (on_ll_control_pdu, on_hci_disconnect_command) pass a connection they just found in le_connections,
    # which is keyed by the peer address of the connection it holds
    requires=lambda self, connection: [mhas(self.le_connections, connection.peer_address)],
    ensures=lambda self, connection, reason, old, ghost: [
        not mhas(self.le_connections, connection.peer_address),
        implies(ghost.a != connection.peer_address, iff(mhas(self.le_connections, ghost.a), mhas(old.self.le_connections, ghost.a))),
        ghost.dc_events == old.ghost.dc_events + [(0, connection.handle, reason)],
    ],
    ensures_names=['gone-from-le-connections', 'other-connections-kept', 'host-told-once-with-its-handle'],
    modifies=['self.le_connections', 'ghost.dc_events'],
)


# ---------------------------------------------------------------------------
# GATT server: per-bearer state (a bearer is the ACL connection or an EATT channel; dict keys by object identity)
# ---------------------------------------------------------------------------
BEARER = Opaque('bearer')
model('builtins:dict#c16row', fields={})  # a row of Server.subscribers: {attribute handle: cccd bytes} (content irrelevant here)
model('asyncio.locks:Semaphore#c16', fields={})
# pending_confirmations: defaultdict(lambda: None) of futures; st is the state of the stored future, -1 for None
model('contracts.c16_env:Fut#slot', fields=dict(st=(IntRange(-1, 3), -1)))
model(
    'bumble.gatt_server:Server#c16',
    fields=dict(
        subscribers=MapOf('builtins:dict#c16row', key=BEARER),
        indication_semaphores=MapOf('asyncio.locks:Semaphore#c16', default_factory=True, key=BEARER),
        pending_confirmations=MapOf('contracts.c16_env:Fut#slot', default_factory=True, key=BEARER),
    ),
)
SERVER = Inst('bumble.gatt_server:Server#c16')


def server_state(srv, b):
    """does the server hold anything for bearer b"""
    return mhas(srv.subscribers, b) or mhas(srv.indication_semaphores, b) or mhas(srv.pending_confirmations, b)


def server_rows_kept(new, old, b):
    return (iff(mhas(new.subscribers, b), mhas(old.subscribers, b)) and iff(mhas(new.indication_semaphores, b), mhas(old.indication_semaphores, b))
            and iff(mhas(new.pending_confirmations, b), mhas(old.pending_confirmations, b)))


contract(
    'bumble.gatt_server:Server.on_disconnection',
    prop='C16',
    params=dict(self=SERVER, bearer=BEARER),
    ghost=dict(b=BEARER),
    ensures=lambda self, bearer, old, ghost: [
        not server_state(self, bearer),
        implies(ghost.b != bearer, server_rows_kept(self, old.self, ghost.b)),
    ],
    ensures_names=['no-subscription-semaphore-or-pending-confirmation-of-the-bearer', 'other-bearers-kept'],
    modifies=['self.subscribers', 'self.indication_semaphores', 'self.pending_confirmations'],
    note='the waiter of a pending confirmation is bounded by wait_for(GATT_REQUEST_TIMEOUT) in _indicate_single_bearer (c16_waiters.py)',
)


# ---------------------------------------------------------------------------
# L2CAP: ChannelManager.on_disconnection -- C16 view (the channel tables in full: C09, contracts/c09_*.py)
# ---------------------------------------------------------------------------
def rec_abort_classic(ghost, chan):
    """recording stub for the abort() of a channel registered in ChannelManager.channels[handle] (the real aborts have
    their own contracts below); ghost.c is a fixed but arbitrary CID; the channel registered under it is of either class"""
    ghost.ab_src = ghost.ab_src + (1 if chan.source_cid == ghost.c else 0)


def rec_abort_coc(ghost, chan):
    ghost.ab_dst = ghost.ab_dst + (1 if chan.destination_cid == ghost.c else 0)


CID = IntRange(0, 0xFFFF)
# a value of channels[handle] is a channel of EITHER class: classic channels, and LE credit-based channels (from the moment
# the connection request is sent, i.e. also while still CONNECTING and not yet in le_coc_channels).  `is_classic` is the
# record's class: isinstance(channel, ClassicChannel / LeCreditBasedChannel) in the code under proof is answered from it
# (pyvc/ext_c16.py KIND_CLASSES), so a teardown that treats the two classes differently is checked for both.
model('contracts.c16_env:ChannelRec#c16rec', fields=dict(source_cid=(CID, 0), is_classic=(Bool, False)),
      methods={'abort': Callback('abort', effect=rec_abort_classic, with_self=True)})
ext_c16.KIND_CLASSES['contracts.c16_env:ChannelRec#c16rec'] = ('is_classic', _l2cap.ClassicChannel, _l2cap.LeCreditBasedChannel)
model('bumble.l2cap:LeCreditBasedChannel#c16rec', fields=dict(destination_cid=(CID, 0)), methods={'abort': Callback('abort', effect=rec_abort_coc, with_self=True)})
# a value of pending_credit_based_connections[handle] is a (future, channels) pair: the record is the future
model('contracts.c16_env:Fut#pending', fields=dict(st=(IntRange(0, 3), 0), guard=(IntRange(0, 2), 0)))
ext_c16.TUPLE_VALUES['contracts.c16_env:Fut#pending'] = ('rec', 'channels')
model('contracts.c16_env:KeyView#channels', fields=dict(key=HANDLE, present=Bool, value=MapOf('contracts.c16_env:ChannelRec#c16rec')))
model('contracts.c16_env:KeyView#coc', fields=dict(key=HANDLE, present=Bool, value=MapOf('bumble.l2cap:LeCreditBasedChannel#c16rec')))
model('contracts.c16_env:KeyView#pending', fields=dict(key=HANDLE, present=Bool, value=MapOf('contracts.c16_env:Fut#pending')))
model('contracts.c16_env:KeyView#ids', fields=dict(key=HANDLE, present=Bool, value=IntRange(0, 255)))
# le_coc_requests[handle]: the LE credit-based connection requests waiting for their response on that link (only dropped here)
model('contracts.c16_env:KeyView#reqs', fields=dict(key=HANDLE, present=Bool, value=IntRange(0, 255)))
model(
    'bumble.l2cap:ChannelManager#c16',
    fields=dict(
        channels=Inst('contracts.c16_env:KeyView#channels'),
        le_coc_channels=Inst('contracts.c16_env:KeyView#coc'),
        pending_credit_based_connections=Inst('contracts.c16_env:KeyView#pending'),
        identifiers=Inst('contracts.c16_env:KeyView#ids'),
        le_coc_requests=Inst('contracts.c16_env:KeyView#reqs'),
    ),
)
MANAGER = Inst('bumble.l2cap:ChannelManager#c16')
L2_GHOST = dict(c=CID, i=IntRange(0, 255), ab_src=Int, ab_dst=Int)


def tables_of(self):
    return [self.channels, self.le_coc_channels, self.pending_credit_based_connections, self.identifiers, self.le_coc_requests]


def l2_pre(self, connection_handle):
    return [
        self.channels.key == connection_handle and self.le_coc_channels.key == connection_handle,
        self.pending_credit_based_connections.key == connection_handle and self.identifiers.key == connection_handle and self.le_coc_requests.key == connection_handle,
        # table invariant (C09): a channel is registered under its own source CID / its peer's CID
        forall_keys(self.channels.value, lambda k: mget(self.channels.value, k, 'source_cid') == k),
        forall_keys(self.le_coc_channels.value, lambda k: mget(self.le_coc_channels.value, k, 'destination_cid') == k),
    ]


def l2_emptied(self):
    return (not self.channels.present and not self.le_coc_channels.present and not self.pending_credit_based_connections.present and not self.identifiers.present
            and not self.le_coc_requests.present)


def pending_same_keys(self, old):
    inner, inner0 = self.pending_credit_based_connections.value, old.self.pending_credit_based_connections.value
    return [forall_keys(inner, lambda k: mhas(inner0, k)), forall_keys(inner0, lambda k: mhas(inner, k))]


def pending_released(self, old, i, visited):
    """the future of the pending enhanced credit-based connection request with identifier i: once visited it is
    finished (cancelled if it was pending, else as it was); before, untouched"""
    inner, inner0 = self.pending_credit_based_connections.value, old.self.pending_credit_based_connections.value
    st, st0 = mget(inner, i, 'st'), mget(inner0, i, 'st')
    return implies(mhas(inner0, i), (st == (CANCELLED if st0 == PENDING else st0)) if visited else st == st0)


contract(
    'bumble.l2cap:ChannelManager.on_disconnection',
    prop='C16',
    params=dict(self=MANAGER, connection_handle=HANDLE, reason=REASON),
    ghost=L2_GHOST,
    requires=l2_pre,
    ensures=lambda self, connection_handle, old, ghost: [
        # nothing is registered for the handle any more: channels, LE CoC channels, pending requests, identifier counter
        l2_emptied(self),
        # every channel of the connection was aborted -- including LE credit-based channels that are still CONNECTING and
        # therefore only in `channels` (ghost.c is an arbitrary CID; the channel registered under it is of arbitrary class:
        # its `is_classic` column is unconstrained) ...
        ghost.ab_src == old.ghost.ab_src + (1 if old.self.channels.present and mhas(old.self.channels.value, ghost.c) else 0),
        ghost.ab_dst == old.ghost.ab_dst + (1 if old.self.le_coc_channels.present and mhas(old.self.le_coc_channels.value, ghost.c) else 0),
        # ... and whoever waits for the answer to an enhanced credit-based connection request is released
        pending_released(self, old, ghost.i, old.self.pending_credit_based_connections.present),
    ],
    ensures_names=['tables-emptied-for-the-handle', 'every-channel-aborted-once', 'every-le-coc-channel-aborted-once', 'every-pending-request-future-released'],
    invariants={
        0: lambda self, old, ghost, _seen: [ghost.ab_src == old.ghost.ab_src + (1 if mhas(_seen, ghost.c) else 0), ghost.ab_dst == old.ghost.ab_dst],
        1: lambda self, old, ghost, _seen: [ghost.ab_dst == old.ghost.ab_dst + (1 if mhas(_seen, ghost.c) else 0)],
        2: lambda self, old, ghost, _seen: pending_same_keys(self, old) + [pending_released(self, old, ghost.i, mhas(_seen, ghost.i))],
    },
    loop_modifies={0: ['ghost.ab_src'], 1: ['ghost.ab_dst'], 2: ['self.pending_credit_based_connections.value']},
    modifies=['self.channels.present', 'self.le_coc_channels.present', 'self.pending_credit_based_connections.present', 'self.identifiers.present', 'self.le_coc_requests.present',
              'self.pending_credit_based_connections.value', 'ghost.ab_src', 'ghost.ab_dst'],
    inline=['KeyView.*'] + FUT_INLINE,
)


# ---------------------------------------------------------------------------
# L2CAP channels: abort() (link loss) releases whoever waits on the channel, in every state, without raising
# ---------------------------------------------------------------------------
def ch_emit(ghost, name, *args):
    ghost.closes = ghost.closes + (1 if name == 'close' else 0)


def mgr_on_channel_closed(ghost, channel):
    ghost.closed_told = ghost.closed_told + 1


model('ghost:ChannelManager#c16a', fields={}, methods={'on_channel_closed': Callback('on_channel_closed', effect=mgr_on_channel_closed)})
CLASSIC_STATES = tuple(int(x) for x in _l2cap.ClassicChannel.State)
LE_STATES = tuple(int(x) for x in _l2cap.LeCreditBasedChannel.State)
model(
    'bumble.l2cap:ClassicChannel#c16',
    fields=dict(state=OneOf(*_l2cap.ClassicChannel.State), connection_result=Opt(FUT), disconnection_result=Opt(FUT)),
    methods={'emit': Callback('emit', effect=ch_emit)},
)
model(
    'bumble.l2cap:LeCreditBasedChannel#c16',
    fields=dict(state=OneOf(*_l2cap.LeCreditBasedChannel.State), connection_result=Opt(FUT), disconnection_result=Opt(FUT), manager=Inst('ghost:ChannelManager#c16a'),
                out_queue=DequeOf(Bytes), out_sdu=Opt(Bytes), drained=Event()),
    methods={'emit': Callback('emit', effect=ch_emit)},
)
CH_GHOST = dict(closes=Int, closed_told=Int)

CL = _l2cap.ClassicChannel.State
LE = _l2cap.LeCreditBasedChannel.State


def lemma_classic_abort(ch, ghost):
    """link loss on a classic channel, in any state and with its two futures in any state"""
    state0, closes0 = ch.state, ghost.closes
    connecting, disconnecting = ch.connection_result, ch.disconnection_result
    connecting_state0 = fst(connecting)
    ch.abort()
    # ClassicChannel.disconnect awaits disconnection_result bare: link loss must finish it
    assert fut_released(disconnecting), 'disconnect-waiter-released'
    # connect() awaits connection_result wrapped in cancel_on_disconnection: abort may leave it alone
    assert fst(connecting) == connecting_state0 or fut_released(connecting), 'connect-waiter-left-to-cancel-on-disconnection'
    # an established (or closing) channel ends closed and says so exactly once
    if state0 == CL.OPEN or state0 == CL.WAIT_DISCONNECT:
        assert ch.state == CL.CLOSED and ghost.closes == closes0 + 1, 'open-channel-closed-once'
    else:
        assert ghost.closes == closes0, 'no-close-event-for-a-channel-that-never-opened'


lemma(
    'classic_channel_abort',
    lemma_classic_abort,
    prop='C16',
    params=dict(ch=Inst('bumble.l2cap:ClassicChannel#c16')),
    ghost=CH_GHOST,
    modifies=['ch.state', 'ch.disconnection_result', 'ch.disconnection_result.st', 'ghost.closes'],
    inline=['ClassicChannel.abort', 'ClassicChannel._change_state'] + FUT_INLINE,
    note='no exception may escape ClassicChannel.abort (it runs inside the loop of ChannelManager.on_disconnection)',
)


def lemma_le_coc_abort(ch, ghost):
    """link loss on an LE credit-based channel, in any state and with its two futures in any state (e.g. already
    cancelled because the caller of connect()/disconnect() gave up)"""
    state0, closes0, told0 = ch.state, ghost.closes, ghost.closed_told
    connecting, disconnecting = ch.connection_result, ch.disconnection_result
    ch.abort()
    # connect() and disconnect() await their futures bare: link loss must finish both
    assert fut_released(connecting) and ch.connection_result is None, 'connect-waiter-released'
    assert fut_released(disconnecting) and ch.disconnection_result is None, 'disconnect-waiter-released'
    # whoever waits in drain() is released too: nothing is left to send on a dead link
    assert len(ch.out_queue) == 0 and ch.out_sdu is None and ch.drained.is_set(), 'drain-waiter-released'
    if state0 == LE.CONNECTED or state0 == LE.DISCONNECTING:
        assert ch.state == LE.DISCONNECTED and ghost.closes == closes0 + 1 and ghost.closed_told == told0 + 1, 'connected-channel-closed-once'
    else:
        assert ghost.closes == closes0, 'no-close-event-for-a-channel-that-never-opened'


lemma(
    'le_coc_channel_abort',
    lemma_le_coc_abort,
    prop='C16',
    params=dict(ch=Inst('bumble.l2cap:LeCreditBasedChannel#c16')),
    ghost=CH_GHOST,
    modifies=['ch.state', 'ch.connection_result', 'ch.disconnection_result', 'ch.connection_result.st', 'ch.disconnection_result.st', 'ghost.closes', 'ghost.closed_told',
              'ch.out_queue', 'ch.out_sdu', 'ch.drained'],
    inline=['LeCreditBasedChannel.abort', 'LeCreditBasedChannel._change_state', 'LeCreditBasedChannel.flush_output'] + FUT_INLINE,
    note='no exception may escape LeCreditBasedChannel.abort (it runs inside the loops of ChannelManager.on_disconnection)',
)


# ---------------------------------------------------------------------------
# GATT client: the request in flight is released when its bearer goes away
# ---------------------------------------------------------------------------
model('bumble.gatt_client:Client#c16', fields=dict(pending_response=Opt(FUT), pending_request=Any))


def lemma_gatt_client_disconnection(client):
    """Client.on_disconnection is the listener of the bearer's 'disconnection' (ACL) / 'close' (EATT channel) event
    (registered in Client.__init__, see register lemma below): the future send_request waits on is finished"""
    waiting_on = client.pending_response
    state0 = fst(waiting_on)
    client.on_disconnection(0)
    assert fut_released(waiting_on), 'pending-request-released'
    assert fst(waiting_on) == (CANCELLED if state0 == PENDING else state0), 'cancelled-if-it-was-pending'


lemma(
    'gatt_client_disconnection',
    lemma_gatt_client_disconnection,
    prop='C16',
    params=dict(client=Inst('bumble.gatt_client:Client#c16')),
    modifies=['client.pending_response.st'],
    inline=['Client.on_disconnection'] + FUT_INLINE,
    note='send_request itself clears pending_request / pending_response in its finally block when the cancellation reaches it',
)


# ---------------------------------------------------------------------------
# SMP: the pairing session of the connection is forgotten
# ---------------------------------------------------------------------------
SMP_EVENTS = {'disconnection': 1, 'connection_encryption_change': 2, 'connection_encryption_key_refresh': 3}


def smp_conn_remove_listener(ghost, event, fn):
    ghost.unlistened = ghost.unlistened + [SMP_EVENTS[event]]


def smp_on_session_end(ghost, session):
    ghost.ended = ghost.ended + 1


model('bumble.device:Connection#smp', fields=dict(handle=HANDLE), methods={'remove_listener': Callback('remove_listener', effect=smp_conn_remove_listener)})
model('ghost:SmpManager#c16', fields={}, methods={'on_session_end': Callback('on_session_end', effect=smp_on_session_end)})
model('bumble.smp:Session#c16', fields=dict(connection=Inst('bumble.device:Connection#smp'), manager=Inst('ghost:SmpManager#c16')))
model('bumble.smp:Session#c16rec', fields={})
model('bumble.smp:Manager#c16', fields=dict(sessions=MapOf('bumble.smp:Session#c16rec')))

contract(
    'bumble.smp:Session.on_disconnection',
    prop='C16',
    params=dict(self=Inst('bumble.smp:Session#c16'), _=REASON),
    ghost=dict(unlistened=ListOf(Int), ended=Int),
    ensures=lambda self, old, ghost: [
        # the manager is told (it drops the session, below), once; the session stops listening to its connection
        ghost.ended == old.ghost.ended + 1,
        ghost.unlistened == old.ghost.unlistened + [1, 2, 3],
    ],
    ensures_names=['manager-told-once', 'listeners-removed'],
    modifies=['ghost.unlistened', 'ghost.ended'],
)

contract(
    'bumble.smp:Manager.on_session_end',
    prop='C16',
    params=dict(self=Inst('bumble.smp:Manager#c16'), session=Inst('bumble.smp:Session#c16')),
    ghost=dict(g=HANDLE),
    ensures=lambda self, session, old, ghost: [
        not mhas(self.sessions, session.connection.handle),
        implies(ghost.g != session.connection.handle, iff(mhas(self.sessions, ghost.g), mhas(old.self.sessions, ghost.g))),
    ],
    ensures_names=['no-session-for-the-closed-connection', 'other-sessions-kept'],
    modifies=['self.sessions'],
)


# ---------------------------------------------------------------------------
# GATT server: an EATT bearer (an LE credit-based channel) -- who tells the server when it closes?
# Device.on_disconnection hands only the ACL connection to Server.on_disconnection; for the channels accepted by
# Server.register_eatt the server itself must listen to the channel's 'close' event.
# ---------------------------------------------------------------------------
def _sem_factory():
    return 'semaphore'


def _none_factory():
    return None


model(
    'bumble.gatt_server:Server#c16e',
    fields=dict(device=Inst('contracts.c16_env:RecDevice'), subscribers=EmptyDict(None), indication_semaphores=EmptyDict(_sem_factory), pending_confirmations=EmptyDict(_none_factory)),
)


def lemma_eatt_bearer_closed(server, channel):
    server.register_eatt()
    # the L2CAP server accepts a channel on the EATT PSM and hands it to the handler register_eatt gave it
    server.device.handler(channel)
    # the bearer acquires server state: a subscription row (CCCD write), a semaphore and a confirmation slot (indication)
    server.subscribers[channel] = {}
    server.indication_semaphores.setdefault(channel, 'semaphore')
    server.pending_confirmations.setdefault(channel, None)
    # the channel closes: an L2CAP disconnection, or the link is lost (ChannelManager.on_disconnection -> abort -> 'close')
    channel.emit('close')
    assert channel not in server.subscribers, 'eatt-subscriptions-dropped'
    assert channel not in server.indication_semaphores and channel not in server.pending_confirmations, 'eatt-indication-state-dropped'


lemma(
    'eatt_bearer_closed',
    lemma_eatt_bearer_closed,
    prop='C16',
    profile='skeleton',
    params=dict(server=Inst('bumble.gatt_server:Server#c16e'), channel=Inst('contracts.c16_env:RecChannel')),
    modifies=['*'],
    inline=['Server.register_eatt', 'Server.on_disconnection', 'RecEmitter.*', 'RecChannel.*', 'RecDevice.*', 'LeCreditBasedChannelSpec.*'],
    native_setup=lambda env: _native_server_dicts(env['server']),
)


def _native_server_dicts(s):
    import asyncio
    import collections

    s.subscribers = {}
    s.indication_semaphores = collections.defaultdict(lambda: asyncio.Semaphore(1))
    s.pending_confirmations = collections.defaultdict(lambda: None)


# ---------------------------------------------------------------------------
# GATT client: Client.__init__ subscribes on_disconnection to the event that announces the end of its bearer
# ---------------------------------------------------------------------------
model('bumble.gatt_client:Client#c16new', fields={})
model('ghost:AnySemaphore#c16', fields={})
ext_c13.stub_class(asyncio.Semaphore, 'ghost:AnySemaphore#c16')  # Client.__init__ creates its request semaphore


def lemma_gatt_client_listens(client, bearer, waiting_on):
    """a client created on a bearer (ACL connection: 'disconnection'; EATT channel: 'close') has its request in flight
    cancelled when the bearer announces its end"""
    _gatt_client.Client.__init__(client, bearer)
    client.pending_response = waiting_on
    bearer.emit('close' if isinstance(bearer, _l2cap.LeCreditBasedChannel) else 'disconnection')
    assert waiting_on.st == CANCELLED, 'request-in-flight-cancelled-when-the-bearer-ends'


lemma(
    'gatt_client_listens',
    lemma_gatt_client_listens,
    prop='C16',
    params=dict(client=Inst('bumble.gatt_client:Client#c16new'), bearer=OneOf(Inst('contracts.c16_env:RecConnection'), Inst('contracts.c16_env:RecChannel')),
                waiting_on=Inst('contracts.c16_env:Fut', st=Const(PENDING), guard=Const(0))),
    modifies=['*'],
    inline=['Client.__init__', 'Client.on_disconnection', 'RecEmitter.*', 'RecChannel.*', 'RecConnection.*', 'bumble.att:is_enhanced_bearer'] + FUT_INLINE,
)


# ---------------------------------------------------------------------------
# who listens to the host's 'disconnection' / 'flush' events (the fan-out Host -> {Device, ChannelManager})
# ---------------------------------------------------------------------------
model('bumble.l2cap:ChannelManager#c16host', fields=dict(_host=Const(None)))


def lemma_l2cap_manager_listens(manager, host):
    """attaching a host to the L2CAP channel manager subscribes ChannelManager.on_disconnection to 'disconnection'"""
    _l2cap.ChannelManager.host.fset(manager, host)
    assert host.count('disconnection') == 1, 'listens-to-host-disconnection'
    assert manager._host is host, 'host-attached'


lemma(
    'l2cap_manager_listens',
    lemma_l2cap_manager_listens,
    prop='C16',
    params=dict(manager=Inst('bumble.l2cap:ChannelManager#c16host'), host=Inst('contracts.c16_env:RecEmitter')),
    modifies=['*'],
    inline=['ChannelManager.host', 'RecEmitter.*'],
)


def _device_listens():
    """Device.host.setter subscribes `on_<name>` for every name in device_host_event_handlers (filled by the
    @host_event_handler decorator at class creation): checked by reflection, a miss is a checker error"""
    from bumble import device as _device

    missing = [n for n in ('disconnection', 'flush') if n not in _device.device_host_event_handlers]
    if missing:
        raise AssertionError(f'C16: Device does not subscribe to the host events {missing}')


_device_listens()
