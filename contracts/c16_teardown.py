"""C16 -- teardown is complete, part 1: *state is gone*.

Every layer's teardown function removes the entry of the closed handle / bearer from the registry it owns and
changes nothing else (frame).
"""
from bumble import hci
from pyvc import ext_c16  # noqa: F401  (iteration over symbolic maps)
from pyvc.ext_c16 import forall_keys
from pyvc.contracts import (Any, Bool, Callback, Const, Inst, Int, IntRange, ListOf, MapOf, OneOf, Opaque, Opt, TupleOf, contract,
                            forall, iff, implies, lemma, mget, mhas, model)

ENVIRONMENT = []

HANDLE = IntRange(0, 0xFFFF)


# ---------------------------------------------------------------------------
# Host.on_hci_disconnection_complete_event
# ---------------------------------------------------------------------------
def host_emit(ghost, name, *args):
    """Host.emit: the fan-out to Device / ChannelManager listeners (their own contracts prove no exception escapes);
    records the events in order together with whether the closed handle was still registered when they ran"""
    ghost.events = ghost.events + [(EV[name], args[0], args[1])]


EV = {'disconnection': 1, 'disconnection_failure': 2, 'flush': 3}


def q_flush(ghost, handle):
    ghost.flushed = ghost.flushed + [handle]


model('bumble.host:Connection#c16', fields=dict(handle=(Int, 0)))
model('bumble.host:ScoLink#c16', fields=dict(handle=(Int, 0)))
model('bumble.host:IsoLink#c16', fields=dict(handle=(Int, 0)))
model('ghost:Queue#c16', fields={}, methods={'flush': Callback('flush', effect=q_flush)})
def flags_pop(ghost, handle, default):
    ghost.flag_pops = ghost.flag_pops + [handle]


model('ghost:Flags#c16', fields={}, methods={'pop': Callback('pop', effect=flags_pop)})
model('bumble.hci:HCI_Disconnection_Complete_Event#c16', fields=dict(status=IntRange(0, 255), connection_handle=HANDLE, reason=IntRange(0, 255)))
model(
    'bumble.host:Host#c16',
    fields=dict(
        connections=MapOf('bumble.host:Connection#c16'),
        cis_links=MapOf('bumble.host:IsoLink#c16'),
        sco_links=MapOf('bumble.host:ScoLink#c16'),
        bis_links=MapOf('bumble.host:IsoLink#c16'),
        link_ts_flags=Inst('ghost:Flags#c16'),
        acl_packet_queue=Opt(Inst('ghost:Queue#c16')),
        le_acl_packet_queue=Opt(Inst('ghost:Queue#c16')),
        iso_packet_queue=Opt(Inst('ghost:Queue#c16')),
    ),
    methods={'emit': Callback('emit', effect=host_emit)},
)

contract(
    'bumble.host:Host.on_hci_disconnection_complete_event',
    prop='C16',
    params=dict(self=Inst('bumble.host:Host#c16'), event=Inst('bumble.hci:HCI_Disconnection_Complete_Event#c16')),
    ghost=dict(events=ListOf(TupleOf(Int, Int, Int)), flushed=ListOf(Int), flag_pops=ListOf(Int), h=HANDLE),
    ensures=lambda self, event, old, ghost: [
        implies(event.status == 0, not mhas(self.connections, event.connection_handle)),
    ],
    ensures_names=['gone-from-connections'],
    modifies=['self.connections', 'self.cis_links', 'self.sco_links', 'ghost.flag_pops', 'ghost.events', 'ghost.flushed'],
)


# ---------------------------------------------------------------------------
# Device.on_disconnection / Device.on_flush
# ---------------------------------------------------------------------------
K_ACL, K_SCO, K_CIS = 1, 2, 3
EVN = {'disconnection': 1, 'disconnection_failure': 2, 'flush': 3}


def acl_emit(ghost, link, name, *args):
    ghost.link_events = ghost.link_events + [(K_ACL, link.handle, EVN[name], args[0])]
    # ghost.g is a fixed but arbitrary handle: how often *its* connection object was told
    ghost.told_g = ghost.told_g + (1 if link.handle == ghost.g and EVN[name] == 1 else 0)


def sco_emit(ghost, link, name, *args):
    ghost.link_events = ghost.link_events + [(K_SCO, link.handle, EVN[name], args[0])]


def cis_emit(ghost, link, name, *args):
    ghost.link_events = ghost.link_events + [(K_CIS, link.handle, EVN[name], args[0])]


def dev_emit(ghost, name, *args):
    ghost.dev_events = ghost.dev_events + [EVN[name]]


def gs_on_disconnection(ghost, bearer):
    """recording stub for gatt_server.Server.on_disconnection (its own contract is below)"""
    ghost.gatt_told = ghost.gatt_told + [bearer.handle]
    ghost.gatt_g = ghost.gatt_g + (1 if bearer.handle == ghost.g else 0)


model('bumble.device:Connection#c16', fields=dict(handle=(HANDLE, 0)), methods={'emit': Callback('emit', effect=acl_emit, with_self=True)})
model('bumble.device:ScoLink#c16', fields=dict(handle=(HANDLE, 0)), methods={'emit': Callback('emit', effect=sco_emit, with_self=True)})
model('bumble.device:CisLink#c16', fields=dict(handle=(HANDLE, 0)), methods={'emit': Callback('emit', effect=cis_emit, with_self=True)})
model('ghost:GattServer#c16', fields={}, methods={'on_disconnection': Callback('on_disconnection', effect=gs_on_disconnection)})
model(
    'bumble.device:Device#c16',
    fields=dict(
        connections=MapOf('bumble.device:Connection#c16'),
        sco_links=MapOf('bumble.device:ScoLink#c16'),
        cis_links=MapOf('bumble.device:CisLink#c16'),
        gatt_server=Inst('ghost:GattServer#c16'),
    ),
    methods={'emit': Callback('emit', effect=dev_emit)},
)
DEVICE = Inst('bumble.device:Device#c16')
LINK_EVENTS = ListOf(TupleOf(Int, Int, Int, Int))
DEV_GHOST = dict(link_events=LINK_EVENTS, dev_events=ListOf(Int), gatt_told=ListOf(Int), g=HANDLE, told_g=Int, gatt_g=Int)


def keyed_by_own_handle(table, h):
    """representation invariant of the link tables: the object stored under handle h carries handle h"""
    return implies(mhas(table, h), mget(table, h, 'handle') == h)


def in_tables(dev, h):
    return (1 if mhas(dev.connections, h) else 0) + (1 if mhas(dev.sco_links, h) else 0) + (1 if mhas(dev.cis_links, h) else 0)


def others_kept(new, old, h, g):
    """every other entry of the three tables is where it was (g is an arbitrary handle)"""
    return implies(
        g != h,
        iff(mhas(new.connections, g), mhas(old.connections, g)) and iff(mhas(new.sco_links, g), mhas(old.sco_links, g)) and iff(mhas(new.cis_links, g), mhas(old.cis_links, g)),
    )


contract(
    'bumble.device:Device.on_disconnection',
    prop='C16',
    params=dict(self=DEVICE, connection_handle=HANDLE, reason=IntRange(0, 255)),
    ghost=DEV_GHOST,
    requires=lambda self, connection_handle: [
        keyed_by_own_handle(self.connections, connection_handle),
        keyed_by_own_handle(self.sco_links, connection_handle),
        keyed_by_own_handle(self.cis_links, connection_handle),
    ],
    ensures=lambda self, connection_handle, reason, old, ghost: [
        # the closed handle is no longer a live connection of the device
        not mhas(self.connections, connection_handle),
        implies(in_tables(old.self, connection_handle) <= 1, in_tables(self, connection_handle) == 0),
        others_kept(self, old.self, connection_handle, ghost.g),
        # an ACL connection: the connection object is told (that is what releases every cancel_on_disconnection waiter,
        # the SMP session and the GATT client), then the GATT server is told about this bearer; exactly once each
        implies(mhas(old.self.connections, connection_handle),
                ghost.link_events == old.ghost.link_events + [(K_ACL, connection_handle, 1, reason)] and ghost.gatt_told == old.ghost.gatt_told + [connection_handle]),
        implies(not mhas(old.self.connections, connection_handle) and mhas(old.self.sco_links, connection_handle),
                ghost.link_events == old.ghost.link_events + [(K_SCO, connection_handle, 1, reason)] and ghost.gatt_told == old.ghost.gatt_told),
        implies(not mhas(old.self.connections, connection_handle) and not mhas(old.self.sco_links, connection_handle) and mhas(old.self.cis_links, connection_handle),
                ghost.link_events == old.ghost.link_events + [(K_CIS, connection_handle, 1, reason)] and ghost.gatt_told == old.ghost.gatt_told),
        implies(in_tables(old.self, connection_handle) == 0, ghost.link_events == old.ghost.link_events and ghost.gatt_told == old.ghost.gatt_told),
    ],
    ensures_names=['gone-from-connections', 'gone-from-every-link-table', 'other-links-kept', 'acl-connection-and-gatt-server-told-once',
                   'sco-link-told-once', 'cis-link-told-once', 'unknown-handle-ignored'],
    modifies=['self.connections', 'self.sco_links', 'self.cis_links', 'ghost.link_events', 'ghost.gatt_told', 'ghost.told_g', 'ghost.gatt_g'],
    decorators_ok=['host_event_handler'],
    note='host_event_handler only records the method name in device_host_event_handlers and returns the function unchanged',
)

contract(
    'bumble.device:Device.on_flush',
    prop='C16',
    params=dict(self=DEVICE),
    ghost=DEV_GHOST,
    requires=lambda self, ghost: [forall_keys(self.connections, lambda k: mget(self.connections, k, 'handle') == k)],
    ensures=lambda self, old, ghost: [
        # transport lost / host flushed: no live link is left on the device ...
        not mhas(self.connections, ghost.g),
        not mhas(self.sco_links, ghost.g),
        not mhas(self.cis_links, ghost.g),
        # ... the 'flush' event released the waiters wrapped in cancel_on_event(device, 'flush') ...
        ghost.dev_events == old.ghost.dev_events + [3],
        # ... every connection that existed was told 'disconnection' exactly once (ghost.g is arbitrary) ...
        ghost.told_g == old.ghost.told_g + (1 if mhas(old.self.connections, ghost.g) else 0),
        # ... and its GATT server state was dropped like on an ordinary disconnection
        ghost.gatt_g == old.ghost.gatt_g + (1 if mhas(old.self.connections, ghost.g) else 0),
    ],
    ensures_names=['no-connection-left', 'no-sco-link-left', 'no-cis-link-left', 'flush-event-emitted-once', 'every-connection-told-once', 'gatt-server-told-for-every-connection'],
    invariants={0: lambda self, old, ghost, _seen: [
        ghost.dev_events == old.ghost.dev_events + [3],
        ghost.told_g == old.ghost.told_g + (1 if mhas(_seen, ghost.g) else 0),
        ghost.gatt_g == old.ghost.gatt_g + (1 if mhas(_seen, ghost.g) else 0),
    ]},
    loop_modifies={0: ['ghost.link_events', 'ghost.gatt_told', 'ghost.told_g', 'ghost.gatt_g']},
    modifies=['self.connections', 'self.sco_links', 'self.cis_links', 'ghost.link_events', 'ghost.gatt_told', 'ghost.dev_events', 'ghost.told_g', 'ghost.gatt_g'],
    decorators_ok=['host_event_handler'],
    note='host_event_handler returns the function unchanged',
)
