"""C09 — lemma `reopen`: the identifiers of a closed channel can be used again.  After the peer has closed an LE
credit-based channel, a new connection request that carries the same peer CID is accepted (not refused with
"source CID already allocated"), and the local CID of the closed channel is available to the allocator again."""
from bumble import l2cap
from pyvc.contracts import Int, implies, lemma, same
from pyvc.ext_c09 import RefT, is_instance_of

from contracts.c09_close import DISC_REQ
from contracts.c09_link import chan_inv, unshared
from contracts.c09_open import DUP, LE_REQ, OK
from contracts.c09_tables import HEAP, LE, LE_CONNECTED, LE_HI, LE_LO, MGR, entry, is_le, wf


def closed_one(mgr, connection, disc_req):
    return entry(mgr.channels, connection.handle, disc_req.destination_cid)


def reopen_le(mgr, connection, cid, disc_req, new_req):
    # the peer closes the channel ...
    mgr.on_l2cap_disconnection_request(connection, cid, disc_req)
    # ... and opens a new one from the same CID on its side
    mgr.on_l2cap_le_credit_based_connection_request(connection, cid, new_req)


def reopen_pre(mgr, connection, disc_req, new_req, ghost):
    c = closed_one(mgr, connection, disc_req)
    return wf(mgr, None) + [
        chan_inv(mgr),
        unshared(ghost),
        # an established LE credit-based channel, addressed by its local CID ...
        (is_le(c) and c.state == LE_CONNECTED and LE_LO <= c.source_cid and c.source_cid <= LE_HI) if c is not None else False,
        # ... registered under the peer's CID (as the request handler / create_le_credit_based_channel leave it) ...
        same(entry(mgr.le_coc_channels, connection.handle, c.destination_cid), c) if c is not None else False,
        # ... and a new request of the peer that reuses the peer's CID, for a PSM with a server
        (new_req.source_cid == c.destination_cid) if c is not None else False,
        new_req.le_psm in mgr.le_coc_servers,
    ]


lemma(
    'reopen_le',
    reopen_le,
    prop='C09',
    params=dict(mgr=MGR, connection=RefT('conns'), cid=Int, disc_req=DISC_REQ, new_req=LE_REQ),
    ghost=HEAP,
    requires=reopen_pre,
    ensures=lambda mgr, connection, disc_req, new_req, old, ghost: [
        ghost.le_result != DUP,
        ghost.le_result == OK,
        # the smallest free local CID is handed out, so the CID of the closed channel is in reach again
        ghost.le_dcid <= closed_one(old.mgr, connection, disc_req).source_cid,
    ]
    + wf(mgr, None),
    uses=['bumble.l2cap:ChannelManager.on_l2cap_disconnection_request', 'bumble.l2cap:ChannelManager.on_l2cap_le_credit_based_connection_request'],
)
