"""C17 part 3 -- L2CAP: signalling channel parser and dispatcher on arbitrary bytes, the channel demultiplexer.

  L2CAP_Control_Frame.from_bytes   any byte string: terminates, raises only struct.error / IndexError / InvalidArgumentError
  ChannelManager.on_pdu            the per-connection demultiplexer (signalling / fixed / dynamic channel)
  ChannelManager.on_control_frame  a command without handler (unknown code included) is answered with exactly one Command
                                   Reject carrying the command's identifier; a handler that raises is answered the same way
                                   before the exception leaves
Cited, not repeated: L2CAP_PDU.from_bytes on short input (C05: InvalidPacketError iff len < 4), decode_configuration_options
termination (C18, contracts/c18_more.py), LeCreditBasedChannel.on_pdu ledger (C07).
"""
import struct

import pyvc.ext_c01  # noqa: F401
import pyvc.ext_c03  # noqa: F401
import pyvc.ext_c17  # noqa: F401
import pyvc.ext_c20  # noqa: F401
from pyvc.ext_c20 import ConcDict
from bumble import core, hci, l2cap
from pyvc.contracts import (Any, Bool, ByteArray, Bytes, Callback, ConcList, Const, Inst, Int, IntRange, ListOf, OneOf, Opt, Str,
                            TupleOf, at, contract, forall, fresh_int, iff, implies, lemma, model)

PROP = 'C17'
ENVIRONMENT = [
    'L2CAP signalling: command handlers are recording stubs that may raise (their own behaviour: C07/C08/C09); Host.send_l2cap_pdu is a recording stub (C05 below it)',
    'ChannelManager.on_pdu: fixed channels 4 and 6 registered, one dynamic channel looked up by a stub of find_channel; on_control_frame / the channel / the fixed handler are recording stubs here and have contracts of their own',
    'LeCreditBasedChannel.on_pdu@any-frame reuses the model, ghost and postcondition of contracts/c07_coc.py (C07) without its "SDU length >= 1" precondition',
]
CODEC_INLINE = ['bumble.hci:*', 'bumble.l2cap:L2CAP_*', 'bumble.core:*', 'bumble.utils:*']

model('bumble.l2cap:L2CAP_Control_Frame#17', fields=dict(code=IntRange(0, 255), identifier=IntRange(0, 255), name=Str))
contract(
    'bumble.l2cap:L2CAP_Control_Frame.from_bytes',
    key='bumble.l2cap:L2CAP_Control_Frame.from_bytes@any',
    prop=PROP,
    params=dict(cls=Const(l2cap.L2CAP_Control_Frame), pdu=Bytes),
    returns=Inst('bumble.l2cap:L2CAP_Control_Frame#17'),
    ensures=lambda pdu, res: [len(pdu) >= 4, res.code == pdu[0], res.identifier == pdu[1]],
    ensures_names=['has-a-header', 'code', 'identifier'],
    raises={struct.error: None, IndexError: None},
    modifies=[],
    inline=CODEC_INLINE,
    invariants={('L2CAP_Connection_Request.parse_psm', 0): lambda data, offset, psm_length: [psm_length >= 2, offset >= 0]},
    decreases={('L2CAP_Connection_Request.parse_psm', 0): lambda data, offset, psm_length: len(data) - offset - psm_length},
    loop_locals={('L2CAP_Connection_Request.parse_psm', 0): {'psm': Int}},
    note='T+E for every byte string',
)


# ---------------------------------------------------------------------------
# ChannelManager.on_control_frame
# ---------------------------------------------------------------------------
class HandlerFailure(Exception):
    """stands for whatever a signalling command handler raises"""


def host_send_l2cap_pdu(ghost, connection_handle, cid, pdu):
    ghost.sent = ghost.sent + [(connection_handle, cid, pdu)]


def handler_effect(ghost, connection, cid, frame):
    ghost.handled = ghost.handled + 1
    if fresh_int() == 1:
        raise HandlerFailure()


def reject_bytes(identifier):
    """Vol 3 Part A 4.1: code 0x01, identifier, length 2, reason 0x0000 (command not understood)"""
    return bytes([0x01, identifier, 0x02, 0x00, 0x00, 0x00])


model('ghost:Host17', fields={}, methods={'send_l2cap_pdu': Callback('send_l2cap_pdu', effect=host_send_l2cap_pdu)})
model('ghost:Connection17', fields=dict(handle=IntRange(0, 0xEFF), peer_address=Any))
model(
    'bumble.l2cap:ChannelManager#cf',
    fields=dict(host=Inst('ghost:Host17')),
    methods={'on_l2cap_echo_request': Callback('on_l2cap_echo_request', effect=handler_effect, raises=(HandlerFailure,))},
)


def frame_of(code, name):
    i = Inst('bumble.l2cap:L2CAP_Control_Frame#17', code=Const(code))
    i.overrides['name'] = Const(name)
    return i


FRAMES = OneOf(
    frame_of(0x08, 'L2CAP_ECHO_REQUEST'),  # a command with a handler (a recording stub that may raise)
    frame_of(0x7F, 'CommandCode[127]'),  # a code without a class: generic frame, no handler
    frame_of(0x0B, 'L2CAP_INFORMATION_RESPONSE'),  # a registered class for which the manager has no handler
)
SENT = ListOf(TupleOf(Int, Int, Bytes))


def one_reject(connection, cid, control_frame, old, ghost):
    return ghost.sent == old.ghost.sent + [(connection.handle, cid, reject_bytes(control_frame.identifier))]


contract(
    'bumble.l2cap:ChannelManager.on_control_frame',
    prop=PROP,
    params=dict(self=Inst('bumble.l2cap:ChannelManager#cf'), connection=Inst('ghost:Connection17'), cid=OneOf(1, 5), control_frame=FRAMES),
    ghost=dict(sent=SENT, handled=Int),
    ensures=lambda connection, cid, control_frame, old, ghost: [
        implies(control_frame.code != 0x08, one_reject(connection, cid, control_frame, old, ghost) and ghost.handled == old.ghost.handled),
        implies(control_frame.code == 0x08, ghost.sent == old.ghost.sent and ghost.handled == old.ghost.handled + 1),
    ],
    ensures_names=['no-handler:exactly-one-command-reject-with-the-identifier', 'handler-runs-once'],
    raises={HandlerFailure: lambda connection, cid, control_frame, old, ghost: [control_frame.code == 0x08, one_reject(connection, cid, control_frame, old, ghost)]},
    modifies=['ghost.sent', 'ghost.handled'],
    inline=CODEC_INLINE + ['ChannelManager.send_control_frame'],
    fstrings='eval',
    note='E+S: the reply is checked byte for byte against the Command Reject format of the Core specification',
)


# ---------------------------------------------------------------------------
# ChannelManager.on_pdu: every L2CAP PDU of a connection goes to exactly one consumer; bytes that do not parse as a
# signalling command raise before anything was dispatched
# ---------------------------------------------------------------------------
def note_control(ghost, connection, cid, frame):
    assert frame.code == ghost.first and frame.identifier == ghost.second
    ghost.to_signalling = ghost.to_signalling + 1


def note_fixed(ghost, handle, pdu):
    ghost.to_fixed = ghost.to_fixed + 1


def note_channel(ghost, pdu):
    ghost.to_channel = ghost.to_channel + 1


def find_channel(ghost, handle, cid):
    return ghost.channel


model('ghost:Channel17', fields={}, methods={'on_pdu': Callback('on_pdu', effect=note_channel)})
model(
    'bumble.l2cap:ChannelManager#pdu',
    fields=dict(fixed_channels=ConcDict([4, 6], Opt(Callback('fixed_channel_handler', effect=note_fixed))), host=Inst('ghost:Host17')),
    methods={'on_control_frame': Callback('on_control_frame', effect=note_control), 'find_channel': Callback('find_channel', effect=find_channel)},
)


def delivered(old, ghost, sig, fixed, chan):
    return ghost.to_signalling == old.ghost.to_signalling + sig and ghost.to_fixed == old.ghost.to_fixed + fixed and ghost.to_channel == old.ghost.to_channel + chan


def nothing(old, ghost):
    return [delivered(old, ghost, 0, 0, 0)]


contract(
    'bumble.l2cap:ChannelManager.on_pdu',
    prop=PROP,
    params=dict(self=Inst('bumble.l2cap:ChannelManager#pdu'), connection=Inst('ghost:Connection17'), cid=IntRange(0, 0xFFFF), pdu=Bytes),
    ghost=dict(to_signalling=Int, to_fixed=Int, to_channel=Int, channel=Opt(Inst('ghost:Channel17')), first=Int, second=Int),
    requires=lambda self, pdu, ghost: [ghost.first == at(pdu, 0), ghost.second == at(pdu, 1)],
    ensures=lambda self, cid, pdu, old, ghost: [
        implies(cid == 1 or cid == 5, delivered(old, ghost, 1, 0, 0) and len(pdu) >= 4),
        implies(cid == 4 or cid == 6, delivered(old, ghost, 0, 1, 0)),
        implies(cid != 1 and cid != 5 and cid != 4 and cid != 6, delivered(old, ghost, 0, 0, 1 if ghost.channel is not None else 0)),
    ],
    ensures_names=['signalling-cid:parsed-and-dispatched-once', 'fixed-channel:handler-once', 'dynamic-cid:channel-once-or-dropped'],
    raises={
        struct.error: lambda cid, old, ghost: nothing(old, ghost) + [cid == 1 or cid == 5],
        IndexError: lambda cid, old, ghost: nothing(old, ghost) + [cid == 1 or cid == 5],
        AssertionError: lambda self, cid, old, ghost: nothing(old, ghost) + [cid == 4 or cid == 6],
    },
    modifies=['ghost.to_signalling', 'ghost.to_fixed', 'ghost.to_channel'],
    uses=['bumble.l2cap:L2CAP_Control_Frame.from_bytes@any'],
    note='fixed channels 4 (ATT) and 6 (SMP) registered, possibly with a None handler (AssertionError); what the consumers raise is theirs '
         '(Device.on_gatt_pdu, Manager.on_smp_pdu, on_control_frame, channel on_pdu: own contracts)',
)


# ---------------------------------------------------------------------------
# LeCreditBasedChannel.on_pdu for ANY K-frame.  C07 proves reassembly + credit ledger for SDU lengths >= 1 (its statement's
# quantifier) and excludes a zero SDU-length header by precondition.  C17's input is unconstrained: the same contract
# (same model, ghost, postcondition: reassembly is the step function of the specification and the state stays framed)
# WITHOUT that precondition.  S: `wf-short` / `wf-known` = in_sdu is a proper prefix of an SDU on every exit.
# ---------------------------------------------------------------------------
from contracts import c07_coc as _c07  # noqa: E402

contract(
    'bumble.l2cap:LeCreditBasedChannel.on_pdu',
    key='bumble.l2cap:LeCreditBasedChannel.on_pdu@any-frame',
    prop=PROP,
    params=dict(self=_c07.CHAN, pdu=Bytes),
    ghost=_c07.RX_GHOST,
    requires=lambda self, pdu: [self.sink is not None, _c07.wf_rx(self), _c07.wf_ledger(self), self.peer_max_credits <= 65535],
    ensures=_c07.on_pdu_post,
    ensures_names=_c07.ON_PDU_NAMES,
    modifies=['self.in_sdu', 'self.in_sdu_length', 'self.peer_credits', 'ghost.sunk', 'ghost.nsdu', 'ghost.last', 'ghost.cr_frames', 'ghost.cr_total', 'ghost.cr_cid',
              'ghost.cr_last'],
    inline=['L2CAP_Control_Frame.*', 'LeCreditBasedChannel.send_control_frame', 'L2CAP_LE_Flow_Control_Credit.*'],
    note='C07 contract without the "SDU length >= 1" precondition (zero-length SDU header included)',
)
