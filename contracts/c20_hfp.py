"""C20 (part 3) -- HFP on top of RFCOMM: every AT command the audio gateway receives is concluded by exactly one final
result code.

  AgProtocol._read_at                    one contract per (handler, number of parameters) -- handlers enumerated by reflection --
                                         and one for an unknown command; the real handler, send_ok / send_error / send_cme_error /
                                         send_response run inline; the ghost counts the final result codes on the DLC
  AgProtocol.send_response / send_ok / send_error / send_cme_error
  HfProtocol._read_at / execute_command
  at.tokenize_parameters / parse_parameters (termination)

profile='skeleton': string contents, parameter conversions (int(...), enum lookups), feature tests and the application
state the handlers read are uninterpreted; what is proved is the control skeleton: which result codes are sent on every path.
"""
import inspect

import pyvc.ext_c20  # noqa: F401
from bumble import at, core, hfp
from pyvc.contracts import (Any, Bool, ByteArray, Bytes, Callback, ConcList, Const, Inst, Int, IntRange, ListOf, OneOf, Opt, Str,
                            TupleOf, contract, iff, implies, lemma, model)
from pyvc.ext_c20 import s_eq, s_startswith

ENVIRONMENT = [
    'AtCommand.parse_from / AtResponse.parse_from (regular expression, str decoding, at.parse_parameters) are recorded stubs: '
    'they return an arbitrary command of the family under proof (code, sub-code, k parameters) or raise their parse errors',
    'skeleton profile: int(<parameter>), enum conversions of parameters and feature tests are uninterpreted and assumed not to raise '
    '(parameter values are well-formed for their position: "every AT command the HF role can emit"); int() of a *defaulted* parameter is exact',
    'handlers are looked up on the class (getattr(self, name, None) is decided by the class attributes)',
    'the event emitter, the application state read by the handlers (indicator tables, call list) and DLC.write are stubs; '
    'DLC.write carries the text unchanged (C20 part 1, for bytes arguments)',
]


# ---------------------------------------------------------------------------
# the DLC as seen by the AG: counts lines and final result codes (HFP 1.8 4.34: OK, ERROR, +CME ERROR: <n>)
# ---------------------------------------------------------------------------
def ag_dlc_write(ghost, text):
    final = s_eq(text, '\r\nOK\r\n') or s_eq(text, '\r\nERROR\r\n') or s_startswith(text, '\r\n+CME ERROR: ')
    # every line is framed <cr><lf>...<cr><lf> (V.250 5.7.1)
    assert s_startswith(text, '\r\n')
    ghost.lines = ghost.lines + 1
    ghost.finals = ghost.finals + (1 if final else 0)


def feat_remove(ghost, feature):
    if not ghost.feature_pending:
        raise KeyError(feature)


model('ghost:AgDlc', fields={}, methods={'write': Callback('write', effect=ag_dlc_write)})
model('ghost:FeatureSet', fields={}, methods={'add': Callback('add', effect=lambda ghost, f: None), 'discard': Callback('discard', effect=lambda ghost, f: None),
                                              'remove': Callback('remove', effect=feat_remove, raises=(KeyError,))})
model('bumble.hfp:AtCommand#g', fields=dict(code=Str, sub_code=Any, parameters=Any))


def parse_cmd(ghost, cls, buffer):
    """AtCommand.parse_from as a stub: the next command is of the family under proof, or the line is malformed"""
    if ghost.malformed:
        raise hfp.HfpProtocolError('Invalid command')
    ghost.ncmd = ghost.ncmd + 1
    return ghost.cmd


AG_STUBS = {hfp.AtCommand.parse_from.__func__: Callback('parse_from', effect=parse_cmd, raises=(hfp.HfpProtocolError,))}
model(
    'bumble.hfp:AgProtocol#at',
    fields=dict(read_buffer=ByteArray, cme_error_enabled=Bool, dlc=Inst('ghost:AgDlc'), _remained_slc_setup_features=Inst('ghost:FeatureSet'),
                supported_ag_features=IntRange(0, 0xFFFF), supported_hf_features=IntRange(0, 0xFFFF)),
    methods={'emit': Callback('emit', effect=lambda ghost, *a: None)},
)


def cmd_type(code, sub, ks):
    return OneOf(*[Inst('bumble.hfp:AtCommand#g', code=Const(code), sub_code=Const(sub), parameters=ConcList(Bytes, k)) for k in ks])


def answered(old, ghost):
    """one final result code per command received so far"""
    return ghost.finals - old.ghost.finals == ghost.ncmd - old.ghost.ncmd


def pending(old, ghost):
    """inside a handler, before its final result: the command being handled is the only one not yet answered"""
    return ghost.finals - old.ghost.finals == ghost.ncmd - old.ghost.ncmd - 1


_REAL_PARSE = hfp.AtCommand.__dict__['parse_from']
_NATIVE_DEFAULTS = dict(ag_indicators=list, calls=list, supported_ag_call_hold_operations=list, supported_hf_indicators=set, supported_audio_codecs=list,
                        indicator_report_enabled=bool, inband_ringtone_enabled=bool, cli_notification_enabled=bool, call_waiting_enabled=bool)


def _native_ag_done(env):
    hfp.AtCommand.parse_from = _REAL_PARSE


def _native_ag(env):
    # native replay: real containers for the application state the skeleton leaves uninterpreted, a real set for the pending
    # SLC features, and the stub parser in place of the real one (restored by _native_ag_done)
    import collections

    s = env['self']
    g = env['ghost']
    for n, mk in _NATIVE_DEFAULTS.items():
        if n not in vars(s):
            setattr(s, n, mk())
    if 'hf_indicators' not in vars(s):
        s.hf_indicators = collections.OrderedDict()
    s._remained_slc_setup_features = {hfp.HfFeature.HF_INDICATORS, hfp.HfFeature.THREE_WAY_CALLING} if g.feature_pending else set()
    hfp.AtCommand.parse_from = classmethod(lambda cls, buffer: parse_cmd(g, cls, buffer))


def handler_loops(name):
    """loops of an inlined handler (by reflection on its source): none of them may send a final result code"""
    import ast
    import textwrap

    fn = getattr(hfp.AgProtocol, name, None)
    if fn is None:
        return {}
    tree = ast.parse(textwrap.dedent(inspect.getsource(fn)))
    n = sum(isinstance(x, (ast.For, ast.While, ast.AsyncFor)) for x in ast.walk(tree))
    return {(f'AgProtocol.{name}', i): (lambda old, ghost: [pending(old, ghost)]) for i in range(n)}


def read_at_contract(key, handler, code, sub, ks, note):
    invs = {0: lambda self, old, ghost: [answered(old, ghost)]}
    inner = handler_loops(handler)
    invs.update(inner)
    # termination of the read loop: every iteration consumes at least the <cr>.  Not stated in the three contracts whose handler
    # has a loop of its own (cutting that loop havocs `self.*`, read_buffer included); no handler touches read_buffer (checked
    # here by reflection), so the other contracts show it for the same loop
    assert not handler or 'read_buffer' not in inspect.getsource(getattr(hfp.AgProtocol, handler))
    dec = {} if inner else {0: lambda self: len(self.read_buffer)}
    contract(
        'bumble.hfp:AgProtocol._read_at',
        key=f'bumble.hfp:AgProtocol._read_at@{key}',
        prop='C20',
        profile='skeleton',
        params=dict(self=Inst('bumble.hfp:AgProtocol#at'), data=Bytes),
        ghost=dict(lines=Int, finals=Int, ncmd=Int, malformed=Bool, feature_pending=Bool, cmd=cmd_type(code, sub, ks)),
        ensures=lambda self, data, old, ghost: [answered(old, ghost)],
        ensures_names=['exactly-one-final-result-per-command'],
        # a malformed line: every command before it was answered (the line itself is outside the statement's quantifier)
        raises={hfp.HfpProtocolError: lambda self, data, old, ghost: [answered(old, ghost), ghost.malformed]},
        invariants=invs,
        decreases=dec,
        # (fields outside the model that handlers assign are uninterpreted in the skeleton profile anyway)
        modifies=['self.read_buffer', 'self.supported_hf_features', 'self.cme_error_enabled', 'ghost.lines', 'ghost.finals', 'ghost.ncmd'],
        inline=['AgProtocol._on_*', 'AgProtocol.send_*', 'AgProtocol.supports_*'],
        stubs=AG_STUBS,
        native_setup=_native_ag,
        native_teardown=_native_ag_done,
        note=note,
    )


SUB = hfp.AtCommand.SubCode
HANDLERS = sorted(n for n in dir(hfp.AgProtocol) if n.startswith('_on_') and callable(getattr(hfp.AgProtocol, n)))
for _h in HANDLERS:
    _sig = inspect.signature(getattr(hfp.AgProtocol, _h))
    _ps = [p for p in _sig.parameters.values() if p.name != 'self']
    _var = any(p.kind == p.VAR_POSITIONAL for p in _ps)
    _npos = len([p for p in _ps if p.kind in (p.POSITIONAL_ONLY, p.POSITIONAL_OR_KEYWORD)])
    _name = _h[len('_on_'):]
    _sub = SUB.SET
    if _name.endswith('_test'):
        _name, _sub = _name[: -len('_test')], SUB.TEST
    elif _name.endswith('_read'):
        _name, _sub = _name[: -len('_read')], SUB.READ
    # numbers of parameters: every count the signature accepts, one more, and everything below (a variadic handler: 0..2)
    _ks = list(range(0, 3) if _var else range(0, _npos + 2))
    read_at_contract(_h, _h, _name.upper(), _sub, _ks,
                     f'{_h} received with {_ks[0]}..{_ks[-1]} parameters' + ('' if _var else f' (more than {_npos + 1} parameters bind like {_npos + 1}: TypeError before the handler runs)'))
# a command no handler exists for, any sub-code
for _sub in (SUB.SET, SUB.TEST, SUB.READ):
    read_at_contract(f'unknown@{_sub.name}', '', 'ZZZZ', _sub, [0, 1], 'a command without handler: exactly one ERROR')


# ---------------------------------------------------------------------------
# AgProtocol.send_response / send_ok / send_error / send_cme_error (value profile)
# ---------------------------------------------------------------------------
model('bumble.hfp:AgProtocol#tx', fields=dict(dlc=Inst('ghost:AgDlc'), cme_error_enabled=Bool))
AG_TX = Inst('bumble.hfp:AgProtocol#tx')
TX_GHOST = dict(lines=Int, finals=Int)
TX_COMMON = dict(prop='C20', ghost=TX_GHOST, modifies=['ghost.lines', 'ghost.finals'], inline=['AgProtocol.send_*'])


def one_line(old, ghost, final):
    return [ghost.lines == old.ghost.lines + 1, ghost.finals == old.ghost.finals + (1 if final else 0)]


def one_final_line(old, ghost):
    return one_line(old, ghost, True)


def one_other_line(old, ghost):
    return one_line(old, ghost, False)


contract('bumble.hfp:AgProtocol.send_ok', params=dict(self=AG_TX), ensures=lambda old, ghost: one_line(old, ghost, True),
         ensures_names=['one-line', 'it-is-a-final-result'], **TX_COMMON)
contract('bumble.hfp:AgProtocol.send_error', params=dict(self=AG_TX), ensures=lambda old, ghost: one_line(old, ghost, True),
         ensures_names=['one-line', 'it-is-a-final-result'], **TX_COMMON)
contract('bumble.hfp:AgProtocol.send_cme_error', params=dict(self=AG_TX, error_code=OneOf(hfp.CmeError.NOT_FOUND, hfp.CmeError.INVALID_INDEX, hfp.CmeError.OPERATION_NOT_SUPPORTED)),
         # +CME ERROR: <n> when the HF enabled it (AT+CMEE=1), ERROR otherwise: a final result either way
         ensures=lambda old, ghost: one_line(old, ghost, True), ensures_names=['one-line', 'it-is-a-final-result'], **TX_COMMON)
for _text, _final in (('OK', True), ('ERROR', True), ('+CME ERROR: 30', True), ('+BRSF: 1023', False), ('RING', False), ('+CIEV: 1,1', False)):
    contract('bumble.hfp:AgProtocol.send_response', key=f'bumble.hfp:AgProtocol.send_response@{_text}', params=dict(self=AG_TX, response=Const(_text)),
             ensures=one_final_line if _final else one_other_line,
             ensures_names=['one-line', 'final-iff-OK/ERROR/+CME ERROR'], **TX_COMMON)


# ---------------------------------------------------------------------------
# HfProtocol._read_at: every response line goes to exactly one queue
# ---------------------------------------------------------------------------
def rq_put(ghost, response):
    assert response is ghost.rsp and ghost.expect_solicited
    ghost.solicited = ghost.solicited + 1


def uq_put(ghost, response):
    assert response is ghost.rsp and not ghost.expect_solicited
    ghost.unsolicited = ghost.unsolicited + 1


def parse_rsp(ghost, cls, buffer):
    if ghost.malformed:
        raise at.AtParsingError('quote following regular character')
    ghost.nrsp = ghost.nrsp + 1
    return ghost.rsp


model('ghost:RQ', fields={}, methods={'put_nowait': Callback('put_nowait', effect=rq_put)})
model('ghost:UQ', fields={}, methods={'put_nowait': Callback('put_nowait', effect=uq_put)})
model('bumble.hfp:AtResponse#g', fields=dict(code=OneOf('OK', 'ERROR', '+CME ERROR', '+BRSF', '+CIEV', '+BIND', 'RING'), parameters=Any))
PENDING = OneOf(None, 'AT+BRSF=1023', 'AT+BIND?', 'AT+CHUP', 'ATA')
model('bumble.hfp:HfProtocol#at', fields=dict(read_buffer=ByteArray, pending_command=PENDING, response_queue=Inst('ghost:RQ'), unsolicited_queue=Inst('ghost:UQ')))
HF_STUBS = {hfp.AtResponse.parse_from.__func__: Callback('parse_from', effect=parse_rsp, raises=(at.AtParsingError,))}


def routed(old, ghost):
    return ghost.solicited + ghost.unsolicited - old.ghost.solicited - old.ghost.unsolicited == ghost.nrsp - old.ghost.nrsp


contract(
    'bumble.hfp:HfProtocol._read_at',
    prop='C20',
    params=dict(self=Inst('bumble.hfp:HfProtocol#at'), data=Bytes),
    ghost=dict(rsp=Inst('bumble.hfp:AtResponse#g'), malformed=Bool, nrsp=Int, solicited=Int, unsolicited=Int, expect_solicited=Bool),
    # a line answers the pending command iff one is pending and the line is a status code or carries the command's code
    requires=lambda self, ghost: [iff(ghost.expect_solicited, self.pending_command is not None
                                      and (ghost.rsp.code in hfp.STATUS_CODES or ghost.rsp.code in self.pending_command))],
    ensures=lambda self, data, old, ghost: [routed(old, ghost)],
    ensures_names=['every-line-in-exactly-one-queue'],
    raises={at.AtParsingError: lambda self, data, old, ghost: [routed(old, ghost), ghost.malformed]},
    invariants={0: lambda self, old, ghost: [routed(old, ghost)]},
    decreases={0: lambda self: len(self.read_buffer)},
    modifies=['self.read_buffer', 'ghost.nrsp', 'ghost.solicited', 'ghost.unsolicited'],
    stubs=HF_STUBS,
    note='which queue: asserted in the queue stubs (rq_put / uq_put)',
)


# ---------------------------------------------------------------------------
# HfProtocol.execute_command: pending_command is released on every exit
# ---------------------------------------------------------------------------
import asyncio  # noqa: E402


def hf_dlc_write(ghost, text):
    ghost.written = ghost.written + 1


def wait_rsp(ghost, awaitable, timeout):
    # the command went out once, before the first wait
    assert ghost.written == ghost.written0 + 1
    ghost.waits = ghost.waits + 1
    if ghost.times_out:
        raise asyncio.TimeoutError()


model('ghost:HfDlc', fields={}, methods={'write': Callback('write', effect=hf_dlc_write)})
model('ghost:RQ#get', fields={}, methods={'get': Callback('get', returns=Any)})
model('bumble.hfp:AtResponse#r', fields=dict(code=OneOf('OK', 'ERROR', '+BRSF'), parameters=Any))
model('bumble.hfp:HfProtocol#cmd', fields=dict(command_lock=Any, pending_command=Opt(Str), dlc=Inst('ghost:HfDlc'), response_queue=Inst('ghost:RQ#get')))
contract(
    'bumble.hfp:HfProtocol.execute_command',
    prop='C20',
    profile='skeleton',
    params=dict(self=Inst('bumble.hfp:HfProtocol#cmd'), cmd=Str, timeout=Any, response_type=OneOf(*hfp.AtResponseType)),
    ghost=dict(written=Int, written0=Int, waits=Int, times_out=Bool),
    requires=lambda ghost: [ghost.written == ghost.written0],
    ensures=lambda self, ghost: [self.pending_command is None, ghost.written == ghost.written0 + 1],
    ensures_names=['pending-command-released', 'command-written-once'],
    raises={hfp.HfpProtocolError: lambda self, ghost: [self.pending_command is None, ghost.written == ghost.written0 + 1],
            TimeoutError: lambda self, ghost: [self.pending_command is None, ghost.written == ghost.written0 + 1],
            IndexError: lambda self: [self.pending_command is None]},
    invariants={0: lambda ghost: [ghost.written == ghost.written0 + 1]},
    loop_locals={0: {'responses': Any}},
    modifies=['self.pending_command', 'ghost.written', 'ghost.waits'],
    stubs={asyncio.wait_for: Callback('wait_for', effect=wait_rsp, returns=Inst('bumble.hfp:AtResponse#r'), is_async=True, raises=(asyncio.TimeoutError,))},
    with_enter=lambda path, cm: None,
    with_exit=lambda path, cm: None,
    note='the loop ends when a status code arrives or asyncio.wait_for times out (peer / event loop: environment)',
)


# ---------------------------------------------------------------------------
# at.tokenize_parameters / parse_parameters: terminate on every input (one step per input byte / token)
# ---------------------------------------------------------------------------
contract(
    'bumble.at:tokenize_parameters',
    prop='C20',
    profile='skeleton',
    params=dict(buffer=Bytes),
    returns=ListOf(Bytes),
    raises={at.AtParsingError: None},
    invariants={0: lambda buffer, _i: [0 <= _i, _i <= len(buffer)]},
    decreases={0: lambda buffer, _i: len(buffer) - _i},
    loop_locals={0: {'tokens': Any}},
    modifies=[],
    note='termination and the exceptions that may escape only; the token list itself is not interpreted',
)
contract(
    'bumble.at:parse_parameters',
    prop='C20',
    profile='skeleton',
    params=dict(buffer=Bytes),
    raises={at.AtParsingError: None},
    invariants={0: lambda tokens, _i: [0 <= _i, _i <= len(tokens)]},
    decreases={0: lambda tokens, _i: len(tokens) - _i},
    loop_locals={0: {'accumulator': Any, 'current': Any}},
    modifies=[],
    uses=['bumble.at:tokenize_parameters'],
    note='termination and the exceptions that may escape only (nesting of the parameter lists is not interpreted)',
)


# ---------------------------------------------------------------------------
# HfProtocol.initiate_slc -- storage of what the AG reports about the HF indicators (+BIND), per step
#
# Only the path of the procedure that negotiates HF indicators is followed: the HF supports HF_INDICATORS only (no codec
# negotiation, no three-way calling), the AG reports no AG indicators (+CIND lists empty).  Every AT round trip is the stub
# execute_command returning the next canned response.  The two HF indicators the profile defines and both enabled values
# are enumerated, so the +BIND steps are covered for every (indicator, value).
# ---------------------------------------------------------------------------
from pyvc.ext_c20 import ConcDict  # noqa: E402

HFI = hfp.HfIndicator
HF_IND_BIT = int(hfp.HfFeature.HF_INDICATORS)
AG_IND_BIT = int(hfp.AgFeature.HF_INDICATORS)


def hf_exec(ghost, cmd, timeout=1.0, response_type=hfp.AtResponseType.NONE):
    ghost.ncmds = ghost.ncmds + 1
    if response_type == hfp.AtResponseType.MULTIPLE:
        return ghost.bind_read
    if response_type == hfp.AtResponseType.SINGLE:
        ghost.nsingle = ghost.nsingle + 1
        if ghost.nsingle == 1:
            return ghost.brsf
        if ghost.nsingle == 2 or ghost.nsingle == 3:
            return ghost.cind
        return ghost.bind_test
    return None


model('bumble.hfp:AtResponse#p', fields=dict(code=Str, parameters=Any))
model('bumble.hfp:HfIndicatorState', fields=dict(indicator=Any, supported=Bool, enabled=Bool, current_status=Int))
model(
    'bumble.hfp:HfProtocol#slc',
    fields=dict(supported_hf_features=Const(HF_IND_BIT), supported_audio_codecs=Const([]), supported_ag_features=Int,
                hf_indicators=ConcDict([HFI.ENHANCED_SAFETY, HFI.BATTERY_LEVEL], Inst('bumble.hfp:HfIndicatorState')),
                ag_indicators=Any, supported_ag_call_hold_operations=Any, _slc_initialized=Bool),
    methods={'execute_command': Callback('execute_command', effect=hf_exec, is_async=True)},
)


def rsp(parameters):
    return Inst('bumble.hfp:AtResponse#p', parameters=parameters)


def bind_post(self, ghost):
    ag = int(ghost.brsf.parameters[0])
    ind = int(ghost.bind_read[0].parameters[0])
    val = int(ghost.bind_read[0].parameters[1])
    return [
        self.supported_ag_features == ag,
        # what the AG reports as enabled / disabled is what the HF holds afterwards, for that indicator
        implies(ag & AG_IND_BIT != 0 and ind == 1, self.hf_indicators[HFI.ENHANCED_SAFETY].enabled == (val != 0)),
        implies(ag & AG_IND_BIT != 0 and ind == 2, self.hf_indicators[HFI.BATTERY_LEVEL].enabled == (val != 0)),
        # ... and the indicators the AG lists as supported are marked supported
        implies(ag & AG_IND_BIT != 0 and int(ghost.bind_test.parameters[0][0]) == 1, self.hf_indicators[HFI.ENHANCED_SAFETY].supported),
        implies(ag & AG_IND_BIT != 0 and int(ghost.bind_test.parameters[0][0]) == 2, self.hf_indicators[HFI.BATTERY_LEVEL].supported),
        self._slc_initialized,
    ]


contract(
    'bumble.hfp:HfProtocol.initiate_slc',
    prop='C20',
    profile='skeleton',
    params=dict(self=Inst('bumble.hfp:HfProtocol#slc')),
    ghost=dict(
        ncmds=Const(0), nsingle=Const(0),
        brsf=rsp(ConcList(OneOf(b'0', str(AG_IND_BIT).encode(), b'1023'), 1)),
        cind=rsp(Const([])),
        bind_test=rsp(ConcList(ConcList(OneOf(b'1', b'2'), 1), 1)),
        bind_read=ConcList(rsp(TupleOf(OneOf(b'1', b'2'), OneOf(b'0', b'1'))), 1),
    ),
    ensures=bind_post,
    ensures_names=['ag-features-stored', 'enabled-as-reported(enhanced-safety)', 'enabled-as-reported(battery-level)', 'supported(enhanced-safety)',
                   'supported(battery-level)', 'slc-initialized'],
    modifies=['self.*'],
    inline=['HfProtocol.supports_*'],
    note='bounded: one +BIND line, no AG indicators, HF feature set {HF_INDICATORS}; the agreement of the two ends over the 13 round trips is not covered',
)


# ---------------------------------------------------------------------------
# AgProtocol._on_bind_read: what the AG reports about each HF indicator is what the AG itself holds (value profile)
# ---------------------------------------------------------------------------
def rec_write(ghost, text):
    ghost.texts = ghost.texts + [text]


model('ghost:AgDlc#rec', fields={}, methods={'write': Callback('write', effect=rec_write)})
model('bumble.hfp:HfIndicatorState#c', fields=dict(indicator=Any, supported=Bool, enabled=OneOf(True, False), current_status=Int))
model(
    'bumble.hfp:AgProtocol#bind',
    fields=dict(dlc=Inst('ghost:AgDlc#rec'), supported_ag_features=IntRange(0, 0xFFFF), _remained_slc_setup_features=Inst('ghost:FeatureSet'),
                hf_indicators=ConcDict([HFI.ENHANCED_SAFETY, HFI.BATTERY_LEVEL], Inst('bumble.hfp:HfIndicatorState#c'))),
    methods={'emit': Callback('emit', effect=lambda ghost, *a: None)},
)


def bind_line(indicator, state):
    return '\r\n+BIND: ' + str(indicator.value) + ',' + ('1' if state.enabled else '0') + '\r\n'


def _native_bind(env):
    env['self']._remained_slc_setup_features = {hfp.HfFeature.HF_INDICATORS}


contract(
    'bumble.hfp:AgProtocol._on_bind_read',
    prop='C20',
    params=dict(self=Inst('bumble.hfp:AgProtocol#bind')),
    ghost=dict(texts=Const([]), feature_pending=Const(True)),
    ensures=lambda self, ghost: [
        implies(self.supported_ag_features & AG_IND_BIT != 0,
                ghost.texts == [bind_line(i, s) for (i, s) in self.hf_indicators.items()] + ['\r\nOK\r\n']),
        implies(self.supported_ag_features & AG_IND_BIT == 0, ghost.texts == ['\r\nERROR\r\n']),
    ],
    ensures_names=['reports-own-state-then-OK', 'ERROR-without-the-feature'],
    modifies=['ghost.texts'],
    inline=['AgProtocol.send_*', 'AgProtocol.supports_*', 'AgProtocol._check_remained_slc_commands'],
    native_setup=_native_bind,
    note='both defined HF indicators present; both values of each `enabled` enumerated',
)


# ---------------------------------------------------------------------------
# AgProtocol._read_at: the handler that runs is the one named by the command's code and sub-code (dispatch)
# ---------------------------------------------------------------------------
def _ran(index):
    def effect(ghost, *args):
        ghost.ran = ghost.ran + [index]

    return effect


model('bumble.hfp:AgProtocol#disp', fields=dict(read_buffer=ByteArray, dlc=Inst('ghost:AgDlc')),
      methods={h: Callback(h, effect=_ran(i)) for i, h in enumerate(HANDLERS)})


def _code_sub(h):
    name, sub = h[len('_on_'):], SUB.SET
    if name.endswith('_test'):
        name, sub = name[: -len('_test')], SUB.TEST
    elif name.endswith('_read'):
        name, sub = name[: -len('_read')], SUB.READ
    return name.upper(), sub


DISPATCH_CASES = [(i,) + _code_sub(h) for i, h in enumerate(HANDLERS)]
# ... and commands for which no handler exists: an unknown code, and every known code with a sub-code it has no handler for
_KNOWN = {(c, s) for (_, c, s) in DISPATCH_CASES}
DISPATCH_CASES += [(-1, 'ZZZZ', s) for s in (SUB.SET, SUB.TEST, SUB.READ)]
DISPATCH_CASES += [(-1, c, s) for c in sorted({c for (_, c, _) in DISPATCH_CASES if c != 'ZZZZ'}) for s in (SUB.SET, SUB.TEST, SUB.READ) if (c, s) not in _KNOWN]
# sub-code NONE ("AT+CHUP", "ATA") dispatches like SET
DISPATCH_CASES += [(i, c, SUB.NONE) for (i, c, s) in DISPATCH_CASES if s == SUB.SET and i >= 0]


def dispatch_cmd(i, code, sub):
    return Inst('bumble.hfp:AtCommand#g', code=Const(code), sub_code=Const(sub), parameters=Const([]), expect=Const(i))


model('bumble.hfp:AtCommand#g', fields=dict(code=Str, sub_code=Any, parameters=Any, expect=Const(-2)))
contract(
    'bumble.hfp:AgProtocol._read_at',
    key='bumble.hfp:AgProtocol._read_at@dispatch',
    prop='C20',
    profile='skeleton',
    # one line; its content does not matter: the parser is the stub that yields the command of the case
    params=dict(self=Inst('bumble.hfp:AgProtocol#disp'), data=Const(b'AT+X\r')),
    ghost=dict(lines=Int, finals=Int, ncmd=Int, malformed=Const(False), ran=ListOf(Int), cmd=OneOf(*[dispatch_cmd(*c) for c in DISPATCH_CASES])),
    requires=lambda self, data, ghost: [len(self.read_buffer) == 0, len(ghost.ran) == 0],
    ensures=lambda self, old, ghost: [
        ghost.ncmd == old.ghost.ncmd + 1,
        # a handler exists: it runs, once, and nothing else answers; none exists: nothing runs and one ERROR goes out
        implies(ghost.cmd.expect >= 0, ghost.ran == [ghost.cmd.expect] and ghost.finals == old.ghost.finals),
        implies(ghost.cmd.expect < 0, len(ghost.ran) == 0 and ghost.finals == old.ghost.finals + 1 and ghost.lines == old.ghost.lines + 1),
    ],
    ensures_names=['one-command', 'the-named-handler-runs-once', 'no-handler:one-ERROR'],
    invariants={0: lambda self, data, old, ghost: [
        0 <= ghost.ncmd - old.ghost.ncmd and ghost.ncmd - old.ghost.ncmd <= 1,
        implies(ghost.ncmd == old.ghost.ncmd, len(ghost.ran) == 0 and ghost.finals == old.ghost.finals and ghost.lines == old.ghost.lines
                and bytes(self.read_buffer) == bytes(old.self.read_buffer) + data),
        implies(ghost.ncmd == old.ghost.ncmd + 1, len(self.read_buffer) == 0
                and implies(ghost.cmd.expect >= 0, ghost.ran == [ghost.cmd.expect] and ghost.finals == old.ghost.finals)
                and implies(ghost.cmd.expect < 0, len(ghost.ran) == 0 and ghost.finals == old.ghost.finals + 1 and ghost.lines == old.ghost.lines + 1)),
    ]},
    modifies=['self.read_buffer', 'ghost.lines', 'ghost.finals', 'ghost.ncmd', 'ghost.ran'],
    inline=['AgProtocol.send_*'],
    stubs=AG_STUBS,
    note='handlers are recording stubs here (what each of them sends is the family above)',
)
