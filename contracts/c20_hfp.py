"""C20 (part 3) -- HFP on top of RFCOMM: every AT command the audio gateway receives is concluded by exactly one final
result code.

  AgProtocol._read_at                    one contract per (handler, number of parameters) -- handlers enumerated by reflection --
                                         and one for an unknown command; the real handler, send_ok / send_error / send_cme_error /
                                         send_response run inline; the ghost counts the final result codes on the DLC
  AgProtocol.send_response / send_ok / send_error / send_cme_error
  HfProtocol._read_at / execute_command
  at.tokenize_parameters / parse_parameters (termination)

profile='skeleton': string contents, parameter conversions (int(...), enum lookups), feature tests and the application
state the handlers read are uninterpreted; what is proved is the control skeleton: which result codes are sent on every path.
"""
import inspect

import pyvc.ext_c20  # noqa: F401
from bumble import at, core, hfp
from pyvc.contracts import (Any, Bool, ByteArray, Bytes, Callback, ConcList, Const, Inst, Int, IntRange, ListOf, OneOf, Opt, Str,
                            TupleOf, contract, iff, implies, lemma, model)
from pyvc.ext_c20 import s_eq, s_startswith

ENVIRONMENT = [
    'AtCommand.parse_from / AtResponse.parse_from (regular expression, str decoding, at.parse_parameters) are recorded stubs: '
    'they return an arbitrary command of the family under proof (code, sub-code, k parameters) or raise their parse errors',
    'skeleton profile: int(<parameter>), enum conversions of parameters and feature tests are uninterpreted and assumed not to raise '
    '(parameter values are well-formed for their position: "every AT command the HF role can emit"); int() of a *defaulted* parameter is exact',
    'handlers are looked up on the class (getattr(self, name, None) is decided by the class attributes)',
    'the event emitter, the application state read by the handlers (indicator tables, call list) and DLC.write are stubs; '
    'DLC.write carries the text unchanged (C20 part 1, for bytes arguments)',
]


# ---------------------------------------------------------------------------
# the DLC as seen by the AG: counts lines and final result codes (HFP 1.8 4.34: OK, ERROR, +CME ERROR: <n>)
# ---------------------------------------------------------------------------
def ag_dlc_write(ghost, text):
    final = s_eq(text, '\r\nOK\r\n') or s_eq(text, '\r\nERROR\r\n') or s_startswith(text, '\r\n+CME ERROR: ')
    # every line is framed <cr><lf>...<cr><lf> (V.250 5.7.1)
    assert s_startswith(text, '\r\n')
    ghost.lines = ghost.lines + 1
    ghost.finals = ghost.finals + (1 if final else 0)


def feat_remove(ghost, feature):
    if not ghost.feature_pending:
        raise KeyError(feature)


model('ghost:AgDlc', fields={}, methods={'write': Callback('write', effect=ag_dlc_write)})
model('ghost:FeatureSet', fields={}, methods={'add': Callback('add', effect=lambda ghost, f: None),
                                              'remove': Callback('remove', effect=feat_remove, raises=(KeyError,))})
model('bumble.hfp:AtCommand#g', fields=dict(code=Str, sub_code=Any, parameters=Any))


def parse_cmd(ghost, cls, buffer):
    """AtCommand.parse_from as a stub: the next command is of the family under proof, or the line is malformed"""
    if ghost.malformed:
        raise hfp.HfpProtocolError('Invalid command')
    ghost.ncmd = ghost.ncmd + 1
    return ghost.cmd


AG_STUBS = {hfp.AtCommand.parse_from.__func__: Callback('parse_from', effect=parse_cmd, raises=(hfp.HfpProtocolError,))}
model(
    'bumble.hfp:AgProtocol#at',
    fields=dict(read_buffer=ByteArray, cme_error_enabled=Bool, dlc=Inst('ghost:AgDlc'), _remained_slc_setup_features=Inst('ghost:FeatureSet'),
                supported_ag_features=IntRange(0, 0xFFFF), supported_hf_features=IntRange(0, 0xFFFF)),
    methods={'emit': Callback('emit', effect=lambda ghost, *a: None)},
)


def cmd_type(code, sub, ks):
    return OneOf(*[Inst('bumble.hfp:AtCommand#g', code=Const(code), sub_code=Const(sub), parameters=ConcList(Bytes, k)) for k in ks])


def answered(old, ghost):
    """one final result code per command received so far"""
    return ghost.finals - old.ghost.finals == ghost.ncmd - old.ghost.ncmd


def pending(old, ghost):
    """inside a handler, before its final result: the command being handled is the only one not yet answered"""
    return ghost.finals - old.ghost.finals == ghost.ncmd - old.ghost.ncmd - 1


_REAL_PARSE = hfp.AtCommand.__dict__['parse_from']
_NATIVE_DEFAULTS = dict(ag_indicators=list, calls=list, supported_ag_call_hold_operations=list, supported_hf_indicators=set, supported_audio_codecs=list,
                        indicator_report_enabled=bool, inband_ringtone_enabled=bool, cli_notification_enabled=bool, call_waiting_enabled=bool)


def _native_ag_done(env):
    hfp.AtCommand.parse_from = _REAL_PARSE


def _native_ag(env):
    # native replay: real containers for the application state the skeleton leaves uninterpreted, a real set for the pending
    # SLC features, and the stub parser in place of the real one (restored by _native_ag_done)
    import collections

    s = env['self']
    g = env['ghost']
    for n, mk in _NATIVE_DEFAULTS.items():
        if n not in vars(s):
            setattr(s, n, mk())
    if 'hf_indicators' not in vars(s):
        s.hf_indicators = collections.OrderedDict()
    s._remained_slc_setup_features = {hfp.HfFeature.HF_INDICATORS, hfp.HfFeature.THREE_WAY_CALLING} if g.feature_pending else set()
    hfp.AtCommand.parse_from = classmethod(lambda cls, buffer: parse_cmd(g, cls, buffer))


def handler_loops(name):
    """loops of an inlined handler (by reflection on its source): none of them may send a final result code"""
    import ast
    import textwrap

    fn = getattr(hfp.AgProtocol, name, None)
    if fn is None:
        return {}
    tree = ast.parse(textwrap.dedent(inspect.getsource(fn)))
    n = sum(isinstance(x, (ast.For, ast.While, ast.AsyncFor)) for x in ast.walk(tree))
    return {(f'AgProtocol.{name}', i): (lambda old, ghost: [pending(old, ghost)]) for i in range(n)}


def read_at_contract(key, handler, code, sub, ks, note):
    invs = {0: lambda self, old, ghost: [answered(old, ghost)]}
    inner = handler_loops(handler)
    invs.update(inner)
    # termination of the read loop: every iteration consumes at least the <cr>.  Not stated in the three contracts whose handler
    # has a loop of its own (cutting that loop havocs `self.*`, read_buffer included); no handler touches read_buffer (checked
    # here by reflection), so the other contracts show it for the same loop
    assert not handler or 'read_buffer' not in inspect.getsource(getattr(hfp.AgProtocol, handler))
    dec = {} if inner else {0: lambda self: len(self.read_buffer)}
    contract(
        'bumble.hfp:AgProtocol._read_at',
        key=f'bumble.hfp:AgProtocol._read_at@{key}',
        prop='C20',
        profile='skeleton',
        params=dict(self=Inst('bumble.hfp:AgProtocol#at'), data=Bytes),
        ghost=dict(lines=Int, finals=Int, ncmd=Int, malformed=Bool, feature_pending=Bool, cmd=cmd_type(code, sub, ks)),
        ensures=lambda self, data, old, ghost: [answered(old, ghost)],
        ensures_names=['exactly-one-final-result-per-command'],
        # a malformed line: every command before it was answered (the line itself is outside the statement's quantifier)
        raises={hfp.HfpProtocolError: lambda self, data, old, ghost: [answered(old, ghost), ghost.malformed]},
        invariants=invs,
        decreases=dec,
        modifies=['self.*', 'ghost.lines', 'ghost.finals', 'ghost.ncmd'],
        inline=['AgProtocol._on_*', 'AgProtocol.send_*', 'AgProtocol.supports_*'],
        stubs=AG_STUBS,
        native_setup=_native_ag,
        native_teardown=_native_ag_done,
        note=note,
    )


SUB = hfp.AtCommand.SubCode
HANDLERS = sorted(n for n in dir(hfp.AgProtocol) if n.startswith('_on_') and callable(getattr(hfp.AgProtocol, n)))
for _h in HANDLERS:
    _sig = inspect.signature(getattr(hfp.AgProtocol, _h))
    _ps = [p for p in _sig.parameters.values() if p.name != 'self']
    _var = any(p.kind == p.VAR_POSITIONAL for p in _ps)
    _npos = len([p for p in _ps if p.kind in (p.POSITIONAL_ONLY, p.POSITIONAL_OR_KEYWORD)])
    _name = _h[len('_on_'):]
    _sub = SUB.SET
    if _name.endswith('_test'):
        _name, _sub = _name[: -len('_test')], SUB.TEST
    elif _name.endswith('_read'):
        _name, _sub = _name[: -len('_read')], SUB.READ
    # numbers of parameters: every count the signature accepts, one more, and everything below (a variadic handler: 0..2)
    _ks = list(range(0, 3) if _var else range(0, _npos + 2))
    read_at_contract(_h, _h, _name.upper(), _sub, _ks,
                     f'{_h} received with {_ks[0]}..{_ks[-1]} parameters' + ('' if _var else f' (more than {_npos + 1} parameters bind like {_npos + 1}: TypeError before the handler runs)'))
# a command no handler exists for, any sub-code
for _sub in (SUB.SET, SUB.TEST, SUB.READ):
    read_at_contract(f'unknown@{_sub.name}', '', 'ZZZZ', _sub, [0, 1], 'a command without handler: exactly one ERROR')
