"""C18 -- ATT Read Multiple Variable Response: the length/value tuple list codec (class-local parser, not reachable by the
field-spec family of c18_fields.py).  Bounded stand-ins: one and two tuples, lengths and contents symbolic (a zero-length
value in any position included)."""
import struct

from bumble import att
from pyvc.contracts import Bytes, IntRange, lemma

ENVIRONMENT = [
    'C18 Read Multiple Variable Response: tuple lists of 1 and 2 entries only (bounded); values as long as their Length field says '
    '(the truncated last value of a full PDU is not covered)',
]


def wire(pairs):
    """Vol 3 Part F 3.4.4.12: Length (2 octets, little endian) then the value, per attribute"""
    out = b''
    for length, value in pairs:
        out = out + struct.pack('<H', length) + value
    return out


def lemma_rmv_two(l1, v1, l2, v2):
    data = bytes([0x21]) + wire([(l1, v1), (l2, v2)])
    n, tuples = att.ATT_Read_Multiple_Variable_Response._parse_length_value_tuples(data, 1)
    assert n == len(data), 'whole-pdu-consumed'
    assert len(tuples) == 2, 'two-tuples-parsed'
    assert tuples[0] == (l1, v1) and tuples[1] == (l2, v2), 'tuples-as-sent'


def lemma_rmv_one(l1, v1):
    data = bytes([0x21]) + wire([(l1, v1)])
    n, tuples = att.ATT_Read_Multiple_Variable_Response._parse_length_value_tuples(data, 1)
    assert n == len(data), 'whole-pdu-consumed'
    assert len(tuples) == 1 and tuples[0] == (l1, v1), 'tuple-as-sent'


_LEN = IntRange(0, 0xFFFF)
lemma('att_read_multiple_variable_tuples_2', lemma_rmv_two, prop='C18', params=dict(l1=_LEN, v1=Bytes, l2=_LEN, v2=Bytes),
      requires=lambda l1, v1, l2, v2: [len(v1) == l1, len(v2) == l2],
      inline=['ATT_Read_Multiple_Variable_Response.*'], bounded='tuple lists of exactly 2 entries',
      note='bounded(2 tuples): the parser loop is unrolled because the path condition decides its test')
lemma('att_read_multiple_variable_tuples_1', lemma_rmv_one, prop='C18', params=dict(l1=_LEN, v1=Bytes),
      requires=lambda l1, v1: [len(v1) == l1],
      inline=['ATT_Read_Multiple_Variable_Response.*'], bounded='tuple lists of exactly 1 entry',
      note='bounded(1 tuple)')
# boundary instances with the loop test decided for ANY loop guard of the form `offset + k < len(data)`: a zero-length value last
# (its Length field is the last two octets of the PDU), and a single zero-length value
lemma('att_read_multiple_variable_tuples_2_last_empty', lemma_rmv_two, prop='C18', params=dict(l1=_LEN, v1=Bytes, l2=_LEN, v2=Bytes),
      requires=lambda l1, v1, l2, v2: [len(v1) == l1, l1 >= 1, l2 == 0, len(v2) == 0],
      inline=['ATT_Read_Multiple_Variable_Response.*'], bounded='2 entries, the last value empty',
      note='bounded(2 tuples, last empty)')
lemma('att_read_multiple_variable_tuples_1_empty', lemma_rmv_one, prop='C18', params=dict(l1=_LEN, v1=Bytes),
      requires=lambda l1, v1: [l1 == 0, len(v1) == 0],
      inline=['ATT_Read_Multiple_Variable_Response.*'], bounded='1 entry, empty value',
      note='bounded(1 tuple, empty)')
