"""C10 part 2 -- dispatch: every PDU a peer can send is answered exactly once if it is a request, never otherwise.

  Server.on_gatt_pdu        over the whole opcode space 0..255 (reflected Opcode / ATT_PDU.pdu_classes; the request
                            opcodes are those of the specification, checked against bumble's ATT_REQUESTS):
                            request -> exactly one response (the matching one, or an Error Response naming the
                            request), to the asking bearer, within its ATT_MTU; anything else -> nothing.
                            The handlers are applied through their contracts of c10_handlers.py.
  Server.on_att_request     the generic handler for requests without a specific handler: Request Not Supported
  Server.on_att_handle_value_confirmation   never answered; releases the pending indication
  Server.on_gatt_pdu @hypothetical-handler  the error mapping of on_gatt_pdu (a plain handler that raises ATT_Error
                            having sent nothing -> exactly one Error Response), proved against a *hypothesis* about
                            such a handler: none of today's handlers raises, so this guards future / overriding ones
  Server.send_response / send_gatt_pdu      one response = one PDU, bytes(response), on the bearer it was asked on
"""
import asyncio
import collections

from contracts.c10_handlers import (BEARER, ERR_INLINE, GHOST, HANDLER_KEYS, MOD, MTU, PDU_INLINE, RUN_IN_TASK, SERVER, SERVER_METHODS, ATTR_LIST,
                                    env_ok, one_reply, rec_response)
from spec.att import ATT_ERROR_RSP, ERR_REQUEST_NOT_SUPPORTED, REQUEST_OPCODES, answered, response_opcode

from bumble import att, l2cap
from pyvc.contracts import Bool, Bytes, Callback, Inst, Int, IntRange, ListOf, OneOf, TupleOf, contract, implies, model

ENVIRONMENT = [
    'on_gatt_pdu applies the handlers through their contracts as if the handler task had run to completion (A1: the '
    'interleaving of several handler tasks at their awaits is not explored; the reply counter is per request)',
    'PDU parsing (ATT_PDU.from_bytes) happens in Device.on_gatt_pdu / the EATT sink before Server.on_gatt_pdu is '
    'called: a PDU that does not parse never reaches the server (NOTES: not covered)',
    'Server.on_gatt_pdu finds handlers by name on the instance: attributes planted on a Server instance from outside '
    'the class (monkey-patched handlers) are environment',
    'asyncio.Future.set_result raises InvalidStateError on a future that is already done, and nothing else',
    'Device.send_l2cap_pdu / LeCreditBasedChannel.write (L2CAP and below) are recorded callbacks: C05/C07',
]


# ---------------------------------------------------------------------------
# the generic handler
# ---------------------------------------------------------------------------
T_REQUEST = 'bumble.gatt_server:Server.on_att_request'
REQUEST_KEYS = []
for _cls in att.ATT_PDU.pdu_classes.values():
    if _cls.op_code in att.ATT_REQUESTS and f'on_{_cls.name.lower()}' not in HANDLER_KEYS:
        # a request bumble parses but has no handler for (Prepare / Execute Write): answered by the generic handler
        REQUEST_KEYS.append(f'{T_REQUEST}@C10/{_cls.__name__}')
        contract(
            T_REQUEST,
            key=REQUEST_KEYS[-1],
            prop='C10',
            params=dict(self=SERVER, bearer=BEARER, pdu=Inst(f'bumble.att:{_cls.__name__}#c10')),
            ghost=GHOST,
            ensures=lambda self, bearer, pdu, old, ghost: one_reply(self, bearer, pdu, old, ghost)
            + [ghost.rop == ATT_ERROR_RSP and ghost.rerr == ERR_REQUEST_NOT_SUPPORTED],
            ensures_names=['exactly-one-reply', 'error-naming-the-request', 'to-the-asking-bearer', 'within-att-mtu', 'request-not-supported'],
            raises={},
            modifies=MOD,
            inline=PDU_INLINE,
        )


# ---------------------------------------------------------------------------
# the confirmation handler
# ---------------------------------------------------------------------------
def fut_set_result(ghost, value):
    """asyncio.Future.set_result: InvalidStateError when the future is already done"""
    if ghost.fut_done:
        raise asyncio.InvalidStateError()
    ghost.fut_done = True


def fut_done(ghost):
    return ghost.fut_done


def pending_get(ghost, bearer):
    """Server.pending_confirmations[bearer] (defaultdict: None when no indication is outstanding)"""
    if ghost.has_pending:
        return ghost.pending
    return None


model(
    'ghost:Future',
    fields={},
    methods={'set_result': Callback('set_result', effect=fut_set_result, raises=(asyncio.InvalidStateError,)), 'done': Callback('done', effect=fut_done)},
)
model('ghost:Pending', fields={}, methods={'__getitem__': Callback('__getitem__', effect=pending_get)})
model('bumble.gatt_server:Server#c10p', fields=dict(attributes=ATTR_LIST, max_mtu=MTU, pending_confirmations=Inst('ghost:Pending')), methods=SERVER_METHODS)
SERVER_P = Inst('bumble.gatt_server:Server#c10p')
CONF_GHOST = dict(GHOST, has_pending=Bool, pending=Inst('ghost:Future'), fut_done=Bool)


def _native_pending(env):
    env['self'].pending_confirmations = collections.defaultdict(lambda: None)
    if env['ghost'].has_pending:
        env['self'].pending_confirmations[env['bearer']] = env['ghost'].pending


T_CONFIRM = 'bumble.gatt_server:Server.on_att_handle_value_confirmation'
contract(
    T_CONFIRM,
    key=HANDLER_KEYS['on_att_handle_value_confirmation'],
    prop='C10',
    params=dict(self=SERVER_P, bearer=BEARER, confirmation=Inst('bumble.att:ATT_Handle_Value_Confirmation#c10')),
    ghost=CONF_GHOST,
    ensures=lambda self, bearer, old, ghost: [
        ghost.nresp == old.ghost.nresp,
        # the indication that was awaiting this confirmation is released
        implies(ghost.has_pending, ghost.fut_done),
    ],
    ensures_names=['no-reply', 'pending-indication-released'],
    # a confirmation is never answered: nothing may escape into on_gatt_pdu's catch-all, which would send an Error
    # Response (a second confirmation can arrive before the task that awaits the first one has run)
    raises={},
    modifies=MOD + ['ghost.fut_done'],
    native_setup=_native_pending,
)


# ---------------------------------------------------------------------------
# dispatch: the whole opcode space
# ---------------------------------------------------------------------------
def all_pdus():
    """one PDU per opcode octet 0..255: an instance (view) of the class bumble registers for it, or -- for an opcode
    without a class -- the generic ATT_PDU that ATT_PDU.from_bytes really builds for that octet (native object)"""
    import os

    out = []
    for op in range(256):
        if os.environ.get('C10_ONLY_OP') and op != int(os.environ['C10_ONLY_OP'], 0):
            continue  # debugging aid
        cls = att.ATT_PDU.pdu_classes.get(op)
        if cls is not None:
            out.append(Inst(f'bumble.att:{cls.__name__}#c10'))
        else:
            out.append(att.ATT_PDU.from_bytes(bytes([op, 0x01, 0x00])))
    return out


def is_request(att_pdu):
    """the statement's "request": the request opcodes of Vol 3 Part F 3.4.8"""
    return att_pdu.op_code in REQUEST_OPCODES


assert sorted(int(x) for x in att.ATT_REQUESTS) == sorted(REQUEST_OPCODES), 'bumble.att.ATT_REQUESTS differs from the specification'
assert all(int(b) == response_opcode(int(a)) for a, b in zip(att.ATT_REQUESTS, att.ATT_RESPONSES[1:])), 'response opcode != request opcode + 1'


def dispatch_post(self, bearer, att_pdu, old, ghost):
    return [
        implies(
            is_request(att_pdu),
            ghost.nresp == old.ghost.nresp + 1 and answered(att_pdu.op_code, ghost.rop, ghost.rerr_op) and ghost.rbearer == bearer.g_id and ghost.rlen <= bearer.att_mtu,
        ),
        implies(not is_request(att_pdu), ghost.nresp == old.ghost.nresp),
    ]


DISPATCH_NAMES = ['request-answered-exactly-once-within-att-mtu', 'anything-else-not-answered']
T_DISPATCH = 'bumble.gatt_server:Server.on_gatt_pdu'
contract(
    T_DISPATCH,
    prop='C10',
    params=dict(self=SERVER_P, bearer=BEARER, att_pdu=OneOf(*all_pdus())),
    ghost=CONF_GHOST,
    requires=env_ok,
    ensures=dispatch_post,
    ensures_names=DISPATCH_NAMES,
    raises={},
    modifies=MOD + ['ghost.fut_done'],
    uses=list(HANDLER_KEYS.values()) + REQUEST_KEYS,
    inline=PDU_INLINE,
    decorators_ok=RUN_IN_TASK,
    fstrings='eval',  # handler_name = f'on_{att_pdu.name.lower()}' is computed exactly (concrete per opcode)
    native_setup=_native_pending,
    note='handlers are applied through their contracts (for @run_in_task handlers: as if the task had run to completion)',
)

# -- the error mapping, against a hypothesis about a plain (not @run_in_task) handler --------------------------------
# H: "a plain handler either returns having sent exactly one matching reply, or raises ATT_Error having sent nothing".
# This callee view of on_att_find_information_request is NOT verified (no prop=): it is the hypothesis.
T_FIND_INFO = 'bumble.gatt_server:Server.on_att_find_information_request'
contract(
    T_FIND_INFO,
    key=T_FIND_INFO + '@C10hypothesis',
    params=dict(self=SERVER_P, bearer=BEARER, request=Inst('bumble.att:ATT_Find_Information_Request#c10')),
    ghost=CONF_GHOST,
    ensures=one_reply,
    raises={att.ATT_Error: lambda old, ghost, exc: [ghost.nresp == old.ghost.nresp, 0 <= exc.att_handle and exc.att_handle <= 0xFFFF, 0 <= exc.error_code and exc.error_code <= 0xFF]},
    exc_fields={att.ATT_Error: dict(att_handle=Int, error_code=Int)},
    modifies=MOD,
)
contract(
    T_DISPATCH,
    key=T_DISPATCH + '@hypothetical-handler',
    prop='C10',
    params=dict(self=SERVER_P, bearer=BEARER, att_pdu=Inst('bumble.att:ATT_Find_Information_Request#c10')),
    ghost=CONF_GHOST,
    requires=env_ok,
    ensures=dispatch_post,
    ensures_names=DISPATCH_NAMES,
    raises={},
    modifies=MOD + ['ghost.fut_done'],
    uses=[T_FIND_INFO + '@C10hypothesis'],
    inline=PDU_INLINE,
    fstrings='eval',
    native_setup=_native_pending,
    note='conditional on hypothesis H about the handler (see the file header); exercises the ATT_Error -> Error Response mapping',
)


# ---------------------------------------------------------------------------
# one response = one PDU on the bearer
# ---------------------------------------------------------------------------
ATT_CID = 0x0004  # Vol 3 Part A 2.1: fixed channel of the Attribute Protocol


def chan_write(ghost, pdu):
    ghost.sent = ghost.sent + [(-1, pdu)]


def dev_send_l2cap_pdu(ghost, handle, cid, pdu):
    assert cid == ATT_CID
    ghost.sent = ghost.sent + [(handle, pdu)]


model('bumble.device:Connection#c10w', fields=dict(handle=IntRange(0, 0xEFF), att_mtu=MTU))
model(
    'bumble.l2cap:LeCreditBasedChannel#c10w',
    fields=dict(att_mtu=MTU, write=Callback('write', effect=chan_write), source_cid=IntRange(0x40, 0xFFFF), connection=Inst('bumble.device:Connection#c10w')),
)
model('ghost:Device#c10', fields={}, methods={'send_l2cap_pdu': Callback('send_l2cap_pdu', effect=dev_send_l2cap_pdu)})
model('bumble.gatt_server:Server#c10w', fields=dict(device=Inst('ghost:Device#c10')))
model('bumble.att:ATT_Error_Response#c10w', fields=dict(request_opcode_in_error=IntRange(0, 0xFF), attribute_handle_in_error=IntRange(0, 0xFFFF), error_code=IntRange(0, 0xFF)))
model('bumble.att:ATT_Read_Response#c10w', fields=dict(attribute_value=Bytes))
WIRE_BEARER = OneOf(Inst('bumble.device:Connection#c10w'), Inst('bumble.l2cap:LeCreditBasedChannel#c10w'))
SENT = ListOf(TupleOf(Int, Bytes))  # (connection handle | -1 for a write on an EATT channel, PDU)


def on_the_bearer(bearer):
    return -1 if isinstance(bearer, l2cap.LeCreditBasedChannel) else bearer.handle


contract(
    'bumble.gatt_server:Server.send_response',
    prop='C10',
    params=dict(self=Inst('bumble.gatt_server:Server#c10w'), bearer=WIRE_BEARER, response=OneOf(Inst('bumble.att:ATT_Error_Response#c10w'), Inst('bumble.att:ATT_Read_Response#c10w'))),
    ghost=dict(sent=SENT),
    ensures=lambda self, bearer, response, old, ghost: [ghost.sent == old.ghost.sent + [(on_the_bearer(bearer), bytes(response))]],
    ensures_names=['exactly-one-pdu-the-serialised-response-on-that-bearer'],
    raises={},
    modifies=['ghost.sent'],
    inline=PDU_INLINE + ['Server.send_gatt_pdu', 'bumble.att:is_enhanced_bearer'],
)
contract(
    'bumble.gatt_server:Server.send_gatt_pdu',
    prop='C10',
    params=dict(self=Inst('bumble.gatt_server:Server#c10w'), bearer=WIRE_BEARER, pdu=Bytes),
    ghost=dict(sent=SENT),
    ensures=lambda self, bearer, pdu, old, ghost: [ghost.sent == old.ghost.sent + [(on_the_bearer(bearer), pdu)]],
    ensures_names=['exactly-one-pdu-on-that-bearer'],
    raises={},
    modifies=['ghost.sent'],
    inline=['bumble.att:is_enhanced_bearer'],
)
