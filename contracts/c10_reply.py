"""C10 part 1 -- the ATT server answers each request exactly once, and nothing else.

  Server.on_att_*                 every handler found by reflection (13): how many responses, of which kind, on
                                  *every* exit of the body -- an exception escaping a @run_in_task handler is
                                  swallowed by the task runner, so nobody answers for it
  Server.on_att_request           the generic handler: Request Not Supported
  Server.on_gatt_pdu              over the whole opcode space 0..255 (reflected Opcode / ATT_PDU.pdu_classes /
                                  ATT_REQUESTS): request -> exactly one response (the matching one or an Error
                                  Response naming the request), anything else -> nothing
  Server.send_response / send_gatt_pdu   one response = one PDU on the bearer the request came from

profile='skeleton': the data flow of the handlers (UUID comparisons, what the values are) is irrelevant here and left
uninterpreted; the control flow, the exceptions and the calls of send_response are exact.  Sizes are part 2
(contracts/c10_sizes.py).
"""
import asyncio

from spec.att import ERR_REQUEST_NOT_SUPPORTED, REQUEST_OPCODES, answered, response_opcode

from bumble import att, gatt_server, l2cap
from bumble import core
from pyvc.contracts import (Any, Bool, Bytes, Callback, Const, Inst, Int, IntRange, ListOf, OneOf, Opt, OrUnbound, TupleOf, bound, contract, implies,
                            model, ufb)
from pyvc.ext_c10 import REC_FROM_NATIVE, Rec

ENVIRONMENT = [
    '@AsyncRunner.run_in_task() on the handlers is read from the AST and ignored (decorators_ok): the coroutine body is '
    'what is verified.  Its meaning is taken from bumble/utils.py: the body runs as a detached task, an exception escaping '
    'it is logged and dropped -- hence for these handlers NO exception may escape (raises={}) and every exit must have '
    'produced the reply.  on_gatt_pdu uses the handler contracts as if the task had run to completion (A1: the '
    'interleaving of several handler tasks at their awaits is not explored; the reply counter is per request)',
    'Attribute.read_value / write_value are callbacks that return (an arbitrary byte string) or raise att.ATT_Error with '
    'any error code 1..255 -- scripted by ghost lists so that a counter-model replays; any other exception raised by '
    'application code behind an attribute is outside the contract of those functions (C11) and not considered',
    'Server.get_attribute returns None or an attribute (total; its body is not part of this proof)',
    'Bearer.on_att_mtu_update (sets att_mtu, emits an event) does not raise (A2: listeners do not re-enter / raise)',
    'PDU parsing (ATT_PDU.from_bytes) happens in Device.on_gatt_pdu / the EATT sink before Server.on_gatt_pdu is '
    'called: a PDU that does not parse never reaches the server (see NOTES: not covered)',
]

RUN_IN_TASK = ['utils.AsyncRunner.run_in_task()']
ERR_INLINE = ['ATT_Error.__init__', 'BaseError.__init__']
ATT_ERROR_RESPONSE = 0x01  # Vol 3 Part F 3.4.1.1
HANDLE = IntRange(0, 0xFFFF)


# ---------------------------------------------------------------------------
# the environment of a handler: attributes whose reads / writes follow a script, the recording server
# ---------------------------------------------------------------------------
def script_at(xs, k, default):
    return xs[k] if 0 <= k and k < len(xs) else default


def attr_read(ghost, bearer):
    """k-th read of the run: fails with ghost.read_errs[k] if that is non-zero, else returns ghost.read_vals[k]"""
    k = ghost.nreads
    ghost.nreads = k + 1
    e = script_at(ghost.read_errs, k, 0)
    if e != 0:
        raise att.ATT_Error(error_code=e)
    # ghost.vmax: an upper bound of the value lengths of this database (unconstrained unless a contract says otherwise)
    return script_at(ghost.read_vals, k, b'')[: ghost.vmax]


def attr_write(ghost, bearer, value):
    k = ghost.nwrites
    ghost.nwrites = k + 1
    e = script_at(ghost.write_errs, k, 0)
    if e != 0:
        raise att.ATT_Error(error_code=e)


# UUIDs: width of the stored form (0: 16 bit, 1: 32 bit, 2: 128 bit) and the 128-bit form as a little-endian integer.
# Stand-ins for two real methods (bumble/core.py, not verified here): __eq__ compares the 128-bit forms;
# to_pdu_bytes is 2 bytes for a 16-bit UUID and 16 bytes otherwise (content uninterpreted)
BASE_UUID_INT = int.from_bytes(core.UUID.BASE_UUID, 'little')


def uuid_pdu_bytes(self):
    return ufb('uuid_pdu2', 2, self.n) if self.w == 0 else ufb('uuid_pdu16', 16, self.n)


def build_uuid(fields, builder):
    n, w = fields['n'], fields['w']
    v = (n - BASE_UUID_INT) >> 96
    if w < 2 and n == BASE_UUID_INT + (v << 96) and 0 <= v < (1 << (16 if w == 0 else 32)):
        return core.UUID.from_bytes(v.to_bytes(2 if w == 0 else 4, 'little'))
    return core.UUID.from_bytes(n.to_bytes(16, 'little'))


model(
    'bumble.core:UUID#c10',
    fields=dict(w=IntRange(0, 2), n=IntRange(0, 2**128 - 1)),
    methods={'__eq__': lambda self, other: self.n == other.n, 'to_pdu_bytes': uuid_pdu_bytes},
    build=build_uuid,
)
UUID_T = Rec('bumble.core:UUID#c10')
REC_FROM_NATIVE['bumble.core:UUID#c10'] = lambda u: dict(w={2: 0, 4: 1, 16: 2}[len(u.uuid_bytes)], n=int.from_bytes(u.uuid_128_bytes, 'little'))

model(
    'bumble.att:Attribute#c10',
    fields=dict(handle=HANDLE, end_group_handle=HANDLE, type=UUID_T),
    methods={
        'read_value': Callback('read_value', effect=attr_read, is_async=True, raises=(att.ATT_Error,)),
        'write_value': Callback('write_value', effect=attr_write, is_async=True, raises=(att.ATT_Error,)),
    },
)
ATTR = Rec('bumble.att:Attribute#c10')


def rec_response(ghost, bearer, response):
    """one call of Server.send_response = one reply; remember what it was and for whom"""
    ghost.nresp = ghost.nresp + 1
    ghost.rbearer = bearer.g_id
    ghost.rop = response.op_code
    if isinstance(response, att.ATT_Error_Response):
        ghost.rerr_op = response.request_opcode_in_error
        ghost.rerr = response.error_code


def mtu_update(ghost, mtu):
    ghost.mtu_updates = ghost.mtu_updates + 1


model('bumble.device:Connection#c10', fields=dict(att_mtu=IntRange(23, 0xFFFF), g_id=Int), methods={'on_att_mtu_update': Callback('on_att_mtu_update', effect=mtu_update)})
model('bumble.l2cap:LeCreditBasedChannel#c10', fields=dict(att_mtu=IntRange(23, 0xFFFF), g_id=Int), methods={'on_att_mtu_update': Callback('on_att_mtu_update', effect=mtu_update)})
CONN = Inst('bumble.device:Connection#c10')
CHAN = Inst('bumble.l2cap:LeCreditBasedChannel#c10')
BEARER = OneOf(CONN, CHAN)

def srv_get_attribute(ghost, handle):
    """k-th lookup of the run: ghost.found[k] says whether there is such an attribute, ghost.get_attrs[k] is it"""
    k = ghost.ngets
    ghost.ngets = k + 1
    if script_at(ghost.found, k, False):
        return script_at(ghost.get_attrs, k, ghost.attr)
    return None


model(
    'bumble.gatt_server:Server#c10',
    fields=dict(attributes=ListOf(ATTR), max_mtu=IntRange(23, 0xFFFF)),
    methods={
        'get_attribute': Callback('get_attribute', effect=srv_get_attribute),
        'send_response': Callback('send_response', effect=rec_response),
    },
)
SERVER = Inst('bumble.gatt_server:Server#c10')

ERRCODE = IntRange(0, 0xFF)  # 0 = the access succeeds
GHOST = dict(nresp=Int, rbearer=Int, rop=Int, rerr_op=Int, rerr=Int, mtu_updates=Int,
             nreads=Int, read_errs=ListOf(ERRCODE), read_vals=ListOf(Bytes), nwrites=Int, write_errs=ListOf(ERRCODE),
             ngets=Int, found=ListOf(Bool), get_attrs=ListOf(ATTR), attr=ATTR, vmax=IntRange(0, 1 << 32))
MOD = ['ghost.ngets', 'ghost.nresp', 'ghost.rbearer', 'ghost.rop', 'ghost.rerr_op', 'ghost.rerr', 'ghost.mtu_updates', 'ghost.nreads', 'ghost.nwrites']


# ---------------------------------------------------------------------------
# the statement, per handler
# ---------------------------------------------------------------------------
def one_reply(response_opcode):
    """exactly one PDU: the matching response, or an Error Response naming that request -- to the bearer that asked"""

    def post(self, bearer, request, old, ghost):
        return [
            ghost.nresp == old.ghost.nresp + 1,
            ghost.rop == response_opcode or (ghost.rop == ATT_ERROR_RESPONSE and ghost.rerr_op == request.op_code),
            ghost.rbearer == bearer.g_id,
        ]

    return post


ONE_NAMES = ['exactly-one-reply', 'matching-response-or-error-naming-the-request', 'to-the-asking-bearer']


def no_reply(self, bearer, old, ghost):
    return [ghost.nresp == old.ghost.nresp]


def loop_quiet(old, ghost, _i):
    """inside the collecting loops nothing has been sent yet"""
    return [_i >= 0, ghost.nresp == old.ghost.nresp, ghost.nreads >= 0, ghost.ngets >= 0]


# ---------------------------------------------------------------------------
# requests as the handlers see them (wire types: 16-bit handles / offsets / MTU, byte strings, handle lists)
# ---------------------------------------------------------------------------
U16 = IntRange(0, 0xFFFF)
REQUEST_FIELDS = {
    'ATT_Exchange_MTU_Request': dict(client_rx_mtu=U16),
    'ATT_Find_Information_Request': dict(starting_handle=HANDLE, ending_handle=HANDLE),
    'ATT_Find_By_Type_Value_Request': dict(starting_handle=HANDLE, ending_handle=HANDLE, attribute_type=UUID_T, attribute_value=Bytes),
    'ATT_Read_By_Type_Request': dict(starting_handle=HANDLE, ending_handle=HANDLE, attribute_type=UUID_T),
    'ATT_Read_Request': dict(attribute_handle=HANDLE),
    'ATT_Read_Blob_Request': dict(attribute_handle=HANDLE, value_offset=U16),
    'ATT_Read_Multiple_Request': dict(set_of_handles=ListOf(HANDLE)),
    'ATT_Read_By_Group_Type_Request': dict(starting_handle=HANDLE, ending_handle=HANDLE, attribute_group_type=UUID_T),
    'ATT_Read_Multiple_Variable_Request': dict(set_of_handles=ListOf(HANDLE)),
    'ATT_Write_Request': dict(attribute_handle=HANDLE, attribute_value=Bytes),
    'ATT_Write_Command': dict(attribute_handle=HANDLE, attribute_value=Bytes),
    'ATT_Handle_Value_Confirmation': dict(),
}
for _cls, _fields in REQUEST_FIELDS.items():
    model(f'bumble.att:{_cls}#c10', fields=_fields)


def request_of(handler_name):
    """on_att_read_request -> ATT_Read_Request (the naming rule Server.on_gatt_pdu dispatches by)"""
    return att.ATT_PDU.pdu_classes[att.Opcode[handler_name[3:].upper()]]


# loop invariants / locals of the collecting loops (by handler, loop ordinal in source order)
ATTR_LIST = ListOf(ATTR)
LOOPS = {
    'on_att_find_information_request': dict(invariants={0: loop_quiet}, loop_locals={0: dict(attributes=ATTR_LIST)}),
    'on_att_find_by_type_value_request': dict(invariants={0: loop_quiet, 1: loop_quiet}, loop_locals={0: dict(attributes=ATTR_LIST), 1: dict(handles_information_list=ListOf(Bytes))}),
    'on_att_read_by_type_request': dict(
        # entry_size is first assigned in the body and read after the loop when something was collected
        invariants={0: lambda old, ghost, _i, attributes, entry_size: loop_quiet(old, ghost, _i) + [implies(len(attributes) > 0, bound(entry_size))]},
        loop_locals={0: dict(attributes=ListOf(TupleOf(Int, Bytes)), entry_size=OrUnbound(Int))},
    ),
    'on_att_read_by_group_type_request': dict(invariants={0: loop_quiet}, loop_locals={0: dict(attributes=ListOf(TupleOf(Int, Int, Bytes)))}),
    'on_att_read_multiple_request': dict(invariants={0: loop_quiet}, loop_locals={0: dict(values=ListOf(Bytes))}),
    'on_att_read_multiple_variable_request': dict(invariants={0: loop_quiet}, loop_locals={0: dict(length_value_tuple_list=ListOf(TupleOf(Int, Bytes)))}),
}


def reflected_handlers():
    """(name, function AST is decorated with run_in_task, request class) for every on_att_* method of the real Server"""
    from pyvc import source

    out = []
    for name in sorted(vars(gatt_server.Server)):
        if not name.startswith('on_att_') or name == 'on_att_request':
            continue
        node = source.find_def(gatt_server, f'Server.{name}')
        decs = source.decorator_names(node)
        assert all(d in RUN_IN_TASK for d in decs), (name, decs)
        out.append((name, bool(decs), request_of(name)))
    return out


HANDLERS = reflected_handlers()
HANDLER_KEYS = {}
for _name, _in_task, _req in HANDLERS:
    _target = f'bumble.gatt_server:Server.{_name}'
    _key = _target + '@C10'
    HANDLER_KEYS[_name] = _key
    _is_request = _req.op_code in att.ATT_REQUESTS
    if _name == 'on_att_handle_value_confirmation':
        continue  # below: needs the table of pending confirmations
    contract(
        _target,
        key=_key,
        prop='C10',
        profile='skeleton',
        params=dict(self=SERVER, bearer=BEARER, request=Inst(f'bumble.att:{_req.__name__}#c10')),
        ghost=GHOST,
        requires=lambda ghost: [ghost.nreads >= 0, ghost.nwrites >= 0, ghost.ngets >= 0],
        # the response opcode of a request is the request opcode + 1 (Vol 3 Part F 3.4.8, table of PDUs)
        ensures=one_reply(_req.op_code + 1) if _is_request else no_reply,
        ensures_names=ONE_NAMES if _is_request else ['no-reply'],
        # an exception escaping a task is dropped by the runner; the plain handlers have nothing that raises ATT_Error
        raises={},
        modifies=MOD,
        inline=ERR_INLINE,
        decorators_ok=RUN_IN_TASK,
        note=('@run_in_task: the coroutine body is verified; every exit must have replied' if _in_task else 'plain handler'),
        **LOOPS.get(_name, {}),
    )


# ---------------------------------------------------------------------------
# the generic handler, the confirmation handler
# ---------------------------------------------------------------------------
# every PDU class bumble registers gets a view; the ones without a specific handler need no field
for _cls in att.ATT_PDU.pdu_classes.values():
    if _cls.__name__ not in REQUEST_FIELDS:
        model(f'bumble.att:{_cls.__name__}#c10', fields={})

T_REQUEST = 'bumble.gatt_server:Server.on_att_request'
REQUEST_KEYS = []
for _cls in att.ATT_PDU.pdu_classes.values():
    if _cls.op_code in att.ATT_REQUESTS and f'on_{_cls.name.lower()}' not in HANDLER_KEYS:
        # a request bumble parses but has no handler for (Prepare / Execute Write): answered by the generic handler
        REQUEST_KEYS.append(f'{T_REQUEST}@C10/{_cls.__name__}')
        contract(
            T_REQUEST,
            key=f'{T_REQUEST}@C10/{_cls.__name__}',
            prop='C10',
            profile='skeleton',
            params=dict(self=SERVER, bearer=BEARER, pdu=Inst(f'bumble.att:{_cls.__name__}#c10')),
            ghost=GHOST,
            ensures=lambda self, bearer, pdu, old, ghost: [
                ghost.nresp == old.ghost.nresp + 1,
                ghost.rop == ATT_ERROR_RESPONSE and ghost.rerr_op == pdu.op_code and ghost.rerr == ERR_REQUEST_NOT_SUPPORTED,
                ghost.rbearer == bearer.g_id,
            ],
            ensures_names=['exactly-one-reply', 'error-request-not-supported-naming-the-request', 'to-the-asking-bearer'],
            raises={},
            modifies=MOD,
        )


def fut_set_result(ghost, value):
    """asyncio.Future.set_result: InvalidStateError when the future is already done"""
    if ghost.fut_done:
        raise asyncio.InvalidStateError()
    ghost.fut_done = True


def pending_get(ghost, bearer):
    """Server.pending_confirmations[bearer] (defaultdict: None when no indication is outstanding)"""
    if ghost.has_pending:
        return ghost.pending
    return None


model('ghost:Future', fields={}, methods={'set_result': Callback('set_result', effect=fut_set_result, raises=(asyncio.InvalidStateError,))})
model('ghost:Pending', fields={}, methods={'__getitem__': Callback('__getitem__', effect=pending_get)})
model('bumble.gatt_server:Server#c10p', fields=dict(pending_confirmations=Inst('ghost:Pending')), methods={'send_response': Callback('send_response', effect=rec_response)})
CONF_GHOST = dict(GHOST, has_pending=Bool, pending=Inst('ghost:Future'), fut_done=Bool)


def _native_pending(env):
    import collections

    env['self'].pending_confirmations = collections.defaultdict(lambda: None)
    if env['ghost'].has_pending:
        env['self'].pending_confirmations[env['bearer']] = env['ghost'].pending


T_CONFIRM = 'bumble.gatt_server:Server.on_att_handle_value_confirmation'
contract(
    T_CONFIRM,
    key=HANDLER_KEYS['on_att_handle_value_confirmation'],
    prop='C10',
    profile='skeleton',
    params=dict(self=Inst('bumble.gatt_server:Server#c10p'), bearer=BEARER, confirmation=Inst('bumble.att:ATT_Handle_Value_Confirmation#c10')),
    ghost=CONF_GHOST,
    ensures=lambda self, bearer, old, ghost: [
        ghost.nresp == old.ghost.nresp,
        # the indication that was awaiting this confirmation is released
        implies(ghost.has_pending, ghost.fut_done),
    ],
    ensures_names=['no-reply', 'pending-indication-released'],
    # a confirmation is never answered: nothing may escape into on_gatt_pdu's catch-all, which would send an Error Response
    raises={},
    modifies=MOD + ['ghost.fut_done'],
    native_setup=_native_pending,
)


# ---------------------------------------------------------------------------
# dispatch: the whole opcode space
# ---------------------------------------------------------------------------
def all_pdus():
    """one PDU per opcode octet 0..255: an instance (view) of the class bumble registers for it, or -- for an opcode
    without a class -- the generic ATT_PDU that ATT_PDU.from_bytes really builds for that octet (native object)"""
    import os

    out = []
    for op in range(256):
        if os.environ.get('C10_ONLY_OP') and op != int(os.environ['C10_ONLY_OP'], 0):
            continue  # debugging aid
        cls = att.ATT_PDU.pdu_classes.get(op)
        if cls is not None:
            out.append(Inst(f'bumble.att:{cls.__name__}#c10'))
        else:
            out.append(att.ATT_PDU.from_bytes(bytes([op, 0x01, 0x00])))
    return out


def is_request(att_pdu):
    """the statement's "request": the opcodes of Vol 3 Part F 3.4.8 that are requests (bumble's ATT_REQUESTS is
    checked against that list below)"""
    return att_pdu.op_code in REQUEST_OPCODES


assert sorted(int(x) for x in att.ATT_REQUESTS) == sorted(REQUEST_OPCODES), 'bumble.att.ATT_REQUESTS differs from the specification'
assert all(int(b) == response_opcode(int(a)) for a, b in zip(att.ATT_REQUESTS, att.ATT_RESPONSES[1:])), 'response opcode != request opcode + 1'

T_DISPATCH = 'bumble.gatt_server:Server.on_gatt_pdu'
contract(
    T_DISPATCH,
    prop='C10',
    profile='skeleton',
    params=dict(self=Inst('bumble.gatt_server:Server#c10', pending_confirmations=Inst('ghost:Pending')), bearer=BEARER, att_pdu=OneOf(*all_pdus())),
    ghost=CONF_GHOST,
    requires=lambda ghost: [ghost.nreads >= 0, ghost.nwrites >= 0, ghost.ngets >= 0],
    ensures=lambda self, bearer, att_pdu, old, ghost: [
        implies(is_request(att_pdu), ghost.nresp == old.ghost.nresp + 1 and answered(att_pdu.op_code, ghost.rop, ghost.rerr_op) and ghost.rbearer == bearer.g_id),
        implies(not is_request(att_pdu), ghost.nresp == old.ghost.nresp),
    ],
    ensures_names=['request-answered-exactly-once', 'anything-else-not-answered'],
    raises={},
    modifies=MOD + ['ghost.fut_done'],
    uses=list(HANDLER_KEYS.values()) + [k for k in REQUEST_KEYS],
    inline=ERR_INLINE,
    decorators_ok=RUN_IN_TASK,
    fstrings='eval',  # handler_name = f'on_{att_pdu.name.lower()}' is computed exactly (concrete per opcode)
    native_setup=_native_pending,
    note='handlers are applied through their contracts (for @run_in_task handlers: as if the task had run to completion)',
)
