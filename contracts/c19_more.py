"""C19 (AVDTP acceptor dispatch) -- Protocol.on_*_command: the per-SEID dispatch in front of the Stream.on_*_command guards.

From the statement: "a procedure that is not legal in the current state being refused without changing it".  For the
acceptor the state of a stream end point is the state of `endpoint.stream`; Set Configuration is the one procedure whose
guard lives in the Protocol handler and not in the Stream (a fresh Stream object is created for the end point, so the
Stream-level guard `state == IDLE` of the NEW object is always true):

  Protocol.on_set_configuration_command
      unknown ACP SEID        -> Set_Configuration_Reject(BAD_ACP_SEID), nothing changed
      end point in use        -> Set_Configuration_Reject(SEP_IN_USE), NOTHING changed: every end point still has the stream
      (its stream is not IDLE)   object it had, in the state it had; the stream table is as it was; the local end point
                                 is not asked
      otherwise               -> a new stream (this end point <-> INT SEID of the command) is registered under ACP SEID and
                                 is the end point's stream; the local end point is asked once; CONFIGURED and a
                                 Set_Configuration_Response if it accepts, IDLE and its answer returned if it refuses
  Protocol.on_reconfigure / on_open / on_close / on_abort _command   (one SEID)
      unknown ACP SEID -> <X>_Reject(BAD_ACP_SEID) (abort: a plain response, AVDTP 8.16.2), nothing changed
      no stream        -> <X>_Reject(BAD_STATE), nothing changed
      otherwise        -> exactly the effect of the (separately proved) Stream.on_<x>_command contract on the end point's
                          stream, nothing else touched; its reject is returned as is, None becomes <X>_Response

The table of end points is a list with a concrete spine of 0..2 end points and the stream table a dict with 0..1 other
entries under symbolic keys (bounded, said in the notes); the ACP SEID is any integer.
"""
from bumble import avdtp
from pyvc.contracts import Any, ConcList, Inst, Int, Opt, contract, implies, model, same
from pyvc.ext_c19 import SymKeyDict
from contracts.c19_stream import (CONFIGURED, GHOST, IDLE, INLINE, L_ON_SET_CONFIGURATION, LOCAL_ENDPOINT_METHODS, STREAM)

ENVIRONMENT = [
    'AVDTP acceptor dispatch: Protocol.local_endpoints holds 0..2 end points and Protocol.streams 0..1 other entries (bounded); '
    'the stream found in Protocol.streams and the one an end point refers to are not assumed to be related',
    'AVDTP acceptor dispatch: the codec-specific hooks of the local end point are the recording stubs of c19_stream.py',
]

BAD_ACP_SEID = int(avdtp.AVDTP_BAD_ACP_SEID_ERROR)
SEP_IN_USE = int(avdtp.AVDTP_SEP_IN_USE_ERROR)
BAD_STATE = int(avdtp.AVDTP_BAD_STATE_ERROR)

# the real class, so that the real `in_use` property is what decides "in use"
model('bumble.avdtp:LocalStreamEndPoint#acp', fields=dict(seid=Int, configuration=Any, stream=Opt(STREAM)), methods=LOCAL_ENDPOINT_METHODS)
EP = Inst('bumble.avdtp:LocalStreamEndPoint#acp')
model('bumble.avdtp:Set_Configuration_Command#acp', fields=dict(acp_seid=Int, int_seid=Int, capabilities=Any))
model('bumble.avdtp:Simple_Command#acp', fields=dict(acp_seid=Int))

# the local end point's refusal: some Message object of its own making (no clause depends on its class or content: it is
# only ever compared by identity with what the handler returns)
model('bumble.avdtp:Message#refusal', fields={})
ACP_GHOST = dict(GHOST, local_answer=Opt(Inst('bumble.avdtp:Message#refusal')))

N_ENDPOINTS = (0, 1, 2)
N_OTHER_STREAMS = (0, 1)


def protocol_model(n, m):
    name = f'bumble.avdtp:Protocol#acp{n}{m}'
    model(name, fields=dict(local_endpoints=ConcList(EP, n), streams=SymKeyDict(Int, STREAM, m), channel_acceptor=Any,
                            l2cap_channel=Inst('ghost:SignallingChannel')))
    return Inst(name)


def stream_kept(ep, oep):
    """the end point still refers to the stream object it referred to, and that stream is in the state it was in"""
    if oep.stream is None:
        return ep.stream is None
    return ep.stream is not None and same(ep.stream, oep.stream) and ep.stream.state == oep.stream.state and ep.stream.rtp_channel is oep.stream.rtp_channel or False


def table_kept(self, old):
    r = len(self.streams) == len(old.self.streams)
    for (k, s) in old.self.streams.items():
        r = r and same(self.streams.get(k), s)
    return r


def others_kept(self, old, seid):
    r = len(self.streams) <= len(old.self.streams) + 1
    for (k, s) in old.self.streams.items():
        r = r and (k == seid or same(self.streams.get(k), s))
    return r


def all_kept(self, old, ghost):
    r = table_kept(self, old) and ghost.calls == old.ghost.calls and len(self.local_endpoints) == len(old.self.local_endpoints)
    for i in range(len(old.self.local_endpoints)):
        r = r and same(self.local_endpoints[i], old.self.local_endpoints[i]) and stream_kept(self.local_endpoints[i], old.self.local_endpoints[i])
    return r


def is_reject(res, cls, code):
    return isinstance(res, cls) and res.error_code == code


def answered(res, ghost, response_cls):
    """the local end point's refusal is returned as it is; its acceptance (None) becomes the procedure's response"""
    if ghost.local_answer is None:
        return isinstance(res, response_cls)
    return res == ghost.local_answer


def in_use(oep):
    return oep.stream is not None and oep.stream.state != IDLE


def new_stream_registered(self, ep, oep, command, ghost):
    s = ep.stream
    return (s is not None and not same(s, oep.stream) and same(self.streams.get(command.acp_seid), s) and s.local_endpoint is ep
            and s.remote_endpoint.seid == command.int_seid and s.rtp_channel is None
            and s.state == (CONFIGURED if ghost.local_answer is None else IDLE))


def setconf_post(n):
    def post(self, command, res, old, ghost):
        k = command.acp_seid
        known = 0 < k and k <= n
        out = [
            implies(not known, is_reject(res, avdtp.Set_Configuration_Reject, BAD_ACP_SEID)),
            implies(not known, all_kept(self, old, ghost)),
            len(self.local_endpoints) == n,
        ]
        for i in range(n):
            ep = self.local_endpoints[i]
            oep = old.self.local_endpoints[i]
            hit = k == i + 1
            busy = in_use(oep)
            free = hit and not busy
            out = out + [
                same(ep, oep) and (hit or stream_kept(ep, oep)),
                implies(hit and busy, is_reject(res, avdtp.Set_Configuration_Reject, SEP_IN_USE)),
                implies(hit and busy, all_kept(self, old, ghost)),
                (not free) or new_stream_registered(self, ep, oep, command, ghost),
                (not free) or (others_kept(self, old, k) and ghost.calls == old.ghost.calls + [L_ON_SET_CONFIGURATION]),
                (not free) or answered(res, ghost, avdtp.Set_Configuration_Response),
            ]
        return out

    return post


def setconf_names(n):
    names = ['unknown-seid-rejected-bad-acp-seid', 'unknown-seid-nothing-changed', 'endpoint-list-kept']
    for i in range(n):
        names += [f'{what}[{i + 1}]' for what in ('other-endpoints-keep-their-stream', 'in-use-rejected-sep-in-use', 'in-use-nothing-changed',
                                                 'free-new-stream-registered-under-acp-seid', 'free-others-kept-endpoint-asked-once',
                                                 'free-response-or-local-refusal')]
    return names


ACP_INLINE = INLINE + ['Protocol.get_local_endpoint_by_seid', 'LocalStreamEndPoint.in_use', 'Stream.__init__', 'StreamEndPointProxy.__init__',
                       'Set_Configuration_Response.*', 'Simple_Command.*']


def acp_mod(n):
    return ['self.streams', 'ghost.calls'] + [f'self.local_endpoints[{i}].stream' for i in range(n)]


for _n in N_ENDPOINTS:
    for _m in N_OTHER_STREAMS:
        contract(
            'bumble.avdtp:Protocol.on_set_configuration_command',
            key=f'bumble.avdtp:Protocol.on_set_configuration_command@e{_n}s{_m}',
            prop='C19',
            params=dict(self=protocol_model(_n, _m), command=Inst('bumble.avdtp:Set_Configuration_Command#acp')),
            ghost=ACP_GHOST,
            ensures=setconf_post(_n),
            ensures_names=setconf_names(_n),
            modifies=acp_mod(_n),
            inline=ACP_INLINE + ['Stream.on_set_configuration_command'],
            note=f'bounded: {_n} local end points, {_m} other entries in Protocol.streams',
        )
