"""C19 (AVDTP acceptor dispatch) -- Protocol.on_*_command: the per-SEID dispatch in front of the Stream.on_*_command guards.

From the statement: "a procedure that is not legal in the current state being refused without changing it".  For the
acceptor the state of a stream end point is the state of `endpoint.stream`; Set Configuration is the one procedure whose
guard lives in the Protocol handler and not in the Stream (a fresh Stream object is created for the end point, so the
Stream-level guard `state == IDLE` of the NEW object is always true):

  Protocol.on_set_configuration_command
      unknown ACP SEID        -> Set_Configuration_Reject(BAD_ACP_SEID), nothing changed
      end point in use        -> Set_Configuration_Reject(SEP_IN_USE), NOTHING changed: every end point still has the stream
      (its stream is not IDLE)   object it had, in the state it had; the stream table is as it was; the local end point
                                 is not asked
      otherwise               -> a new stream (this end point <-> INT SEID of the command) is registered under ACP SEID and
                                 is the end point's stream; the local end point is asked once; CONFIGURED and a
                                 Set_Configuration_Response if it accepts, IDLE and its answer returned if it refuses
  Protocol.on_reconfigure / on_open / on_close / on_abort _command   (one SEID)
      unknown ACP SEID -> <X>_Reject(BAD_ACP_SEID) (abort: a plain response, AVDTP 8.16.2), nothing changed
      no stream        -> <X>_Reject(BAD_STATE), nothing changed
      otherwise        -> exactly the effect of the (separately proved) Stream.on_<x>_command contract on the end point's
                          stream, nothing else touched; its reject is returned as is, None becomes <X>_Response

The table of end points is a list with a concrete spine of 0..2 end points and the stream table a dict with 0..1 other
entries under symbolic keys for Set Configuration (the other handlers never touch it: frame condition; it is empty there) --
bounded, said in the notes; the ACP SEID is any integer.
"""
from bumble import avdtp
from pyvc.contracts import Any, ConcList, Inst, Int, Opt, contract, implies, model, same
from pyvc.ext_c19 import SymKeyDict
from contracts.c19_stream import (CONFIGURED, GHOST, IDLE, INLINE, L_ON_SET_CONFIGURATION, LOCAL_ENDPOINT_METHODS, STREAM)

ENVIRONMENT = [
    'AVDTP acceptor dispatch: Protocol.local_endpoints holds 0..2 end points and Protocol.streams 0..1 other entries (bounded); '
    'the stream found in Protocol.streams and the one an end point refers to are not assumed to be related',
    'AVDTP acceptor dispatch: the codec-specific hooks of the local end point are the recording stubs of c19_stream.py',
]

BAD_ACP_SEID = int(avdtp.AVDTP_BAD_ACP_SEID_ERROR)
SEP_IN_USE = int(avdtp.AVDTP_SEP_IN_USE_ERROR)
BAD_STATE = int(avdtp.AVDTP_BAD_STATE_ERROR)

# the real class, so that the real `in_use` property is what decides "in use"
model('bumble.avdtp:LocalStreamEndPoint#acp', fields=dict(seid=Int, configuration=Any, stream=Opt(STREAM)), methods=LOCAL_ENDPOINT_METHODS)
EP = Inst('bumble.avdtp:LocalStreamEndPoint#acp')
model('bumble.avdtp:Set_Configuration_Command#acp', fields=dict(acp_seid=Int, int_seid=Int, capabilities=Any))
model('bumble.avdtp:Simple_Command#acp', fields=dict(acp_seid=Int))

# the local end point's refusal: some Message object of its own making (no clause depends on its class or content: it is
# only ever compared by identity with what the handler returns)
model('bumble.avdtp:Message#refusal', fields={})
ACP_GHOST = dict(GHOST, local_answer=Opt(Inst('bumble.avdtp:Message#refusal')))

N_ENDPOINTS = (0, 1, 2)
N_OTHER_STREAMS = (0, 1)


def protocol_model(n, m):
    name = f'bumble.avdtp:Protocol#acp{n}{m}'
    model(name, fields=dict(local_endpoints=ConcList(EP, n), streams=SymKeyDict(Int, STREAM, m), channel_acceptor=Any,
                            l2cap_channel=Inst('ghost:SignallingChannel')))
    return Inst(name)


def stream_kept(ep, oep):
    """the end point still refers to the stream object it referred to, and that stream is in the state it was in"""
    if oep.stream is None:
        return ep.stream is None
    return ep.stream is not None and same(ep.stream, oep.stream) and ep.stream.state == oep.stream.state and ep.stream.rtp_channel is oep.stream.rtp_channel or False


def table_kept(self, old):
    r = len(self.streams) == len(old.self.streams)
    for (k, s) in old.self.streams.items():
        r = r and same(self.streams.get(k), s)
    return r


def others_kept(self, old, seid):
    r = len(self.streams) <= len(old.self.streams) + 1
    for (k, s) in old.self.streams.items():
        r = r and (k == seid or same(self.streams.get(k), s))
    return r


def all_kept(self, old, ghost):
    r = table_kept(self, old) and ghost.calls == old.ghost.calls and len(self.local_endpoints) == len(old.self.local_endpoints)
    for i in range(len(old.self.local_endpoints)):
        r = r and same(self.local_endpoints[i], old.self.local_endpoints[i]) and stream_kept(self.local_endpoints[i], old.self.local_endpoints[i])
    return r


def is_reject(res, cls, code):
    return isinstance(res, cls) and res.error_code == code


def answered(res, ghost, response_cls):
    """the local end point's refusal is returned as it is; its acceptance (None) becomes the procedure's response"""
    if ghost.local_answer is None:
        return isinstance(res, response_cls)
    return res == ghost.local_answer


def in_use(oep):
    return oep.stream is not None and oep.stream.state != IDLE


def new_stream_registered(self, ep, oep, command, ghost):
    s = ep.stream
    return (s is not None and not same(s, oep.stream) and same(self.streams.get(command.acp_seid), s) and s.local_endpoint is ep
            and s.remote_endpoint.seid == command.int_seid and s.rtp_channel is None
            and s.state == (CONFIGURED if ghost.local_answer is None else IDLE))


def setconf_post(n):
    def post(self, command, res, old, ghost):
        k = command.acp_seid
        known = 0 < k and k <= n
        out = [
            implies(not known, is_reject(res, avdtp.Set_Configuration_Reject, BAD_ACP_SEID)),
            implies(not known, all_kept(self, old, ghost)),
            len(self.local_endpoints) == n,
        ]
        for i in range(n):
            ep = self.local_endpoints[i]
            oep = old.self.local_endpoints[i]
            hit = k == i + 1
            busy = in_use(oep)
            free = hit and not busy
            out = out + [
                same(ep, oep) and (hit or stream_kept(ep, oep)),
                implies(hit and busy, is_reject(res, avdtp.Set_Configuration_Reject, SEP_IN_USE)),
                implies(hit and busy, all_kept(self, old, ghost)),
                (not free) or new_stream_registered(self, ep, oep, command, ghost),
                (not free) or (others_kept(self, old, k) and ghost.calls == old.ghost.calls + [L_ON_SET_CONFIGURATION]),
                (not free) or answered(res, ghost, avdtp.Set_Configuration_Response),
            ]
        return out

    return post


def setconf_names(n):
    names = ['unknown-seid-rejected-bad-acp-seid', 'unknown-seid-nothing-changed', 'endpoint-list-kept']
    for i in range(n):
        names += [f'{what}[{i + 1}]' for what in ('other-endpoints-keep-their-stream', 'in-use-rejected-sep-in-use', 'in-use-nothing-changed',
                                                 'free-new-stream-registered-under-acp-seid', 'free-others-kept-endpoint-asked-once',
                                                 'free-response-or-local-refusal')]
    return names


ACP_INLINE = INLINE + ['Protocol.get_local_endpoint_by_seid', 'LocalStreamEndPoint.in_use', 'Stream.__init__', 'StreamEndPointProxy.__init__',
                       'Set_Configuration_Response.*', 'Simple_Command.*']


def acp_mod(n):
    return ['self.streams', 'ghost.calls'] + [f'self.local_endpoints[{i}].stream' for i in range(n)]


for _n in N_ENDPOINTS:
    for _m in N_OTHER_STREAMS:
        contract(
            'bumble.avdtp:Protocol.on_set_configuration_command',
            key=f'bumble.avdtp:Protocol.on_set_configuration_command@e{_n}s{_m}',
            prop='C19',
            params=dict(self=protocol_model(_n, _m), command=Inst('bumble.avdtp:Set_Configuration_Command#acp')),
            ghost=ACP_GHOST,
            ensures=setconf_post(_n),
            ensures_names=setconf_names(_n),
            modifies=acp_mod(_n),
            inline=ACP_INLINE + ['Stream.on_set_configuration_command'],
            note=f'bounded: {_n} local end points, {_m} other entries in Protocol.streams',
        )


# ---------------------------------------------------------------------------
# one-SEID procedures on an existing stream: reconfigure / open / close / abort
# ---------------------------------------------------------------------------
from contracts.c19_stream import ABORTING, CLOSING, L_ON_ABORT, L_ON_CLOSE, L_ON_OPEN, L_ON_RECONFIGURE, OPEN, STREAMING  # noqa: E402

model('bumble.avdtp:Reconfigure_Command#acp', fields=dict(acp_seid=Int, capabilities=Any))


def stream_mod(n):
    return ['ghost.calls'] + [f'self.local_endpoints[{i}].stream.{f}' for i in range(n) for f in ('state', 'rtp_channel', 'protocol.channel_acceptor')]


def delegated(legal, target, hook, response_cls, never_refused=False):
    """what the handler does to the end point's stream `s` (state `s0`, media channel `ch0` at entry): from the table in
    notes/C19/NOTES.md, i.e. the contract of Stream.on_<x>_command"""

    def f(s, s0, ch0, res, old, ghost):
        ok = legal(s0)
        accepted = ok and (never_refused or ghost.local_answer is None)
        return [
            # not legal in the current state: refused without changing it, the local end point is not asked
            ok or (res is not None and not isinstance(res, response_cls) and s.state == s0 and ghost.calls == old.ghost.calls),
            (not ok) or ghost.calls == old.ghost.calls + [hook],
            (not ok) or accepted or (res == ghost.local_answer and s.state == s0),
            (not accepted) or (isinstance(res, response_cls) and s.state == target(ch0)),
        ]

    return f


DELEGATED_NAMES = ['illegal-refused-state-unchanged', 'legal-local-endpoint-asked-once', 'local-refusal-returned-state-unchanged', 'accepted-response-and-target-state']


def guarded(hit, clauses):
    out = []
    for c in clauses:
        out = out + [(not hit) or c]
    return out


def one_seid_endpoint(self, res, old, ghost, i, hit, no_stream_cls, effect):
    ep = self.local_endpoints[i]
    oep = old.self.local_endpoints[i]
    out = [
        # the end point keeps its stream object; another end point's stream is not touched at all
        same(ep, oep) and (same(ep.stream, oep.stream) if hit else stream_kept(ep, oep)),
        implies(hit and oep.stream is None, isinstance(res, no_stream_cls) and (no_stream_cls is avdtp.Abort_Response or res.error_code == BAD_STATE)),
        implies(hit and oep.stream is None, all_kept(self, old, ghost)),
    ]
    if oep.stream is not None:
        return out + guarded(hit, effect(ep.stream, oep.stream.state, oep.stream.rtp_channel, res, old, ghost))
    return out + [True, True, True, True]


def one_seid_post(n, reject_cls, no_stream_cls, effect):
    def post(self, command, res, old, ghost):
        k = command.acp_seid
        known = 0 < k and k <= n
        out = [
            implies(not known, isinstance(res, reject_cls) and (reject_cls is avdtp.Abort_Response or res.error_code == BAD_ACP_SEID)),
            implies(not known, all_kept(self, old, ghost)),
            table_kept(self, old) and len(self.local_endpoints) == n,
        ]
        for i in range(n):
            out = out + one_seid_endpoint(self, res, old, ghost, i, k == i + 1, no_stream_cls, effect)
        return out

    return post


def one_seid_names(n):
    names = ['unknown-seid-rejected-bad-acp-seid', 'unknown-seid-nothing-changed', 'stream-table-and-endpoint-list-kept']
    for i in range(n):
        names += [f'{what}[{i + 1}]' for what in ['stream-object-kept-others-untouched', 'no-stream-rejected-bad-state', 'no-stream-nothing-changed'] + DELEGATED_NAMES]
    return names


ONE_SEID = [
    # handler, command model, reject for an unknown SEID, answer when there is no stream, effect on the stream
    ('on_reconfigure_command', 'bumble.avdtp:Reconfigure_Command#acp', avdtp.Reconfigure_Reject, avdtp.Reconfigure_Reject,
     delegated(lambda s: s == OPEN, lambda ch: OPEN, L_ON_RECONFIGURE, avdtp.Reconfigure_Response)),
    ('on_open_command', 'bumble.avdtp:Simple_Command#acp', avdtp.Open_Reject, avdtp.Open_Reject,
     delegated(lambda s: s == CONFIGURED, lambda ch: OPEN, L_ON_OPEN, avdtp.Open_Response)),
    ('on_close_command', 'bumble.avdtp:Simple_Command#acp', avdtp.Close_Reject, avdtp.Close_Reject,
     delegated(lambda s: s == OPEN or s == STREAMING, lambda ch: IDLE if ch is None else CLOSING, L_ON_CLOSE, avdtp.Close_Response)),
    # abort is never refused (AVDTP 8.16.2: no reject; an unknown SEID or an idle end point is answered with a plain response)
    ('on_abort_command', 'bumble.avdtp:Simple_Command#acp', avdtp.Abort_Response, avdtp.Abort_Response,
     delegated(lambda s: True, lambda ch: IDLE if ch is None else ABORTING, L_ON_ABORT, avdtp.Abort_Response, never_refused=True)),
]

for (_h, _cmd, _rej, _nostream, _eff) in ONE_SEID:
    for _n in N_ENDPOINTS:
        contract(
            f'bumble.avdtp:Protocol.{_h}',
            key=f'bumble.avdtp:Protocol.{_h}@e{_n}',
            prop='C19',
            params=dict(self=protocol_model(_n, 0), command=Inst(_cmd)),
            ghost=ACP_GHOST,
            ensures=one_seid_post(_n, _rej, _nostream, _eff),
            ensures_names=one_seid_names(_n),
            modifies=stream_mod(_n),
            inline=INLINE + ['Protocol.get_local_endpoint_by_seid', 'Reconfigure_Reject.*', 'Reconfigure_Response.*', 'Open_Reject.*', 'Open_Response.*',
                             'Close_Reject.*', 'Close_Response.*', 'Abort_Response.*'],
            uses=[f'bumble.avdtp:Stream.{_h}'],
            note=f'bounded: {_n} local end points; Protocol.streams is not read or written by this handler (frame condition), it is empty here',
        )
