"""C09 — close paths of the two channel classes: local disconnect, remote disconnect request, disconnect response,
abort (link loss).  Every path must take the channel out of BOTH tables and release whoever waits on it."""
import asyncio

from bumble import core, l2cap
from pyvc.contracts import (Any, Bool, Bytes, Callback, Const, Event, Inst, Int, IntRange, ListOf, Opaque, Opt, TupleOf,
                            contract, forall, iff, implies, ite, lemma, model, same)
from pyvc.ext_c09 import (PoolOf, RefT, allocated, dict_same, dict_same_except, forall_elems, forall_items, forall_objs,
                          is_instance_of, is_new, now, obj_same, pool_new, pool_same_except)

from contracts.c09_tables import (CHAN, CL, CL_CLOSED, CL_OPEN, CL_WAIT_DISCONNECT, EFFECT_NAMES, HEAP, LE, LE_CONNECTED,
                                  LE_DISCONNECTED, LE_DISCONNECTING, MGR, PENDING, WF_NAMES, closed, closed_effect, distinct,
                                  entry, inner, is_le, le_open, registered_or_absent, wf)

ENVIRONMENT = [
    'a future stored in disconnection_result is completed only by the channel itself (nobody cancels the task that awaits '
    'channel.disconnect()): the field holds None or a pending future',
    'ClassicChannel: the configuration handlers (not in this kernel) complete connection_result when they move the channel to OPEN',
]

model('bumble.l2cap:L2CAP_Disconnection_Request#c09', fields=dict(identifier=IntRange(0, 255), destination_cid=IntRange(0, 0xFFFF), source_cid=IntRange(0, 0xFFFF)))
model('bumble.l2cap:L2CAP_Disconnection_Response#c09', fields=dict(identifier=IntRange(0, 255), destination_cid=IntRange(0, 0xFFFF), source_cid=IntRange(0, 0xFFFF)))
DISC_REQ = Inst('bumble.l2cap:L2CAP_Disconnection_Request#c09')
DISC_RSP = Inst('bumble.l2cap:L2CAP_Disconnection_Response#c09')

ON_CLOSED = 'bumble.l2cap:ChannelManager.on_channel_closed'
ON_CLOSED_EFFECT = 'bumble.l2cap:ChannelManager.on_channel_closed@effect'
FRAME_INLINE = ['L2CAP_Control_Frame.__init__', 'L2CAP_Disconnection_Response.__init__', 'L2CAP_Disconnection_Request.__init__']
CHAN_MOD = ['ghost.chans', 'ghost.cdicts', 'ghost.futs', 'ghost.queues', 'ghost.emitted', 'ghost.frames', 'ghost.last_handle', 'ghost.idicts']
ABORT_MOD = ['ghost.chans', 'ghost.cdicts', 'ghost.futs', 'ghost.queues', 'ghost.emitted']


def futs_ok(c):
    """invariant of the futures a channel stores (see ENVIRONMENT)"""
    return [
        c.disconnection_result is None or c.disconnection_result.st == PENDING,
        # a classic channel that is open or closing has no connect() still waiting
        is_le(c) or c.connection_result is None or c.connection_result.st != PENDING or (c.state != CL_OPEN and c.state != CL_WAIT_DISCONNECT),
        # (two different futures, each created by its own connect() / disconnect() call)
        c.connection_result is None or not same(c.connection_result, c.disconnection_result),
    ]


def released(self, old):
    """whoever awaits the futures of the channel is released, and the fields are cleared"""
    cr, dr = old.self.connection_result, old.self.disconnection_result
    return [
        self.disconnection_result is None,
        dr is None or now(dr).st != PENDING,
    ]


def others_untouched(self, old, ghost):
    """the channel keeps its identity (manager, connection, CIDs); no other channel object and no other future changed"""
    return [
        same(self.manager, old.self.manager) and same(self.connection, old.self.connection) and self.source_cid == old.self.source_cid and self.destination_cid == old.self.destination_cid,
        # no other future appears in the fields of the channel
        (self.connection_result is None or same(self.connection_result, old.self.connection_result)) and (self.disconnection_result is None or same(self.disconnection_result, old.self.disconnection_result)),
        pool_same_except(ghost.chans, old.ghost.chans, [self]),
        pool_same_except(ghost.futs, old.ghost.futs, [old.self.connection_result, old.self.disconnection_result]),
        # a completed future stays completed
        forall_objs(old.ghost.futs, lambda f: f.st == PENDING or now(f).st != PENDING),
    ]


def gone(self, old, ghost):
    """effect of ChannelManager.on_channel_closed(self) on the tables of the channel's manager"""
    return closed_effect(self.manager, old.self.manager, self, ghost, old.ghost)


def when(c, clauses):
    return [implies(c, x) for x in clauses]


# ---------------------------------------------------------------------------
# LeCreditBasedChannel
# ---------------------------------------------------------------------------
def le_abort_post(self, old, ghost):
    was_open = le_open(old.self)
    return [
        # an open channel is closed and leaves both tables; otherwise the tables are untouched
        implies(was_open, self.state == LE_DISCONNECTED),
        implies(not was_open, self.state == old.self.state and pool_same_except(ghost.cdicts, old.ghost.cdicts, [])),
        # waiters: connect() and disconnect() await these futures bare
        self.connection_result is None,
        old.self.connection_result is None or now(old.self.connection_result).st != PENDING,
        self.disconnection_result is None,
        old.self.disconnection_result is None or now(old.self.disconnection_result).st != PENDING,
        # drain() awaits this event bare
        self.drained.is_set(),
    ] + others_untouched(self, old, ghost)


LE_ABORT_NAMES = ['open-channel-closed', 'otherwise-untouched', 'connection-result-cleared', 'connect-waiter-released',
                  'disconnection-result-cleared', 'disconnect-waiter-released', 'drain-waiter-released', 'identity-kept', 'no-new-future', 'other-channels-untouched', 'other-futures-untouched', 'futures-only-complete']
LE_INLINE = ['LeCreditBasedChannel._change_state', 'LeCreditBasedChannel.send_control_frame', 'LeCreditBasedChannel.flush_output'] + FRAME_INLINE

LE_ABORT = dict(
    params=dict(self=CHAN),
    ghost=HEAP,
    requires=lambda self: [is_le(self)] + distinct(self.manager) + registered_or_absent(self.manager, self) + futs_ok(self),
    ensures=lambda self, old, ghost: le_abort_post(self, old, ghost) + when(le_open(old.self), gone(self, old, ghost)),
    ensures_names=LE_ABORT_NAMES + EFFECT_NAMES,
    modifies=ABORT_MOD,
)
contract('bumble.l2cap:LeCreditBasedChannel.abort', prop='C09', uses=[ON_CLOSED_EFFECT], inline=LE_INLINE, **LE_ABORT)
contract('bumble.l2cap:LeCreditBasedChannel.abort', key='bumble.l2cap:LeCreditBasedChannel.abort@callee', **LE_ABORT)


def in_tables(self):
    """the channel is the one registered under its identifiers (it was found through the table)"""
    return [same(entry(self.manager.channels, self.connection.handle, self.source_cid), self)]


def le_close_post(self, old, ghost):
    return [
        self.state == LE_DISCONNECTED,
        self.disconnection_result is None,
        old.self.disconnection_result is None or now(old.self.disconnection_result).st != PENDING,
        self.drained.is_set(),
    ] + others_untouched(self, old, ghost)


LE_CLOSE_NAMES = ['closed', 'disconnection-result-cleared', 'disconnect-waiter-released', 'drain-waiter-released', 'identity-kept', 'no-new-future', 'other-channels-untouched', 'other-futures-untouched', 'futures-only-complete']

contract(
    'bumble.l2cap:LeCreditBasedChannel.on_disconnection_request',
    prop='C09',
    params=dict(self=CHAN, request=DISC_REQ),
    ghost=HEAP,
    requires=lambda self: [is_le(self)] + wf(self.manager, None) + in_tables(self) + futs_ok(self),
    # the peer closes the channel: a response goes out, the channel is closed, leaves both tables, the invariant holds again
    ensures=lambda self, old, ghost: [ghost.frames == old.ghost.frames + 1] + le_close_post(self, old, ghost) + gone(self, old, ghost) + wf(self.manager, None),
    ensures_names=['response-sent'] + LE_CLOSE_NAMES + EFFECT_NAMES + WF_NAMES,
    uses=[ON_CLOSED],
    inline=LE_INLINE,
    modifies=CHAN_MOD,
)


def le_rsp_matches(self, response):
    return self.state == LE_DISCONNECTING and response.destination_cid == self.destination_cid and response.source_cid == self.source_cid


contract(
    'bumble.l2cap:LeCreditBasedChannel.on_disconnection_response',
    prop='C09',
    params=dict(self=CHAN, response=DISC_RSP),
    ghost=HEAP,
    requires=lambda self: [is_le(self)] + wf(self.manager, None) + in_tables(self) + futs_ok(self),
    ensures=lambda self, response, old, ghost: when(le_rsp_matches(old.self, response), le_close_post(self, old, ghost)[:3] + [implies(old.self.drained.is_set(), self.drained.is_set())] + le_close_post(self, old, ghost)[4:] + gone(self, old, ghost))
    + [implies(not le_rsp_matches(old.self, response), pool_same_except(ghost.chans, old.ghost.chans, []) and pool_same_except(ghost.cdicts, old.ghost.cdicts, []) and pool_same_except(ghost.futs, old.ghost.futs, []))]
    + wf(self.manager, None) + [ghost.frames == old.ghost.frames],
    ensures_names=LE_CLOSE_NAMES + EFFECT_NAMES + ['stray-response-ignored'] + WF_NAMES + ['no-frame-sent'],
    uses=[ON_CLOSED],
    inline=LE_INLINE,
    modifies=CHAN_MOD,
)


# ---------------------------------------------------------------------------
# ClassicChannel
# ---------------------------------------------------------------------------
CL_INLINE = ['ClassicChannel._change_state', 'ClassicChannel.send_control_frame', 'ClassicChannel._abort_connection_result', 'L2capError.__init__', 'BaseError.__init__'] + FRAME_INLINE


def cl_abort_post(self, old, ghost):
    return [
        # the link is gone: an established channel (open, or waiting for the answer to its disconnection request) is closed
        implies(old.self.state == CL_OPEN or old.self.state == CL_WAIT_DISCONNECT, self.state == CL_CLOSED),
        # disconnect() awaits this future bare
        self.disconnection_result is None or self.disconnection_result.st != PENDING,
        old.self.disconnection_result is None or now(old.self.disconnection_result).st != PENDING,
        # abort is only reached after the tables of the connection were dropped: it must not touch them
        pool_same_except(ghost.cdicts, old.ghost.cdicts, []),
    ] + others_untouched(self, old, ghost)


CL_ABORT = dict(
    params=dict(self=CHAN),
    ghost=HEAP,
    requires=lambda self: [not is_le(self)] + futs_ok(self),
    ensures=cl_abort_post,
    ensures_names=['closed', 'disconnect-waiter-released', 'disconnect-future-completed', 'tables-untouched', 'identity-kept', 'no-new-future', 'other-channels-untouched', 'other-futures-untouched', 'futures-only-complete'],
    modifies=ABORT_MOD,
)
contract('bumble.l2cap:ClassicChannel.abort', prop='C09', inline=CL_INLINE, **CL_ABORT)
contract('bumble.l2cap:ClassicChannel.abort', key='bumble.l2cap:ClassicChannel.abort@callee', **CL_ABORT)


def cl_close_post(self, old, ghost):
    return [
        self.state == CL_CLOSED,
        self.disconnection_result is None or self.disconnection_result.st != PENDING,
        old.self.disconnection_result is None or now(old.self.disconnection_result).st != PENDING,
        # connect() may still be waiting: it is released too
        old.self.connection_result is None or now(old.self.connection_result).st != PENDING,
    ] + others_untouched(self, old, ghost)


CL_CLOSE_NAMES = ['closed', 'disconnect-waiter-released', 'disconnect-future-completed', 'connect-waiter-released', 'identity-kept', 'no-new-future', 'other-channels-untouched', 'other-futures-untouched', 'futures-only-complete']

contract(
    'bumble.l2cap:ClassicChannel.on_disconnection_request',
    prop='C09',
    params=dict(self=CHAN, request=DISC_REQ),
    ghost=HEAP,
    requires=lambda self: [not is_le(self)] + wf(self.manager, None) + in_tables(self) + futs_ok(self),
    ensures=lambda self, old, ghost: [ghost.frames == old.ghost.frames + 1] + cl_close_post(self, old, ghost) + gone(self, old, ghost) + wf(self.manager, None),
    ensures_names=['response-sent'] + CL_CLOSE_NAMES + EFFECT_NAMES + WF_NAMES,
    uses=[ON_CLOSED],
    inline=CL_INLINE,
    modifies=CHAN_MOD,
)


def cl_rsp_matches(self, response):
    """the answer to our disconnection request (a stray response, e.g. while the channel is still connecting, is ignored)"""
    return self.state == CL_WAIT_DISCONNECT and response.destination_cid == self.destination_cid and response.source_cid == self.source_cid


contract(
    'bumble.l2cap:ClassicChannel.on_disconnection_response',
    prop='C09',
    params=dict(self=CHAN, response=DISC_RSP),
    ghost=HEAP,
    requires=lambda self: [not is_le(self)] + wf(self.manager, None) + in_tables(self) + futs_ok(self),
    ensures=lambda self, response, old, ghost: when(cl_rsp_matches(old.self, response), cl_close_post(self, old, ghost) + gone(self, old, ghost))
    + [implies(not cl_rsp_matches(old.self, response), pool_same_except(ghost.chans, old.ghost.chans, []) and pool_same_except(ghost.cdicts, old.ghost.cdicts, []) and pool_same_except(ghost.futs, old.ghost.futs, []))]
    + wf(self.manager, None) + [ghost.frames == old.ghost.frames],
    ensures_names=CL_CLOSE_NAMES + EFFECT_NAMES + ['stray-response-ignored'] + WF_NAMES + ['no-frame-sent'],
    uses=[ON_CLOSED],
    inline=CL_INLINE,
    modifies=CHAN_MOD,
)


# ---------------------------------------------------------------------------
# local disconnect: the future the caller waits on is the one every close path completes
# ---------------------------------------------------------------------------
def new_future(ghost):
    return pool_new(ghost.futs, None, st=PENDING)


model('ghost:Loop#c09', fields={}, methods={'create_future': Callback('create_future', effect=new_future)})
LOOP_STUBS = {asyncio.get_running_loop: Callback('get_running_loop', effect=lambda ghost: ghost.loop)}
HEAP_LOOP = dict(HEAP, loop=Inst('ghost:Loop#c09'))
NEXT_ID = 'bumble.l2cap:ChannelManager.next_identifier'


def waiting_on(self, fut, old, ghost, state):
    """at the await: the request is out, the channel is in `state`, and the awaited future is the pending future stored
    in disconnection_result -- which abort(), on_disconnection_request() and on_disconnection_response() complete"""
    return [
        self.state == state,
        fut is not None and same(self.disconnection_result, fut),
        fut.st == PENDING if fut is not None else False,
        ghost.frames == old.ghost.frames + 1,
        # the tables are not touched by a local disconnect (the channel stays registered until the peer answers)
        pool_same_except(ghost.cdicts, old.ghost.cdicts, []),
        pool_same_except(ghost.chans, old.ghost.chans, [self]),
    ]


contract(
    'bumble.l2cap:LeCreditBasedChannel.disconnect',
    prop='C09',
    params=dict(self=CHAN),
    ghost=HEAP_LOOP,
    requires=lambda self: [is_le(self)] + futs_ok(self),
    raises={core.InvalidStateError: lambda self, old, ghost: [old.self.state != LE_CONNECTED, pool_same_except(ghost.chans, old.ghost.chans, []), ghost.frames == old.ghost.frames]},
    await_inv=lambda self, disconnection_result, old, ghost: waiting_on(self, disconnection_result, old, ghost, LE_DISCONNECTING) + [self.drained.is_set()],
    uses=[NEXT_ID],
    inline=LE_INLINE,
    stubs=LOOP_STUBS,
    modifies=CHAN_MOD,
)
contract(
    'bumble.l2cap:ClassicChannel.disconnect',
    prop='C09',
    params=dict(self=CHAN),
    ghost=HEAP_LOOP,
    requires=lambda self: [not is_le(self)] + futs_ok(self),
    raises={core.InvalidStateError: lambda self, old, ghost: [old.self.state != CL_OPEN, pool_same_except(ghost.chans, old.ghost.chans, []), ghost.frames == old.ghost.frames]},
    await_inv=lambda self, old, ghost: waiting_on(self, self.disconnection_result, old, ghost, CL_WAIT_DISCONNECT),
    uses=[NEXT_ID],
    inline=CL_INLINE + ['ClassicChannel._disconnect_sync'],
    stubs=LOOP_STUBS,
    modifies=CHAN_MOD,
)
