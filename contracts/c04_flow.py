"""C04 — outbound data obeys controller buffer credits, stays FIFO and never stalls."""
import collections

from pyvc.contracts import (Any, Bool, Bytes, Callback, DequeOf, Event, Inst, Int, IntRange, ListOf, MapOf, Opaque, OneOf,
                            Opt, TupleOf, contract, forall, iff, implies, lemma, model, at, ite, mget, mhas)

ENVIRONMENT = [
    'asyncio scheduling: between two awaits the pump runs atomically (A1); at an await any other pipe operation may run '
    '(rely: they preserve the pipe invariant, which is what their own contracts prove)',
    'the sink / source callbacks do not re-enter the pipe (A2)',
    'queued_bytes == sum of queued packet lengths is not proved (needs a fold); only its use for pause/resume is covered',
]

# ---------------------------------------------------------------------------
# FlowControlAsyncPipe
# ---------------------------------------------------------------------------


def sink_write(ghost, packet):
    ghost.sunk = ghost.sunk + [packet]


def src_pause(ghost):
    ghost.pauses = ghost.pauses + 1


def src_resume(ghost):
    ghost.resumes = ghost.resumes + 1


model(
    'bumble.utils:FlowControlAsyncPipe',
    fields=dict(
        pause_source=Callback('pause_source', effect=src_pause),
        resume_source=Callback('resume_source', effect=src_resume),
        write_to_sink=Opt(Callback('write_to_sink', effect=sink_write)),
        drain_sink=Opt(Callback('drain_sink', is_async=True)),
        threshold=Int,
        queue=DequeOf(Bytes),
        queued_bytes=Int,
        ready_to_pump=Event(),
        paused=Bool,
        source_paused=Bool,
        pump_task=Any,
    ),
)
PIPE = Inst('bumble.utils:FlowControlAsyncPipe')
PIPE_GHOST = dict(sunk=ListOf(Bytes), stream=ListOf(Bytes), pauses=Int, resumes=Int)


def can(self):
    return len(self.queue) > 0 and not self.paused and self.write_to_sink is not None


def pipe_inv(self, ghost):
    """everything written is either already delivered or still queued, in the order written:
    delivered ++ queued (oldest first) == the stream written so far"""
    return [ghost.sunk + list(self.queue) == ghost.stream]


PIPE_MOD = ['self.queue', 'self.queued_bytes', 'self.ready_to_pump', 'self.paused', 'self.source_paused', 'ghost.sunk', 'ghost.stream', 'ghost.pauses', 'ghost.resumes']

contract(
    'bumble.utils:FlowControlAsyncPipe.write',
    prop='C04',
    params=dict(self=PIPE, packet=Bytes),
    ghost=PIPE_GHOST,
    ensures=lambda self, packet, old, ghost: [
        list(self.queue) == list(old.self.queue) + [packet],  # appended at the tail: written order is kept
        ghost.sunk == old.ghost.sunk,  # write itself delivers nothing
        self.queued_bytes == old.self.queued_bytes + len(packet),
        iff(self.ready_to_pump.is_set(), can(self)),
    ],
    ensures_names=['appended-in-order', 'nothing-delivered', 'byte-count', 'pump-flag-consistent'],
    modifies=['self.queue', 'self.queued_bytes', 'self.ready_to_pump', 'self.source_paused', 'ghost.pauses'],
    inline=['FlowControlAsyncPipe.check_pump', 'FlowControlAsyncPipe.can_pump'],
)

for _op in ('pause', 'resume'):
    contract(
        f'bumble.utils:FlowControlAsyncPipe.{_op}',
        prop='C04',
        params=dict(self=PIPE),
        ghost=PIPE_GHOST,
        ensures=lambda self, old, ghost: [
            list(self.queue) == list(old.self.queue),
            ghost.sunk == old.ghost.sunk,
            iff(self.ready_to_pump.is_set(), can(self)) or self.paused == old.self.paused,
        ],
        ensures_names=['queue-untouched', 'nothing-delivered', 'pump-flag-consistent'],
        modifies=['self.paused', 'self.source_paused', 'self.ready_to_pump', 'ghost.pauses', 'ghost.resumes'],
        inline=['FlowControlAsyncPipe.check_pump', 'FlowControlAsyncPipe.can_pump'],
    )

contract(
    'bumble.utils:FlowControlAsyncPipe.pump',
    prop='C04',
    params=dict(self=PIPE),
    ghost=PIPE_GHOST,
    requires=lambda self, ghost: pipe_inv(self, ghost),
    # never returns; natively the task is run until it blocks and this is checked then
    ensures=lambda self, old, ghost: [ghost.sunk + list(self.queue) == old.ghost.sunk + list(old.self.queue)],
    ensures_names=['delivered-exactly-once-in-order'],
    invariants={0: lambda self, ghost: pipe_inv(self, ghost)},
    await_inv=lambda self, ghost: pipe_inv(self, ghost),
    modifies=PIPE_MOD,
    inline=['FlowControlAsyncPipe.can_pump', 'FlowControlAsyncPipe.check_pump'],
    native_run_for=0.2,
    native_setup=lambda env: env['self'].check_pump(),
)


# ---------------------------------------------------------------------------
# DataPacketQueue
# ---------------------------------------------------------------------------
def q_send(ghost, packet):
    # ghost.sent lists the packets handed to the controller, most recent first
    ghost.sent = [packet] + ghost.sent


def q_emit(ghost, event):
    ghost.flows = ghost.flows + 1


PCS = 'bumble.host:DataPacketQueue.PerConnectionState'
model(PCS, fields=dict(in_flight=(Int, 0), drained=(Event(), False)))
model(
    'bumble.host:DataPacketQueue',
    fields=dict(
        max_packet_size=Int,
        max_in_flight=Int,
        _in_flight=Int,
        _connection_state=MapOf(PCS, default_factory=True),
        _send=Callback('_send', effect=q_send),
        _packets=DequeOf(TupleOf(Opaque('pkt'), Int)),
        _queued=Int,
        _completed=Int,
    ),
    methods={'emit': Callback('emit', effect=q_emit)},
)
QUEUE = Inst('bumble.host:DataPacketQueue')
# ghost.h: a fixed but arbitrary connection handle (clauses mentioning it hold for every handle)
# ghost.g: a second fixed but arbitrary connection handle, used by the drained invariant
Q_GHOST = dict(sent=ListOf(Opaque('pkt')), flows=Int, h=Int, g=IntRange(0, 0xFFFF))


def credits_ok(self):
    """P1: never more packets in flight than the controller advertised buffers"""
    return self.max_in_flight >= 1 and 0 <= self._in_flight and self._in_flight <= self.max_in_flight


def no_stall(self):
    """P3: a packet waits only while every controller buffer is in use"""
    return len(self._packets) == 0 or self._in_flight >= self.max_in_flight


def wf_queue(self):
    return [credits_ok(self), no_stall(self)]


def drained_inv(self, ghost):
    """a waiter in drain(g) is released exactly when connection g has nothing in flight: for every
    connection the queue knows, its `drained` event is set iff its in-flight count is 0 (ghost.g is arbitrary)"""
    cs = self._connection_state
    return implies(mhas(cs, ghost.g), mget(cs, ghost.g, 'in_flight') >= 0 and iff(mget(cs, ghost.g, 'drained'), mget(cs, ghost.g, 'in_flight') == 0))


def pkts(entries):
    return [p for (p, h) in entries]


def fifo_step(self, D, old, ghost):
    """P2: from the waiting deque D (newest at index 0, oldest at the end) the k oldest packets
    were handed to the controller, oldest first, each exactly once (ghost.sent is most recent
    first, so its new part is exactly the packets of D[n-k:] in deque order); the others still
    wait in the same order"""
    n = len(D)
    k = len(ghost.sent) - len(old.ghost.sent)
    return [
        k >= 0,
        k <= n,
        list(self._packets) == D[: n - k],
        ghost.sent == pkts(D[n - k :]) + old.ghost.sent,
    ]


def state_step(self, D, old, ghost):
    """per-connection state is created only for connections that had a packet waiting"""
    return [implies(forall(0, len(D), lambda i: D[i][1] != ghost.h), iff(mhas(self._connection_state, ghost.h), mhas(old.self._connection_state, ghost.h)))]


CHECK_Q = dict(
    params=dict(self=QUEUE),
    ghost=Q_GHOST,
    requires=lambda self, ghost: [credits_ok(self), drained_inv(self, ghost)],
    ensures=lambda self, old, ghost: [
        credits_ok(self),
        no_stall(self),
        len(ghost.sent) - len(old.ghost.sent) == self._in_flight - old.self._in_flight,
    ]
    + fifo_step(self, list(old.self._packets), old, ghost)
    + state_step(self, list(old.self._packets), old, ghost)
    + [drained_inv(self, ghost)],
    ensures_names=['credits', 'no-stall', 'one-credit-per-packet', 'k>=0', 'k<=n', 'rest-waits-in-order', 'sent-oldest-first-exactly-once', 'state-only-for-sending-connections', 'drained-iff-nothing-in-flight'],
    modifies=['self._in_flight', 'self._packets', 'self._connection_state', 'ghost.sent'],
)

contract(
    'bumble.host:DataPacketQueue._check_queue',
    prop='C04',
    invariants={
        0: lambda self, old, ghost: [
            credits_ok(self),
            len(ghost.sent) - len(old.ghost.sent) == self._in_flight - old.self._in_flight,
        ]
        + fifo_step(self, list(old.self._packets), old, ghost)
        + state_step(self, list(old.self._packets), old, ghost)
        + [drained_inv(self, ghost)]
    },
    decreases={0: lambda self: len(self._packets)},
    **CHECK_Q,
)

contract('bumble.host:DataPacketQueue._check_queue', key='bumble.host:DataPacketQueue._check_queue@callee', **CHECK_Q)
USE_CHECK = ['bumble.host:DataPacketQueue._check_queue@callee']

contract(
    'bumble.host:DataPacketQueue.enqueue',
    prop='C04',
    params=dict(self=QUEUE, packet=Opaque('pkt'), connection_handle=IntRange(0, 0xFFFF)),
    ghost=Q_GHOST,
    requires=lambda self, ghost: wf_queue(self) + [drained_inv(self, ghost)],
    ensures=lambda self, packet, connection_handle, old, ghost: wf_queue(self)
    + [self._queued == old.self._queued + 1]
    + fifo_step(self, [(packet, connection_handle)] + list(old.self._packets), old, ghost)
    + [drained_inv(self, ghost)],
    ensures_names=['credits', 'no-stall', 'queued-count', 'k>=0', 'k<=n', 'rest-waits-in-order', 'sent-oldest-first-exactly-once', 'drained-iff-nothing-in-flight'],
    modifies=['self._in_flight', 'self._packets', 'self._connection_state', 'self._queued', 'ghost.sent'],
    uses=USE_CHECK,
)

contract(
    'bumble.host:DataPacketQueue.on_packets_completed',
    prop='C04',
    params=dict(self=QUEUE, packet_count=IntRange(0, 0xFFFF), connection_handle=IntRange(0, 0xFFFF)),
    ghost=Q_GHOST,
    requires=lambda self, ghost: wf_queue(self) + [drained_inv(self, ghost)],
    # any count (over-reports included) and any handle (unknown ones included) keep the invariant
    ensures=lambda self, packet_count, connection_handle, old, ghost: wf_queue(self)
    + fifo_step(self, list(old.self._packets), old, ghost)
    + [
        ghost.flows == old.ghost.flows + (1 if mhas(old.self._connection_state, connection_handle) else 0),
        # a report for an unknown connection changes nothing
        implies(not mhas(old.self._connection_state, connection_handle), self._in_flight == old.self._in_flight and len(ghost.sent) == len(old.ghost.sent)),
        # waiting for a connection to drain finishes as soon as its packets have been completed (over-reports included)
        drained_inv(self, ghost),
    ],
    ensures_names=['credits', 'no-stall', 'k>=0', 'k<=n', 'rest-waits-in-order', 'sent-oldest-first-exactly-once', 'flow-event', 'unknown-handle-ignored', 'drained-iff-nothing-in-flight'],
    modifies=['self._in_flight', 'self._packets', 'self._connection_state', 'self._completed', 'ghost.sent', 'ghost.flows'],
    uses=USE_CHECK,
)


def keep_others(entries, h):
    return [(p, x) for (p, x) in entries if x != h]


contract(
    'bumble.host:DataPacketQueue.flush',
    prop='C04',
    params=dict(self=QUEUE, connection_handle=IntRange(0, 0xFFFF)),
    ghost=Q_GHOST,
    requires=lambda self, connection_handle, ghost: wf_queue(self) + [drained_inv(self, ghost)] + [ghost.h == connection_handle] + [forall(0, 65536, lambda h: implies(mhas(self._connection_state, h), 0 <= mget(self._connection_state, h, 'in_flight') and mget(self._connection_state, h, 'in_flight') <= self._in_flight))],
    ensures=lambda self, connection_handle, old, ghost: [
        credits_ok(self),
        # right after another connection's packets were discarded, nothing waits while a buffer is free
        no_stall(self),
        # no packet of the closed connection remains; the others keep their relative order
        forall(0, len(self._packets), lambda i: self._packets[i][1] != connection_handle),
        not mhas(self._connection_state, connection_handle),
    ]
    + fifo_step(self, keep_others(list(old.self._packets), connection_handle), old, ghost)
    + [drained_inv(self, ghost)],
    ensures_names=['credits', 'no-stall-after-flush', 'no-packet-of-closed-connection', 'state-forgotten', 'k>=0', 'k<=n', 'rest-waits-in-order', 'sent-oldest-first-exactly-once', 'drained-iff-nothing-in-flight'],
    modifies=['self._in_flight', 'self._packets', 'self._connection_state', 'self._completed', 'ghost.sent'],
    uses=USE_CHECK,
)

model(
    'bumble.host:DataPacketQueue#new',
    fields=dict(max_packet_size=Any, max_in_flight=Any, _in_flight=Any, _connection_state=Any, _send=Any, _packets=Any, _queued=Any, _completed=Any),
)
contract(
    'bumble.host:DataPacketQueue.__init__',
    prop='C04',
    params=dict(self=Inst('bumble.host:DataPacketQueue#new'), max_packet_size=Int, max_in_flight=Int, send=Callback('_send', effect=q_send)),
    requires=lambda max_in_flight: max_in_flight >= 1,
    ensures=lambda self, max_packet_size, max_in_flight: wf_queue(self)
    + [self._in_flight == 0, len(self._packets) == 0, self.max_in_flight == max_in_flight, self.max_packet_size == max_packet_size, self._queued == 0, self._completed == 0],
    modifies=['self.*'],
)




# ---------------------------------------------------------------------------
# Host.on_hci_number_of_completed_packets_event: every (handle, count) entry of the event reaches the queue of that handle
# ---------------------------------------------------------------------------
def h_lookup(ghost, connection_handle):
    """recording stub for Host.get_data_packet_queue: one look-up per entry, in event order"""
    assert ghost.pos < len(ghost.hs) and ghost.pos < len(ghost.ns)
    assert connection_handle == ghost.hs[ghost.pos]
    ghost.pos = ghost.pos + 1
    ghost.reported = False
    if connection_handle in ghost.queues:
        ghost.expected = ghost.expected + 1
        return ghost.q
    return None


def h_completed(ghost, packet_count, connection_handle):
    """recording stub for DataPacketQueue.on_packets_completed: the report is the entry just looked up, once"""
    assert ghost.pos >= 1 and not ghost.reported
    assert connection_handle == ghost.hs[ghost.pos - 1] and packet_count == ghost.ns[ghost.pos - 1]
    assert connection_handle in ghost.queues
    ghost.reported = True
    ghost.calls = ghost.calls + 1


model('ghost:Queue#c04host', fields={}, methods={'on_packets_completed': Callback('on_packets_completed', effect=h_completed)})
model(
    'bumble.host:Host#c04',
    fields=dict(sco_links=MapOf(PCS)),
    methods={'get_data_packet_queue': Callback('get_data_packet_queue', effect=h_lookup)},
)
model('bumble.hci:HCI_Number_Of_Completed_Packets_Event', fields=dict(connection_handles=ListOf(IntRange(0, 0xFFFF)), num_completed_packets=ListOf(IntRange(0, 0xFFFF))))


def h_inv(ghost, n_done):
    return [
        0 <= n_done and n_done <= len(ghost.hs),
        ghost.pos == n_done,
        ghost.calls == ghost.expected,
    ]


contract(
    'bumble.host:Host.on_hci_number_of_completed_packets_event',
    prop='C04',
    params=dict(self=Inst('bumble.host:Host#c04'), event=Inst('bumble.hci:HCI_Number_Of_Completed_Packets_Event')),
    ghost=dict(hs=ListOf(Int), ns=ListOf(Int), pos=Int, expected=Int, calls=Int, reported=Bool, queues=MapOf(PCS), q=Inst('ghost:Queue#c04host')),
    requires=lambda event, ghost: [
        ghost.hs == list(event.connection_handles),
        ghost.ns == list(event.num_completed_packets),
        len(ghost.hs) == len(ghost.ns),
        ghost.pos == 0,
        ghost.expected == 0,
        ghost.calls == 0,
    ],
    # every entry is looked up once, in order (h_lookup), each report is for the entry just looked up with its own
    # count and goes to a connection that has a queue (h_completed), and as many reports were made as entries have a
    # queue: an unknown or SCO handle in the middle of the event does not stop the later entries from being credited
    ensures=lambda event, ghost: [ghost.pos == len(ghost.hs), ghost.calls == ghost.expected],
    ensures_names=['every-entry-processed', 'every-entry-with-a-queue-reported-once'],
    invariants={0: lambda ghost, _i: h_inv(ghost, _i)},
    decreases={0: lambda ghost, _i: len(ghost.hs) - _i},
    modifies=['ghost.pos', 'ghost.expected', 'ghost.calls', 'ghost.reported'],
    note='Host.get_data_packet_queue (three table look-ups) and the queue are recording stubs here; the queue side is DataPacketQueue.on_packets_completed above',
)
