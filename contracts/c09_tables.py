"""C09 — L2CAP channel tables stay exact; closed identifiers are reusable.

Heap model (pyvc/ext_c09.py): every object the kernel touches lives in a *pool* (ghost field), tables are pooled
dicts with symbolic keys, so the contracts speak about any number of connections and channels:

    ghost.mgrs    ChannelManager objects           ghost.odicts  dicts {connection handle: inner dict}
    ghost.chans   ClassicChannel / LeCreditBasedChannel objects (one pool: both kinds share `channels[h]`)
    ghost.cdicts  inner dicts {cid: channel}       ghost.conns   connections (only `.handle` matters)
    ghost.futs    asyncio futures (state only)     ghost.idicts  {handle: last identifier}
"""
import asyncio

from bumble import core, l2cap
from pyvc.contracts import (Any, Bool, Bytes, Callback, Const, Event, Inst, Int, IntRange, ListOf, Opaque, Opt, TupleOf,
                            contract, forall, iff, implies, ite, lemma, model, same)
from pyvc.ext_c09 import (PoolOf, RefT, allocated, dict_same, dict_same_except, forall_elems, forall_items, is_instance_of, is_new,
                          pool_new, pool_same_except)

ENVIRONMENT = [
    'ChannelManager.send_control_frame / send_pdu (and below them the host, ACL fragmentation = C05, HCI flow control = C04) '
    'are recording stubs: a signalling frame handed to them reaches the peer',
    'event listeners (`emit`) do not re-enter the channel or the manager (A2)',
    'asyncio futures are modelled by their state only (pending / result / exception / cancelled) with the CPython rules '
    'for set_result / set_exception / cancel / done',
    'the heap is well typed: a stored reference points to an allocated object of the declared pool (type invariant, like IntRange)',
]

LE = l2cap.LeCreditBasedChannel
CL = l2cap.ClassicChannel
LE_INIT, LE_CONNECTED, LE_CONNECTING, LE_DISCONNECTING, LE_DISCONNECTED, LE_ERROR = (int(x) for x in LE.State)
CL_CLOSED = int(CL.State.CLOSED)
CL_OPEN = int(CL.State.OPEN)
CL_WAIT_DISCONNECT = int(CL.State.WAIT_DISCONNECT)

# The table of pending LE credit-based connection requests: one table keyed by identifier (the snapshot) or one per
# connection (after notes/C09/fix-5.diff).  The class model follows the declared type of the attribute.
PER_CONN_REQUESTS = str(l2cap.ChannelManager.__annotations__.get('le_coc_requests', '')).replace(' ', '').startswith('dict[int,dict[')

# ---------------------------------------------------------------------------
# futures (state only)
# ---------------------------------------------------------------------------
PENDING, RESULT, EXCEPTION, CANCELLED = 0, 1, 2, 3


def fut_done(self):
    return self.st != PENDING


def fut_cancelled(self):
    return self.st == CANCELLED


def fut_cancel(self, msg=None):
    if self.st != PENDING:
        return False
    self.st = CANCELLED
    return True


def fut_set_result(self, result):
    if self.st != PENDING:
        raise asyncio.InvalidStateError()
    self.st = RESULT


def fut_set_exception(self, exception):
    if self.st != PENDING:
        raise asyncio.InvalidStateError()
    self.st = EXCEPTION


model(
    'ghost:Future#c09',
    fields=dict(st=IntRange(0, 3)),
    methods=dict(done=fut_done, cancelled=fut_cancelled, cancel=fut_cancel, set_result=fut_set_result, set_exception=fut_set_exception),
)

# ---------------------------------------------------------------------------
# collaborators
# ---------------------------------------------------------------------------
model('ghost:Conn#c09', fields=dict(handle=IntRange(0, 0xFFFF)))


def dq_clear(self):
    self.n = 0


model('ghost:Deque#c09', fields=dict(n=Int), methods=dict(clear=dq_clear), cls_attrs=dict(adopt_empty_seq='n'))


def chan_emit(ghost, event, *args):
    ghost.emitted = ghost.emitted + 1


def mgr_send_control_frame(ghost, connection, cid, frame):
    """recording stub: counts the frames and remembers the outcome of the last connection response; for an LE connection
    request it remembers on which connection the request with this identifier went out (ghost.req_owner)"""
    ghost.frames = ghost.frames + 1
    ghost.last_handle = connection.handle
    if isinstance(frame, l2cap.L2CAP_LE_Credit_Based_Connection_Request):
        ghost.req_owner[frame.identifier] = connection.handle
    if isinstance(frame, l2cap.L2CAP_LE_Credit_Based_Connection_Response):
        ghost.le_result = frame.result
        ghost.le_dcid = frame.destination_cid
    if isinstance(frame, l2cap.L2CAP_Connection_Response):
        ghost.cl_result = frame.result
        ghost.cl_dcid = frame.destination_cid


CHAN_COMMON = dict(
    manager=RefT('mgrs'),
    connection=RefT('conns'),
    state=Int,
    source_cid=Int,
    destination_cid=Int,
    connection_result=RefT('futs', opt=True),
    disconnection_result=RefT('futs', opt=True),
)
model(
    'bumble.l2cap:LeCreditBasedChannel#c09',
    fields=dict(
        CHAN_COMMON,
        out_queue=RefT('queues'),
        drained=Event(),
        connected=Bool,
        psm=Int, mtu=Int, mps=Int, credits=Int, peer_mtu=Int, peer_mps=Int, peer_credits=Int, peer_max_credits=Int, peer_credits_threshold=Int,
        in_sdu_length=Int, att_mtu=Int,
    ),
    methods={'emit': Callback('emit', effect=chan_emit)},
)
model(
    'bumble.l2cap:ClassicChannel#c09',
    fields=dict(CHAN_COMMON, signaling_cid=Int),
    methods={'emit': Callback('emit', effect=chan_emit)},
)
model(
    'bumble.l2cap:ChannelManager#c09',
    fields=dict(
        channels=RefT('odicts'),
        le_coc_channels=RefT('odicts'),
        identifiers=RefT('idicts'),
        pending_credit_based_connections=RefT('podicts'),
        le_coc_servers=RefT('lsdicts'),
        le_coc_requests=RefT('rodicts' if PER_CONN_REQUESTS else 'rdicts'),
    ),
    methods={'send_control_frame': Callback('send_control_frame', effect=mgr_send_control_frame)},
)

def srv_on_connection(ghost, channel):
    ghost.accepted = ghost.accepted + 1


model('ghost:LeServer#c09', fields=dict(mtu=IntRange(23, 65535), mps=IntRange(23, 65533), max_credits=IntRange(0, 65535)), methods={'on_connection': Callback('on_connection', effect=srv_on_connection)})

model(
    'bumble.l2cap:L2CAP_LE_Credit_Based_Connection_Request#c09p',
    fields=dict(identifier=IntRange(0, 255), le_psm=Int, source_cid=Int, mtu=Int, mps=Int, initial_credits=Int),
)

HEAP = dict(
    conns=PoolOf('ghost:Conn#c09'),
    futs=PoolOf('ghost:Future#c09'),
    queues=PoolOf('ghost:Deque#c09'),
    chans=PoolOf('bumble.l2cap:ClassicChannel#c09', 'bumble.l2cap:LeCreditBasedChannel#c09'),
    cdicts=PoolOf(dict_of=RefT('chans')),
    odicts=PoolOf(dict_of=RefT('cdicts')),
    idicts=PoolOf(dict_of=IntRange(0, 255)),
    pdicts=PoolOf(dict_of=TupleOf(RefT('futs'), Opaque('chlist'))),
    podicts=PoolOf(dict_of=RefT('pdicts')),
    mgrs=PoolOf('bumble.l2cap:ChannelManager#c09'),
    leservers=PoolOf('ghost:LeServer#c09'),
    lsdicts=PoolOf(dict_of=RefT('leservers')),
    reqs=PoolOf('bumble.l2cap:L2CAP_LE_Credit_Based_Connection_Request#c09p'),
    rdicts=PoolOf(dict_of=RefT('reqs')),
    rodicts=PoolOf(dict_of=RefT('rdicts')),
    hdicts=PoolOf(dict_of=IntRange(0, 0xFFFF)),
    req_owner=RefT('hdicts'),
    emitted=Int,
    frames=Int,
    last_handle=Int,
    le_result=Int,
    le_dcid=Int,
    cl_result=Int,
    cl_dcid=Int,
    accepted=Int,
)
MGR = RefT('mgrs')
CHAN = RefT('chans')


# ---------------------------------------------------------------------------
# the representation invariant of the tables
# ---------------------------------------------------------------------------
def is_le(c):
    return is_instance_of(c, LE)


def closed(c):
    """the channel object has reached its final state"""
    return ite(is_le(c), c.state == LE_DISCONNECTED, c.state == CL_CLOSED)


def le_open(c):
    """an LE credit-based channel that the peer can address by our destination CID"""
    return c.state == LE_CONNECTED or c.state == LE_DISCONNECTING


def entry(tbl, h, k):
    """the channel stored under (h, k), or None"""
    return tbl[h][k] if (h in tbl and k in tbl[h]) else None


def distinct(mgr):
    """the two tables and all their inner dicts are distinct objects (no aliasing between table slots)"""
    ch = mgr.channels
    le = mgr.le_coc_channels
    return [
        not same(ch, le),
        forall_items(ch, lambda h, d: forall_items(ch, lambda h2, d2: implies(same(d, d2), h == h2))),
        forall_items(le, lambda h, d: forall_items(le, lambda h2, d2: implies(same(d, d2), h == h2))),
        forall_items(ch, lambda h, d: forall_items(le, lambda h2, d2: not same(d, d2))),
    ]


def wf(mgr, exempt):
    """representation invariant of one manager (`exempt`: a channel that is being closed right now)"""
    ch = mgr.channels
    le = mgr.le_coc_channels
    return distinct(mgr) + [
        # channels[h][k] is a channel of connection h with source CID k, owned by this manager, and not closed
        forall_items(ch, lambda h, d: forall_items(d, lambda k, c: c.source_cid == k and c.connection.handle == h and same(c.manager, mgr) and (not closed(c) or same(c, exempt)))),
        # le_coc_channels[h][k] is an LE channel of connection h with destination CID k, the peer can address it,
        # and it is the channel registered under its source CID
        forall_items(le, lambda h, d: forall_items(d, lambda k, c: c.destination_cid == k and is_le(c) and c.connection.handle == h and same(c.manager, mgr) and (le_open(c) or same(c, exempt)) and same(entry(ch, h, c.source_cid), c))),
        # conversely, an LE channel that the peer can address (connected / disconnecting) is registered under its destination CID
        forall_items(ch, lambda h, d: forall_items(d, lambda k, c: implies(is_le(c) and le_open(c), same(entry(le, h, c.destination_cid), c)))),
    ]


def registered_or_absent(mgr, channel):
    """the table slots the channel's identifiers name hold this channel, or nothing"""
    h = channel.connection.handle
    a = entry(mgr.channels, h, channel.source_cid)
    b = entry(mgr.le_coc_channels, h, channel.destination_cid)
    return [a is None or same(a, channel)]


def inner(tbl, h):
    return tbl[h] if h in tbl else None


def pending_request(mgr, ghost, h, k):
    """the LE connection request with identifier k that is pending on connection h, or None"""
    if PER_CONN_REQUESTS:
        return entry(mgr.le_coc_requests, h, k)
    return mgr.le_coc_requests[k] if (k in mgr.le_coc_requests and k in ghost.req_owner and ghost.req_owner[k] == h) else None


def wf_requests(mgr, ghost):
    """(one table for all connections: the ghost map knows which connection sent each pending request)"""
    if PER_CONN_REQUESTS:
        return [forall_items(mgr.le_coc_requests, lambda h, d: forall_items(mgr.le_coc_requests, lambda h2, d2: implies(same(d, d2), h == h2)))]
    return [forall_items(mgr.le_coc_requests, lambda k, r: k in ghost.req_owner)]


# ---------------------------------------------------------------------------
# look-ups
# ---------------------------------------------------------------------------
for _fn, _tbl in (('find_channel', 'channels'), ('find_le_coc_channel', 'le_coc_channels')):
    contract(
        f'bumble.l2cap:ChannelManager.{_fn}',
        prop='C09',
        params=dict(self=MGR, connection_handle=Int, cid=Int),
        ghost=HEAP,
        ensures=(lambda t: lambda self, connection_handle, cid, res: [same(res, entry(getattr(self, t), connection_handle, cid))])(_tbl),
        ensures_names=['the-entry-or-None'],
        returns=RefT('chans', opt=True),
        modifies=[],
    )


# ---------------------------------------------------------------------------
# on_channel_closed: the channel leaves BOTH tables, nothing else changes
# ---------------------------------------------------------------------------
def closed_effect(self, self0, channel, ghost, ghost0):
    """effect of on_channel_closed on the manager `self` (entry state: self0 / ghost0)"""
    h = channel.connection.handle
    ch0, le0 = self0.channels, self0.le_coc_channels
    d_ch, d_le = inner(ch0, h), inner(le0, h)
    return [
        entry(self.channels, h, channel.source_cid) is None,
        # the LE table entry of *this* channel is gone too (an entry of another channel stays, see foreign-le-entry-kept)
        implies(same(entry(le0, h, channel.destination_cid), channel), entry(self.le_coc_channels, h, channel.destination_cid) is None),
        # frame: the outer tables keep their inner dicts, the inner dicts of other connections are untouched, and in
        # the two inner dicts of this connection only the slots of this channel changed
        dict_same(self.channels, ch0),
        dict_same(self.le_coc_channels, le0),
        pool_same_except(ghost.odicts, ghost0.odicts, []),
        pool_same_except(ghost.cdicts, ghost0.cdicts, [d_ch, d_le]),
        implies(d_ch is not None, dict_same_except(inner(self.channels, h), d_ch, [channel.source_cid])),
        implies(d_le is not None, dict_same_except(inner(self.le_coc_channels, h), d_le, [channel.destination_cid])),
        implies(d_le is not None and not same(entry(le0, h, channel.destination_cid), channel), dict_same(inner(self.le_coc_channels, h), d_le)),
    ]


EFFECT_NAMES = ['gone-from-channels', 'gone-from-le-coc-channels', 'channels-outer-unchanged', 'le-outer-unchanged', 'outer-pool-unchanged',
                'other-connections-untouched', 'only-own-slot-in-channels', 'only-own-slot-in-le', 'foreign-le-entry-kept']
WF_NAMES = ['wf-tables-distinct', 'wf-channels-inner-distinct', 'wf-le-inner-distinct', 'wf-inner-disjoint', 'wf-channels', 'wf-le-coc-channels', 'wf-open-le-channel-registered']

# main view: called on a well-formed manager for a registered channel that has just reached its final state
contract(
    'bumble.l2cap:ChannelManager.on_channel_closed',
    prop='C09',
    params=dict(self=MGR, channel=CHAN),
    ghost=HEAP,
    requires=lambda self, channel: wf(self, channel) + registered_or_absent(self, channel),
    ensures=lambda self, channel, old, ghost: closed_effect(self, old.self, channel, ghost, old.ghost) + wf(self, None),
    ensures_names=EFFECT_NAMES + WF_NAMES,
    modifies=['ghost.cdicts'],
)
# effect view (no invariant needed): also usable in the middle of on_disconnection, where `channels[h]` is already gone
contract(
    'bumble.l2cap:ChannelManager.on_channel_closed',
    key='bumble.l2cap:ChannelManager.on_channel_closed@effect',
    prop='C09',
    params=dict(self=MGR, channel=CHAN),
    ghost=HEAP,
    requires=lambda self, channel: distinct(self) + registered_or_absent(self, channel),
    ensures=lambda self, channel, old, ghost: closed_effect(self, old.self, channel, ghost, old.ghost),
    ensures_names=EFFECT_NAMES,
    modifies=['ghost.cdicts'],
)

# ---------------------------------------------------------------------------
# CID allocation
# ---------------------------------------------------------------------------
BR_LO, BR_HI = l2cap.L2CAP_ACL_U_DYNAMIC_CID_RANGE_START, l2cap.L2CAP_ACL_U_DYNAMIC_CID_RANGE_END
LE_LO, LE_HI = l2cap.L2CAP_LE_U_DYNAMIC_CID_RANGE_START, l2cap.L2CAP_LE_U_DYNAMIC_CID_RANGE_END
CDICT = RefT('cdicts')

contract(
    'bumble.l2cap:ChannelManager.find_free_br_edr_cid',
    prop='C09',
    params=dict(channels=CDICT),
    ghost=HEAP,
    # the smallest dynamic CID that is not a key of the connection's table
    ensures=lambda channels, res: [res not in channels, BR_LO <= res and res <= BR_HI, forall(BR_LO, res, lambda c: c in channels)],
    ensures_names=['free', 'in-range', 'minimal'],
    raises={core.OutOfResourcesError: lambda channels: [forall(BR_LO, BR_HI + 1, lambda c: c in channels)]},
    invariants={0: lambda channels, _it: [BR_LO <= _it, _it <= BR_HI + 1, forall(BR_LO, _it, lambda c: c in channels)]},
    decreases={0: lambda _it: BR_HI + 1 - _it},
    modifies=[],
)


def cids_ok(channels, cids, hi):
    """every element is a free dynamic LE CID below hi"""
    return forall_elems(cids, lambda c: LE_LO <= c and c < hi and c not in channels)


def first(xs):
    return xs[0] if len(xs) > 0 else 0


def le_cids_post(channels, count, res):
    return [
        len(res) == 0 or len(res) == count,
        cids_ok(channels, res, LE_HI + 1),
        # for a single CID the answer is exact: none only if all 64 are taken, else the smallest free one
        implies(count == 1 and len(res) == 0, forall(LE_LO, LE_HI + 1, lambda c: c in channels)),
        implies(count == 1 and len(res) == 1, first(res) not in channels and forall(LE_LO, first(res), lambda c: c in channels)),
    ]


LE_CIDS = dict(
    params=dict(cls=Const(l2cap.ChannelManager), channels=CDICT, count=Int),
    ghost=HEAP,
    ensures=le_cids_post,
    ensures_names=['none-or-count', 'free-in-range', 'none-only-if-full', 'single-is-minimal-free'],
    returns=ListOf(Int),
    modifies=[],
)
contract(
    'bumble.l2cap:ChannelManager.find_free_le_cids',
    prop='C09',
    invariants={
        0: lambda channels, count, cids, _it: [
            LE_LO <= _it,
            _it <= LE_HI + 1,
            len(cids) == 0 or len(cids) != count,
            cids_ok(channels, cids, _it),
            implies(count == 1, len(cids) == 0 and forall(LE_LO, _it, lambda c: c in channels)),
        ]
    },
    decreases={0: lambda _it: LE_HI + 1 - _it},
    loop_locals={0: {'cids': ListOf(Int)}},
    **LE_CIDS,
)
contract('bumble.l2cap:ChannelManager.find_free_le_cids', key='bumble.l2cap:ChannelManager.find_free_le_cids@callee', **LE_CIDS)
contract(
    'bumble.l2cap:ChannelManager.find_free_le_cid',
    prop='C09',
    params=dict(cls=Const(l2cap.ChannelManager), channels=CDICT),
    ghost=HEAP,
    ensures=lambda channels, res: [
        iff(res is None, forall(LE_LO, LE_HI + 1, lambda c: c in channels)),
        (res not in channels and LE_LO <= res and res <= LE_HI and forall(LE_LO, res, lambda c: c in channels)) if res is not None else True,
    ],
    ensures_names=['none-iff-full', 'free-in-range-minimal'],
    returns=Opt(IntRange(0, 0xFFFF)),
    uses=['bumble.l2cap:ChannelManager.find_free_le_cids@callee'],
    modifies=[],
)

# ---------------------------------------------------------------------------
# signalling identifiers: per connection, 1..255, never 0
# ---------------------------------------------------------------------------
def last_id(ids, h):
    return ids[h] if h in ids else 0


contract(
    'bumble.l2cap:ChannelManager.next_identifier',
    prop='C09',
    params=dict(self=MGR, connection=RefT('conns')),
    ghost=HEAP,
    ensures=lambda self, connection, res, old, ghost: [
        1 <= res and res <= 255,
        res == ite(last_id(old.self.identifiers, connection.handle) >= 255, 1, last_id(old.self.identifiers, connection.handle) + 1),
        connection.handle in self.identifiers and self.identifiers[connection.handle] == res,
        # the counters of other connections are untouched
        dict_same_except(self.identifiers, old.self.identifiers, [connection.handle]),
        pool_same_except(ghost.idicts, old.ghost.idicts, [self.identifiers]),
    ],
    ensures_names=['valid-identifier', 'successor-skipping-0', 'remembered', 'other-connections-untouched', 'other-managers-untouched'],
    returns=IntRange(1, 255),
    modifies=['ghost.idicts'],
)
