"""C17 part 6 -- what an exception from an upper layer leaves behind in the layers it unwinds through.

Parts 1-5 show that malformed bytes make the consumers of a PDU raise ordinary exceptions (ATT/SMP/L2CAP parse errors, AT
parse errors, handler failures).  Such an exception travels through the frames that were delivering the PDU:

    PacketParser.feed_data [try/except Exception, reset: C02] -> Host.on_packet -> on_hci_acl_data_packet
      -> HCI_AclDataPacketAssembler.feed_packet -> Connection.on_acl_pdu -> ChannelManager.on_pdu -> channel / fixed handler
      -> (RFCOMM) Multiplexer.on_pdu -> DLC.on_uih_frame -> sink = HfProtocol._read_at / AgProtocol._read_at

C05 and C20 prove the assembler and the DLC under the assumption that their consumer does not raise.  Here the consumer MAY
raise, and the obligation is the S clause: the representation invariant that the NEXT input needs holds on the exceptional
exit as well.
"""
import struct

import pyvc.ext_c17  # noqa: F401
from bumble import hci
from contracts import c05_acl as _c05
from pyvc.contracts import (Any, Bool, Bytes, Callback, Const, Inst, Int, IntRange, ListOf, OneOf, Opt, contract, fresh_int, iff,
                            implies, lemma, model, ite)
from spec.l2cap import is_l2cap_frame, le16

PROP = 'C17'
ENVIRONMENT = [
    'the consumer of a reassembled PDU / the DLC sink / the channel sink are recording stubs that may raise once per call (a ghost flag, so that the native replay raises too)',
    'DLC.process_tx is used through its C20 contract (contracts/c20_rfcomm.py); the DLC and channel models, ghosts and postconditions are those of C20 / C07',
]


class ConsumerFailure(Exception):
    """stands for whatever the consumer of a reassembled PDU raises"""


def deliver_or_fail(ghost, pdu):
    assert is_l2cap_frame(pdu)
    ghost.last = pdu
    ghost.n = ghost.n + 1
    if fresh_int() == 1:
        raise ConsumerFailure()


model(
    'bumble.hci:HCI_AclDataPacketAssembler#17',
    fields=dict(callback=Callback('callback', effect=deliver_or_fail, raises=(ConsumerFailure,)), current_data=Opt(Bytes), l2cap_pdu_length=Int),
)


def wf17(asm):
    """what the assembler needs to treat the next fragments correctly: nothing in progress, or at least the length field of
    a frame that is not yet exceeded (C05's invariant says `<`: a completed frame is never kept; after a consumer failure it is)"""
    return (
        asm.l2cap_pdu_length == 0
        if asm.current_data is None
        else (len(asm.current_data) >= 2 and asm.l2cap_pdu_length == le16(asm.current_data) and len(asm.current_data) <= asm.l2cap_pdu_length + 4)
    )


def start_as_from_clean(self, packet, old, ghost):
    """a start fragment is handled exactly as by a clean assembler, whatever was left behind"""
    start = packet.pb_flag == 0 or packet.pb_flag == 2
    # (asm_step is a list of clauses: one implication per clause)
    return [implies(start, c) for c in _c05.asm_step(self, packet, None, 0, old.ghost.n, old.ghost.last, ghost)]


contract(
    'bumble.hci:HCI_AclDataPacketAssembler.feed_packet',
    key='bumble.hci:HCI_AclDataPacketAssembler.feed_packet@raising-consumer',
    prop=PROP,
    params=dict(self=Inst('bumble.hci:HCI_AclDataPacketAssembler#17'), packet=_c05.ACL),
    ghost=dict(n=Int, last=Bytes),
    requires=lambda self, packet: wf17(self),
    ensures=lambda self, packet, old, ghost: [_c05.wf_asm(self)] + start_as_from_clean(self, packet, old, ghost),
    ensures_names=['wf(strict)'] + ['start-as-from-clean:' + n for n in ['wf', 'delivered-once-iff-complete', 'delivered-bytes', 'not-delivered', 'clean-after-delivery-or-overflow', 'orphan-continuation-ignored', 'in-progress']],
    raises={
        # the consumer raised: the PDU was handed over once; the assembler still holds it (not reset), which wf17 tolerates
        ConsumerFailure: lambda self, packet, old, ghost: [wf17(self), ghost.n == old.ghost.n + 1, self.current_data is not None and ghost.last == self.current_data],
        struct.error: lambda self, packet, old, ghost: [wf17(self), ghost.n == old.ghost.n, (packet.pb_flag == 0 or packet.pb_flag == 2) and len(packet.data) < 2],
        AssertionError: lambda self, packet, old, ghost: [wf17(self), ghost.n == old.ghost.n, packet.pb_flag == 3 and old.self.current_data is None],
    },
    modifies=['self.current_data', 'self.l2cap_pdu_length', 'ghost.n', 'ghost.last'],
    note='S: wf17 on every exit; the next start fragment (every PDU begins with one) is reassembled as from a clean state',
)


# ---------------------------------------------------------------------------
# RFCOMM DLC.on_uih_frame when the sink raises (HFP _read_at raises on every malformed AT line, also after fix-1).
# C20 proves the frame/credit ledgers with a sink that returns.  S for C17: the receive-credit ledger counts the frame on
# the exceptional exit too -- the peer has spent a credit for it -- and the peer is not left below the threshold without a
# credit frame; otherwise each failing delivery makes the DLC over-estimate the peer's credits by one, and after
# rx_max_credits - threshold of them the peer is at 0 while the DLC never replenishes: the direction is dead.
# ---------------------------------------------------------------------------
from contracts import c20_rfcomm as _c20  # noqa: E402


class SinkFailure(Exception):
    """stands for whatever the DLC sink raises (AtParsingError, HfpProtocolError, UnicodeDecodeError, handler errors)"""


def sink_or_fail(ghost, data):
    ghost.delivered = ghost.delivered + data
    ghost.packets = ghost.packets + [data]
    ghost.deliveries = ghost.deliveries + 1
    if ghost.sink_fails:  # (a ghost flag rather than fresh_int(): the native replay then raises as well)
        raise SinkFailure()


def rx_ledger_after_failure(self, frame, old, ghost):
    r1 = old.self.rx_credits - 1
    n1 = _c20.needed(r1, self)
    return _c20.wf_dlc(self) + [
        len(_c20.rx_data(frame)) > 0,
        ghost.deliveries == old.ghost.deliveries + 1,
        # one rx credit for the frame, then replenished when at or below the threshold
        self.rx_credits == r1 + n1,
        ghost.granted == old.ghost.granted + n1 and _c20.replenished(self),
    ]


from pyvc.contracts import REG as _REG  # noqa: E402

_dlc = _REG.models['bumble.rfcomm:DLC']
# C20's DLC model with a sink that may raise (a model of its own: the native replay builds callbacks from the model's field types)
model('bumble.rfcomm:DLC#17', fields=dict(_dlc.fields, _sink=Callback('sink', effect=sink_or_fail, raises=(SinkFailure,))), methods=dict(_dlc.methods))

contract(
    'bumble.rfcomm:DLC.on_uih_frame',
    key='bumble.rfcomm:DLC.on_uih_frame@raising-sink',
    prop=PROP,
    uses=_c20.USE_TX,
    **dict(
        _c20.ON_UIH,
        params=dict(self=Inst('bumble.rfcomm:DLC#17'), frame=_c20.RX_FRAME),
        requires=lambda self, frame, ghost: _c20.rx_pre(self, frame, ghost) + [len(self._enqueued_rx_packets) == 0],
        ghost=dict(_c20.RX_GHOST, sink_fails=Bool),
        raises={**_c20.ON_UIH['raises'], SinkFailure: rx_ledger_after_failure},
    ),
    note='sink attached, nothing queued (the HFP set-up); DLC.process_tx through its C20 contract',
)


# ---------------------------------------------------------------------------
# LeCreditBasedChannel.on_pdu when the sink raises.  On an enhanced ATT bearer the sink is
# `lambda pdu: server.on_gatt_pdu(channel, ATT_PDU.from_bytes(pdu))` (gatt_server.py) / `client.on_gatt_pdu(ATT_PDU.from_bytes(pdu))`
# (gatt_client.py): by part 2 it raises struct.error / IndexError / InvalidPacketError on a malformed ATT PDU.  K-frames carry no
# start marker, so unlike the ACL assembler nothing re-synchronises a stale buffer: S = the reassembly state is clean
# after a delivery, also when the delivery raised.
# ---------------------------------------------------------------------------
from contracts import c07_coc as _c07  # noqa: E402
from spec.coc import rs_complete  # noqa: E402


def coc_sink_or_fail(ghost, sdu):
    ghost.sunk = ghost.sunk + sdu
    ghost.last = sdu
    ghost.nsdu = ghost.nsdu + 1
    if ghost.sink_fails:
        raise SinkFailure()


_chan = _REG.models['bumble.l2cap:LeCreditBasedChannel']
model('bumble.l2cap:LeCreditBasedChannel#17', fields=dict(_chan.fields, sink=Callback('sink', effect=coc_sink_or_fail, raises=(SinkFailure,))), methods=dict(_chan.methods))


def coc_after_failure(self, pdu, old, ghost):
    b = _c07.rx_buf(old.self) + pdu
    return _c07.wf_rx(self) + [
        rs_complete(b) and ghost.nsdu == old.ghost.nsdu + 1,
        # clean: the next K-frame starts a new SDU
        self.in_sdu is None and self.in_sdu_length == 0,
        _c07.wf_ledger(self),
    ]


contract(
    'bumble.l2cap:LeCreditBasedChannel.on_pdu',
    key='bumble.l2cap:LeCreditBasedChannel.on_pdu@raising-sink',
    prop=PROP,
    params=dict(self=Inst('bumble.l2cap:LeCreditBasedChannel#17'), pdu=Bytes),
    ghost=dict(_c07.RX_GHOST, sink_fails=Bool),
    requires=lambda self, pdu: [_c07.wf_rx(self), _c07.wf_ledger(self), self.peer_max_credits <= 65535,
                                # (SDU length 0 is the subject of on_pdu@any-frame / fix-2)
                                implies(len(_c07.rx_buf(self) + pdu) >= 2, le16(_c07.rx_buf(self) + pdu) >= 1)],
    ensures=_c07.on_pdu_post,
    ensures_names=_c07.ON_PDU_NAMES,
    raises={SinkFailure: coc_after_failure},
    modifies=['self.in_sdu', 'self.in_sdu_length', 'self.peer_credits', 'ghost.sunk', 'ghost.nsdu', 'ghost.last', 'ghost.cr_frames', 'ghost.cr_total', 'ghost.cr_cid',
              'ghost.cr_last'],
    inline=['L2CAP_Control_Frame.*', 'LeCreditBasedChannel.send_control_frame', 'L2CAP_LE_Flow_Control_Credit.*'],
    note='C07 contract with a sink that may raise',
)
