"""C09 — link loss: ChannelManager.on_disconnection drops every table entry of the connection, closes every established
channel of it, releases everything that waits on one of them, and touches nothing of any other connection."""
import asyncio

from bumble import core, l2cap
from pyvc.contracts import (Any, Bool, Bytes, Callback, Const, Event, Inst, Int, IntRange, ListOf, Opaque, Opt, TupleOf,
                            contract, forall, iff, implies, ite, lemma, model, same)
from pyvc.ext_c09 import (PoolOf, RefT, allocated, dict_same, dict_same_except, forall_elems, forall_items, forall_objs,
                          is_instance_of, is_new, now, obj_same, pool_new, pool_same_except)

from contracts.c09_close import ABORT_MOD, CHAN_MOD
from contracts.c09_tables import (PER_CONN_REQUESTS, pending_request, wf_requests, CHAN, CL_CLOSED, CL_OPEN, CL_WAIT_DISCONNECT, HEAP, LE_DISCONNECTED, MGR, PENDING, WF_NAMES,
                                  closed, distinct, entry, inner, is_le, le_open, wf)


def futs_ok_b(c):
    return (
        (c.disconnection_result is None or c.disconnection_result.st == PENDING)
        and (is_le(c) or c.connection_result is None or c.connection_result.st != PENDING or (c.state != CL_OPEN and c.state != CL_WAIT_DISCONNECT))
        and (c.connection_result is None or not same(c.connection_result, c.disconnection_result))
    )


def chan_inv(mgr):
    """every registered channel satisfies the invariant of its futures"""
    return forall_items(mgr.channels, lambda h, d: forall_items(d, lambda k, c: futs_ok_b(c)))


def no_shared(a, b):
    return (a.disconnection_result is None or (not same(a.disconnection_result, b.disconnection_result) and not same(a.disconnection_result, b.connection_result))) and (
        a.connection_result is None or (not same(a.connection_result, b.connection_result) and not same(a.connection_result, b.disconnection_result))
    )


def unshared(ghost):
    """a future belongs to one channel"""
    return forall_objs(ghost.chans, lambda a: forall_objs(ghost.chans, lambda b: same(a, b) or no_shared(a, b)))


def established(c):
    return ite(is_le(c), le_open(c), c.state == CL_OPEN or c.state == CL_WAIT_DISCONNECT)


def aborted(c0, c):
    """c0: the channel at entry, c: now.  An established channel is closed; whoever waits on the channel is released"""
    return (
        implies(established(c0), closed(c))
        and (c.disconnection_result is None or c.disconnection_result.st != PENDING)
        and (c0.disconnection_result is None or now(c0.disconnection_result).st != PENDING)
        and (not is_le(c) or (c.connection_result is None and (c0.connection_result is None or now(c0.connection_result).st != PENDING) and c.drained.is_set()))
    )


def mine(o, self, h):
    return o.connection.handle == h and same(o.manager, self)


def fut_same(ghost, old, f):
    return f is None or obj_same(ghost.futs, old.ghost.futs, f)


def others(self, h, old, ghost):
    """channels of other connections / managers and their futures are untouched"""
    return [
        forall_objs(old.ghost.chans, lambda o: mine(o, self, h) or obj_same(ghost.chans, old.ghost.chans, o)),
        forall_objs(old.ghost.chans, lambda o: mine(o, self, h) or (fut_same(ghost, old, o.connection_result) and fut_same(ghost, old, o.disconnection_result))),
    ]


def d0(old, h):
    return old.self.channels[h]


def l0(old, h):
    return old.self.le_coc_channels[h]


def tables_mid(self, h, old, ghost, ch_gone, le_gone):
    """the tables while on_disconnection runs: only the slots of h were dropped; the inner dict of le[h] only shrinks"""
    ch0, le0 = old.self.channels, old.self.le_coc_channels
    return [
        (h not in self.channels and dict_same_except(self.channels, ch0, [h])) if ch_gone else dict_same(self.channels, ch0),
        (h not in self.le_coc_channels and dict_same_except(self.le_coc_channels, le0, [h])) if le_gone else dict_same(self.le_coc_channels, le0),
        pool_same_except(ghost.odicts, old.ghost.odicts, [self.channels, self.le_coc_channels]),
        pool_same_except(ghost.cdicts, old.ghost.cdicts, [inner(le0, h)]),
    ] + distinct(self)


def visited0(self, h, old, ghost, upto, _keys):
    """the channels of connection h visited so far are aborted and no longer in le_coc_channels[h]"""
    return [
        forall(0, upto, lambda j: implies(established(d0(old, h)[_keys[j]]), closed(now(d0(old, h)[_keys[j]])))),
        forall(0, upto, lambda j: now(d0(old, h)[_keys[j]]).disconnection_result is None or now(d0(old, h)[_keys[j]]).disconnection_result.st != PENDING),
        forall(0, upto, lambda j: d0(old, h)[_keys[j]].disconnection_result is None or now(d0(old, h)[_keys[j]].disconnection_result).st != PENDING),
        forall(0, upto, lambda j: not is_le(d0(old, h)[_keys[j]]) or (now(d0(old, h)[_keys[j]]).connection_result is None and now(d0(old, h)[_keys[j]]).drained.is_set())),
        forall(0, upto, lambda j: not is_le(d0(old, h)[_keys[j]]) or d0(old, h)[_keys[j]].connection_result is None or now(d0(old, h)[_keys[j]].connection_result).st != PENDING),
        forall(0, upto, lambda j: not same(entry(self.le_coc_channels, h, d0(old, h)[_keys[j]].destination_cid), d0(old, h)[_keys[j]])),
    ]


def inv_loop0(self, connection_handle, channels, _i, _keys, old, ghost):
    h = connection_handle
    return [
        0 <= _i and _i <= len(_keys),
        h in old.self.channels and same(channels, d0(old, h)) and dict_same(channels, d0(old, h)),
    ] + tables_mid(self, h, old, ghost, True, False) + [
        # le[h] only loses entries
        implies(h in old.self.le_coc_channels, forall_items(self.le_coc_channels[h], lambda k, c: k in l0(old, h) and same(l0(old, h)[k], c))),
    ] + visited0(self, h, old, ghost, _i, _keys) + [
        # the others are as they were
        forall(_i, len(_keys), lambda j: obj_same(ghost.chans, old.ghost.chans, d0(old, h)[_keys[j]]) and fut_same(ghost, old, d0(old, h)[_keys[j]].connection_result) and fut_same(ghost, old, d0(old, h)[_keys[j]].disconnection_result)),
    ] + others(self, h, old, ghost) + monotone(old, ghost) + side_tables(self, old, ghost, False, False)


def all_aborted(self, h, old, ghost):
    """every channel that was registered for connection h: an established one is closed, its waiters are released"""
    return [implies(h in old.self.channels, forall_items(d0(old, h), lambda k, c0: aborted(c0, now(c0))))]


def side_tables(self, old, ghost, pend_gone, ids_gone):
    """identifiers / pending enhanced requests: only the slot of h goes"""
    return [
        dict_same(self.identifiers, old.self.identifiers) if not ids_gone else True,
        pool_same_except(ghost.idicts, old.ghost.idicts, [self.identifiers] if ids_gone else []),
        dict_same(self.pending_credit_based_connections, old.self.pending_credit_based_connections) if not pend_gone else True,
        pool_same_except(ghost.podicts, old.ghost.podicts, [self.pending_credit_based_connections] if pend_gone else []),
        pool_same_except(ghost.pdicts, old.ghost.pdicts, []),
    ] + ([
        # the LE connection requests (of every link) are untouched while the channels / pending requests are walked
        dict_same(self.le_coc_requests, old.self.le_coc_requests),
        pool_same_except(ghost.rodicts, old.ghost.rodicts, []),
    ] if PER_CONN_REQUESTS else [])


def monotone(old, ghost):
    return [forall_objs(old.ghost.futs, lambda f: f.st == PENDING or now(f).st != PENDING)]


def inv_loop1(self, connection_handle, _i, _keys, old, ghost):
    """nothing to do here: every channel of le_coc_channels[h] was registered in channels[h] and has been aborted (and
    thereby taken out of le_coc_channels[h]) by the first loop"""
    return [len(_keys) == 0, _i == 0] + after_channels(self, connection_handle, old, ghost) + side_tables(self, old, ghost, False, False)


def after_channels(self, h, old, ghost):
    return tables_mid(self, h, old, ghost, h in old.self.channels, h in old.self.le_coc_channels) + all_aborted(self, h, old, ghost) + others(self, h, old, ghost) + monotone(old, ghost)


def p0(old, h):
    return old.self.pending_credit_based_connections[h]


def inv_loop2(self, connection_handle, pending_credit_based_connections, _i, _keys, old, ghost):
    h = connection_handle
    return [
        0 <= _i and _i <= len(_keys),
        h in old.self.pending_credit_based_connections and same(pending_credit_based_connections, p0(old, h)) and dict_same(pending_credit_based_connections, p0(old, h)),
        h not in self.pending_credit_based_connections and dict_same_except(self.pending_credit_based_connections, old.self.pending_credit_based_connections, [h]),
        # the requests visited so far are cancelled (or were complete)
        forall(0, _i, lambda j: now(p0(old, h)[_keys[j]][0]).st != PENDING),
    ] + after_channels(self, h, old, ghost) + side_tables(self, old, ghost, True, False)


def pend_unshared(self, ghost):
    """the future of a pending enhanced connection request is not a future of a channel"""
    return forall_items(self.pending_credit_based_connections, lambda h, d: forall_items(d, lambda i, t: forall_objs(ghost.chans, lambda c: not same(c.connection_result, t[0]) and not same(c.disconnection_result, t[0]))))


def link_lost_post(self, connection_handle, old, ghost):
    h = connection_handle
    ch0, le0 = old.self.channels, old.self.le_coc_channels
    return [
        # the connection is gone from every table; the slots of other connections are untouched
        h not in self.channels and dict_same_except(self.channels, ch0, [h]),
        h not in self.le_coc_channels and dict_same_except(self.le_coc_channels, le0, [h]),
        h not in self.pending_credit_based_connections and dict_same_except(self.pending_credit_based_connections, old.self.pending_credit_based_connections, [h]),
        h not in self.identifiers and dict_same_except(self.identifiers, old.self.identifiers, [h]),
        # no LE connection request of the lost link stays pending (its identifiers will be used again by the next link)
        forall(0, 256, lambda k: pending_request(self, ghost, h, k) is None),
    ] + ([
        # ... and the requests of every other link are where they were (signalling on one link never alters another):
        # only the slot of h left the outer table; no inner table of requests was written (ghost.rdicts is not in
        # `modifies`: frame obligation)
        h not in self.le_coc_requests and dict_same_except(self.le_coc_requests, old.self.le_coc_requests, [h]),
        pool_same_except(ghost.rodicts, old.ghost.rodicts, [self.le_coc_requests]),
    ] if PER_CONN_REQUESTS else []) + [
        pool_same_except(ghost.cdicts, old.ghost.cdicts, [inner(le0, h)]),
        pool_same_except(ghost.odicts, old.ghost.odicts, [self.channels, self.le_coc_channels]),
    ] + all_aborted(self, h, old, ghost) + [
        # every pending enhanced connection request of the connection is released
        implies(h in old.self.pending_credit_based_connections, forall_items(p0(old, h), lambda i, t: now(t[0]).st != PENDING)),
    ] + others(self, h, old, ghost) + wf(self, None) + [chan_inv(self)]


LINK_NAMES = ['gone-from-channels', 'gone-from-le-coc-channels', 'gone-from-pending-requests', 'gone-from-identifiers', 'no-le-request-left-pending'] + (['le-requests-of-other-links-kept', 'other-request-tables-untouched'] if PER_CONN_REQUESTS else []) + ['other-inner-tables-untouched', 'other-outer-tables-untouched',
              'every-channel-of-the-link-aborted', 'pending-requests-released', 'other-channels-untouched', 'other-futures-untouched'] + WF_NAMES + ['futures-invariant']

contract(
    'bumble.l2cap:ChannelManager.on_disconnection',
    prop='C09',
    params=dict(self=MGR, connection_handle=IntRange(0, 0xFFFF), reason=Int),
    ghost=HEAP,
    requires=lambda self, ghost: wf(self, None) + [chan_inv(self), unshared(ghost), pend_unshared(self, ghost)],
    ensures=link_lost_post,
    ensures_names=LINK_NAMES,
    invariants={0: inv_loop0, 1: inv_loop1, 2: inv_loop2},
    decreases={0: lambda _i, _keys: len(_keys) - _i, 1: lambda _i, _keys: len(_keys) - _i, 2: lambda _i, _keys: len(_keys) - _i},
    uses=['bumble.l2cap:LeCreditBasedChannel.abort@callee', 'bumble.l2cap:ClassicChannel.abort@callee'],
    modifies=ABORT_MOD + ['ghost.odicts', 'ghost.idicts', 'ghost.pdicts', 'ghost.podicts'] + (['ghost.rodicts'] if PER_CONN_REQUESTS else []),
)


# ---------------------------------------------------------------------------
# signalling dispatch: disconnection request / response reach the channel registered under the addressed CID
# ---------------------------------------------------------------------------
from contracts.c09_close import CL_CLOSE_NAMES, DISC_REQ, DISC_RSP, LE_CLOSE_NAMES, cl_close_post, gone, le_close_post  # noqa: E402
from contracts.c09_tables import EFFECT_NAMES, closed_effect  # noqa: E402


def dispatch_req_post(self, connection, request, old, ghost):
    h = connection.handle
    c0 = entry(old.self.channels, h, request.destination_cid)
    if c0 is None:
        # an unknown CID changes nothing
        return [pool_same_except(ghost.chans, old.ghost.chans, []), pool_same_except(ghost.cdicts, old.ghost.cdicts, []), ghost.frames == old.ghost.frames] + wf(self, None) + [chan_inv(self), unshared(ghost)]
    c = now(c0)
    # the addressed channel is answered, closed, and gone from both tables
    return [
        ghost.frames == old.ghost.frames + 1,
        closed(c),
        c.disconnection_result is None or c.disconnection_result.st != PENDING,
    ] + closed_effect(self, old.self, c, ghost, old.ghost) + wf(self, None) + [chan_inv(self), unshared(ghost)]


contract(
    'bumble.l2cap:ChannelManager.on_l2cap_disconnection_request',
    prop='C09',
    params=dict(self=MGR, connection=RefT('conns'), cid=Int, request=DISC_REQ),
    ghost=HEAP,
    requires=lambda self, ghost: wf(self, None) + [chan_inv(self), unshared(ghost)],
    ensures=dispatch_req_post,
    uses=['bumble.l2cap:ChannelManager.find_channel', 'bumble.l2cap:LeCreditBasedChannel.on_disconnection_request', 'bumble.l2cap:ClassicChannel.on_disconnection_request'],
    modifies=CHAN_MOD,
)


def dispatch_rsp_post(self, connection, response, old, ghost):
    h = connection.handle
    c0 = entry(old.self.channels, h, response.source_cid)
    if c0 is None:
        return [pool_same_except(ghost.chans, old.ghost.chans, []), pool_same_except(ghost.cdicts, old.ghost.cdicts, []), ghost.frames == old.ghost.frames] + wf(self, None) + [chan_inv(self), unshared(ghost)]
    c = now(c0)
    answered = ite(is_le(c0), c0.state == LE_DISCONNECTING, c0.state == CL_WAIT_DISCONNECT) and response.destination_cid == c0.destination_cid and response.source_cid == c0.source_cid
    # the answer to our own disconnection request closes the channel and takes it out of both tables; anything else is ignored
    return [
        ghost.frames == old.ghost.frames,
        implies(answered, closed(c) and (c.disconnection_result is None or c.disconnection_result.st != PENDING) and (c0.disconnection_result is None or now(c0.disconnection_result).st != PENDING)),
        implies(not answered, pool_same_except(ghost.chans, old.ghost.chans, []) and pool_same_except(ghost.cdicts, old.ghost.cdicts, []) and pool_same_except(ghost.futs, old.ghost.futs, [])),
    ] + [implies(answered, x) for x in closed_effect(self, old.self, c, ghost, old.ghost)] + wf(self, None) + [chan_inv(self), unshared(ghost)]


from contracts.c09_tables import LE_DISCONNECTING  # noqa: E402

contract(
    'bumble.l2cap:ChannelManager.on_l2cap_disconnection_response',
    prop='C09',
    params=dict(self=MGR, connection=RefT('conns'), cid=Int, response=DISC_RSP),
    ghost=HEAP,
    requires=lambda self, ghost: wf(self, None) + [chan_inv(self), unshared(ghost)],
    ensures=dispatch_rsp_post,
    uses=['bumble.l2cap:ChannelManager.find_channel', 'bumble.l2cap:LeCreditBasedChannel.on_disconnection_response', 'bumble.l2cap:ClassicChannel.on_disconnection_response'],
    modifies=CHAN_MOD,
)
