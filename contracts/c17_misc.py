"""C17 part 5 -- the SDP server's and client's PDU boundaries.

  sdp.Server.on_pdu    a request that does not parse is answered with one Error Response and NOTHING escapes;
                       a handler failure likewise; a PDU without handler likewise
  sdp.Client.on_pdu    the pending-request slot: the waiter is resolved iff the PDU answers the pending request, and released
                       (with the error) when the bytes are not an SDP PDU
"""
import struct

import pyvc.ext_c17  # noqa: F401
import pyvc.ext_c20  # noqa: F401
from bumble import core, sdp
from pyvc.contracts import (Any, Bool, ByteArray, Bytes, Callback, ConcList, Const, Inst, Int, IntRange, ListOf, OneOf, Opt, Str,
                            TupleOf, at, contract, forall, fresh_int, iff, implies, lemma, model)

PROP = 'C17'
ENVIRONMENT = [
    'SDP: SDP_PDU.from_bytes and the DataElement parser below it are stubs that return a PDU or raise (termination / nesting depth of that parser: C18 contracts/c18_more.py, continuation assembly: C19); request handlers are recording stubs that may raise',
]

# (core.AdvertisingData.append on arbitrary bytes -- terminates with measure len(data) - offset, raises nothing -- is proved
# under C18, contracts/c18_more.py; cited, not repeated.  AdvertisingData.from_bytes is `AdvertisingData(); append(data)`.)

# ---------------------------------------------------------------------------
# sdp.Server.on_pdu.  SDP_PDU.from_bytes (and the DataElement parser below it: C18/C19 kernels) is a stub that returns a
# request of one of three kinds or raises; the request handlers are recording stubs that may raise.
# ---------------------------------------------------------------------------
class HandlerFailure(Exception):
    pass


def sdp_parse(ghost, cls, pdu):
    k = fresh_int()
    if k == 1:
        raise struct.error('short')
    if k == 2:
        raise core.InvalidPacketError('unknown PDU type')
    if k == 3:
        raise IndexError('short')
    if k == 4:
        raise ValueError('bad element')
    ghost.parsed_ok = True
    r = ghost.request
    ghost.seen = r.transaction_id  # (reading a field decides which of the request kinds this path is about)
    return r


def sdp_handler(ghost, request):
    ghost.handled = ghost.handled + 1
    if fresh_int() == 1:
        raise HandlerFailure()
    ghost.responses = ghost.responses + 1  # a handler that returns has sent its response (C19)


def sdp_write(ghost, response):
    ghost.responses = ghost.responses + 1
    if isinstance(response, sdp.SDP_ErrorResponse):
        ghost.errors = ghost.errors + 1


def sdp_request(name, has_handler):
    i = Inst('bumble.sdp:SDP_PDU#17', has_handler=Const(has_handler))
    i.overrides['name'] = Const(name)
    return i


import types  # noqa: E402

model('bumble.sdp:SDP_PDU#17', fields=dict(name=Str, transaction_id=IntRange(0, 0xFFFF), has_handler=Bool),
      build=lambda fields, builder: types.SimpleNamespace(**fields))  # (SDP_PDU.name is a read-only property: the replay uses a plain record)
model('ghost:SdpChannel', fields={}, methods={'write': Callback('write', effect=sdp_write)})
model(
    'bumble.sdp:Server#17',
    fields=dict(channel=Inst('ghost:SdpChannel')),
    methods={'on_sdp_service_search_request': Callback('on_sdp_service_search_request', effect=sdp_handler, raises=(HandlerFailure,))},
)
contract(
    'bumble.sdp:Server.on_pdu',
    prop=PROP,
    params=dict(self=Inst('bumble.sdp:Server#17'), pdu=Bytes),
    ghost=dict(parsed_ok=Const(False), handled=Int, responses=Int, errors=Int, seen=Int,
               request=OneOf(sdp_request('SDP_SERVICE_SEARCH_REQUEST', True), sdp_request('SDP_SERVICE_SEARCH_RESPONSE', False))),
    ensures=lambda old, ghost: [
        # whatever the bytes: exactly one response goes back, and it is an Error Response unless a handler answered
        ghost.responses == old.ghost.responses + 1,
        implies(not ghost.parsed_ok, ghost.errors == old.ghost.errors + 1 and ghost.handled == old.ghost.handled),
        implies(ghost.parsed_ok and not ghost.request.has_handler, ghost.errors == old.ghost.errors + 1),
    ],
    ensures_names=['exactly-one-response', 'unparseable:one-error-response-no-handler', 'no-handler:one-error-response'],
    raises={},
    modifies=['ghost.parsed_ok', 'ghost.handled', 'ghost.responses', 'ghost.errors', 'ghost.seen'],
    stubs={sdp.SDP_PDU.from_bytes.__func__: Callback('from_bytes', effect=sdp_parse, raises=(struct.error, core.InvalidPacketError, IndexError, ValueError))},
    inline=['Server.send_response', 'bumble.sdp:SDP_ErrorResponse*', 'bumble.sdp:SDP_PDU.*'],
    fstrings='eval',
    note='E: nothing escapes (both try/except Exception blocks); S: the requester always gets exactly one answer',
)


# ---------------------------------------------------------------------------
# sdp.Client.on_pdu: the pending-request slot of the SDP client.  send_request waits for `pending_response` WITHOUT a
# time-out while holding the request semaphore, so whatever on_pdu does with the bytes of the server decides whether the
# requester (and every later request of this client) ever continues.  S: a response to the pending request resolves the
# waiter on every exit -- with the response, with the server's error, or with the parse error when the bytes are not an
# SDP PDU; only a PDU that demonstrably belongs to another transaction (or no request pending) is ignored.
# ---------------------------------------------------------------------------
def sdp_parse_response(ghost, cls, pdu):
    k = fresh_int()
    if k == 1:
        raise struct.error('short')
    if k == 2:
        raise core.InvalidPacketError('unknown PDU type')
    ghost.parsed_ok = True
    return ghost.response


def fut_resolve(ghost, value):
    ghost.resolved = ghost.resolved + 1


PID = sdp.PduId
model('ghost:SdpFuture', fields={}, methods={'set_result': Callback('set_result', effect=fut_resolve), 'set_exception': Callback('set_exception', effect=fut_resolve)})
model('bumble.sdp:SDP_ServiceSearchRequest#rq', fields=dict(transaction_id=IntRange(0, 0xFFFF), pdu_id=Const(PID.SDP_SERVICE_SEARCH_REQUEST)))
model('bumble.sdp:SDP_ErrorResponse#rs', fields=dict(transaction_id=IntRange(0, 0xFFFF), pdu_id=Const(PID.SDP_ERROR_RESPONSE), error_code=IntRange(0, 0xFFFF)))
model('bumble.sdp:SDP_ServiceSearchResponse#rs', fields=dict(transaction_id=IntRange(0, 0xFFFF), pdu_id=Const(PID.SDP_SERVICE_SEARCH_RESPONSE)))
model('bumble.sdp:SDP_ServiceAttributeResponse#rs', fields=dict(transaction_id=IntRange(0, 0xFFFF), pdu_id=Const(PID.SDP_SERVICE_ATTRIBUTE_RESPONSE)))
model('bumble.sdp:Client#17', fields=dict(pending_request=Opt(Inst('bumble.sdp:SDP_ServiceSearchRequest#rq')), pending_response=Opt(Inst('ghost:SdpFuture'))))


def answers(self, response):
    return self.pending_request is not None and response.transaction_id == self.pending_request.transaction_id and (
        response.pdu_id == PID.SDP_ERROR_RESPONSE or response.pdu_id == PID.SDP_SERVICE_SEARCH_RESPONSE)


contract(
    'bumble.sdp:Client.on_pdu',
    prop=PROP,
    params=dict(self=Inst('bumble.sdp:Client#17'), pdu=Bytes),
    ghost=dict(parsed_ok=Const(False), resolved=Int,
               response=OneOf(Inst('bumble.sdp:SDP_ErrorResponse#rs'), Inst('bumble.sdp:SDP_ServiceSearchResponse#rs'), Inst('bumble.sdp:SDP_ServiceAttributeResponse#rs'))),
    requires=lambda self: [(self.pending_request is None) == (self.pending_response is None)],
    ensures=lambda self, old, ghost: [
        implies(self.pending_request is None, ghost.resolved == old.ghost.resolved),
        implies(self.pending_request is not None and ghost.parsed_ok, ghost.resolved == old.ghost.resolved + (1 if answers(self, ghost.response) else 0)),
        # bytes that are not an SDP PDU while a request is pending: the requester is released (with the error)
        implies(self.pending_request is not None and not ghost.parsed_ok, ghost.resolved == old.ghost.resolved + 1),
    ],
    ensures_names=['nothing-pending:ignored', 'waiter-resolved-iff-answer', 'unparseable-response-releases-the-waiter'],
    raises={},
    modifies=['ghost.parsed_ok', 'ghost.resolved'],
    stubs={sdp.SDP_PDU.from_bytes.__func__: Callback('from_bytes', effect=sdp_parse_response, raises=(struct.error, core.InvalidPacketError))},
    inline=['bumble.core:ProtocolError.*', 'bumble.core:BaseError.*'],
    note='S: pending_request / pending_response are in the frame (released by send_request\'s finally once the waiter is resolved); the two classes the '
         'stub parser raises stand for every subclass of Exception',
)

