"""C16 -- shared environment models: asyncio.Future as a ghost state machine, a recording event emitter.

`Fut` is a *real Python class* (used as is by native replays and cross-checks) and, through `model(FUT_MODEL ...)`,
the symbolic model of an asyncio.Future for the functions under contract: its methods are executed symbolically from
their source like any other code.  It is a hand-written model of a library class (assumption A4); its agreement with
CPython's asyncio.Future on every (state, operation) pair is checked natively when this module is imported
(`_conformance()`): a disagreement is a checker error, not a verdict.
"""
import asyncio

from bumble import l2cap as _l2cap
from pyvc.contracts import Bool, Callback, Const, Inst, Int, IntRange, ListOf, Opt, model

ENVIRONMENT = [
    'C16: asyncio.Future is modelled by the state machine contracts/c16_env.py:Fut (PENDING -> RESULT | EXCEPTION | CANCELLED, '
    'set_result/set_exception on a finished future raise InvalidStateError, cancel() on a finished future returns False); '
    'the model is compared with the real asyncio.Future for every state x operation at import',
]

PENDING, RESULT, EXCEPTION, CANCELLED = 0, 1, 2, 3


class Fut:
    """asyncio.Future reduced to what waiting on it depends on: its state, how it was protected, its done-callbacks"""

    def __init__(self, st=PENDING, guard=0):
        self.st = st
        self.guard = guard  # ghost: 0 bare, 1 cancelled by an event (cancel_on_event), 2 bounded by a timeout (wait_for)
        self.cbs = []
        self.exc = None

    def done(self):
        return self.st != PENDING

    def cancelled(self):
        return self.st == CANCELLED

    def cancel(self, msg=None):
        if self.st != PENDING:
            return False
        self.st = CANCELLED
        return True

    def set_result(self, result):
        if self.st != PENDING:
            raise asyncio.InvalidStateError('invalid state')
        self.st = RESULT

    def set_exception(self, exception):
        if self.st != PENDING:
            raise asyncio.InvalidStateError('invalid state')
        self.st = EXCEPTION
        self.exc = exception

    def add_done_callback(self, fn):
        self.cbs = self.cbs + [fn]


class TaskFut(Fut, asyncio.Task):
    """a Task (isinstance(x, asyncio.Task) holds): same state machine; cancel() requests cancellation -- the coroutine
    is thrown CancelledError at its next resumption and the task then finishes cancelled unless the coroutine swallows
    the error (environment assumption: the wrapped coroutines do not)"""

    def __new__(cls, *args, **kwargs):
        return asyncio.Task.__new__(cls)

    def __init__(self, st=PENDING, guard=0):  # asyncio.Task.__init__ is deliberately not called: no coroutine, no loop
        Fut.__init__(self, st, guard)

    def __del__(self):
        pass

    def __repr__(self):
        return f'<TaskFut st={self.st}>'


def run_done_callbacks(fut):
    """what the event loop does once a future is finished: call its done-callbacks (each once, in order)"""
    cbs = fut.cbs
    fut.cbs = []
    for cb in cbs:
        cb(fut)


class RecEmitter:
    """pyee.EventEmitter reduced to its listener table: on / remove_listener / emit, with pyee's behaviour for a
    listener that is not registered (remove_listener raises KeyError)"""

    def __init__(self):
        self.listeners = []

    def on(self, event, fn):
        self.listeners = self.listeners + [(event, fn)]
        return fn

    def remove_listener(self, event, fn):
        kept = []
        found = False
        for e, f in self.listeners:
            if not found and e == event and f is fn:
                found = True
            else:
                kept = kept + [(e, f)]
        if not found:
            raise KeyError(fn)
        self.listeners = kept

    def emit(self, event, *args):
        for e, f in list(self.listeners):
            if e == event:
                f(*args)

    def count(self, event):
        n = 0
        for e, f in self.listeners:
            if e == event:
                n = n + 1
        return n


def fut_released(f):
    """the waiter on f does not wait any longer: there is no future, or it is finished (result, exception or cancelled)"""
    return f is None or f.st != PENDING


def fst(f):
    """state of an optional future (-1: there is none)"""
    return -1 if f is None else f.st


FUT_MODEL = 'contracts.c16_env:Fut'
model(FUT_MODEL, fields=dict(st=IntRange(0, 3), guard=IntRange(0, 2), cbs=Const([]), exc=Const(None)), build=lambda fields, b: _build_fut(Fut, fields))
model('contracts.c16_env:TaskFut', fields=dict(st=IntRange(0, 3), guard=IntRange(0, 2), cbs=Const([]), exc=Const(None)), build=lambda fields, b: _build_fut(TaskFut, fields))
FUT = Inst(FUT_MODEL)
TASKFUT = Inst('contracts.c16_env:TaskFut')
NEW_FUT = Inst(FUT_MODEL, st=Const(PENDING), guard=Const(0))  # what loop.create_future() returns
FUT_INLINE = ['Fut.*', 'TaskFut.*']
model('contracts.c16_env:RecEmitter', fields=dict(listeners=Const([])), build=lambda fields, b: RecEmitter())
EMITTER = Inst('contracts.c16_env:RecEmitter')
model('contracts.c16_env:RecConnection', fields=dict(listeners=Const([]), handle=IntRange(0, 0xEFF)), build=lambda fields, b: RecConnection(fields['handle']))
model('contracts.c16_env:RecChannel', fields=dict(listeners=Const([]), connection=Inst('contracts.c16_env:RecConnection'), source_cid=IntRange(0x40, 0xFFFF), sink=Const(None)),
      build=lambda fields, b: RecChannel(fields['connection'].handle, fields['source_cid']))
model('contracts.c16_env:RecDevice', fields=dict(handler=Const(None)), build=lambda fields, b: RecDevice())


def _build_fut(cls, fields):
    f = cls(fields.get('st', PENDING), fields.get('guard', 0))
    return f


class RecChannel(RecEmitter, _l2cap.LeCreditBasedChannel):
    """an EATT channel as seen by the GATT server / client: an event emitter with the identifying attributes
    (isinstance(x, l2cap.LeCreditBasedChannel) holds: att.is_enhanced_bearer)"""

    EVENT_CLOSE = 'close'

    def __init__(self, handle=0x40, source_cid=0x41):
        RecEmitter.__init__(self)
        self.connection = RecConnection(handle)
        self.source_cid = source_cid
        self.sink = None


class RecConnection(RecEmitter):
    """an ACL connection as a GATT bearer: an event emitter with a handle"""

    EVENT_DISCONNECTION = 'disconnection'

    def __init__(self, handle):
        RecEmitter.__init__(self)
        self.handle = handle


class RecDevice:
    """Device.create_l2cap_server(spec, handler): remembers the handler the L2CAP server will call for each new channel"""

    def __init__(self):
        self.handler = None

    def create_l2cap_server(self, spec, handler=None):
        self.handler = handler
        return None


class ChannelRec:
    """a value of ChannelManager.channels[handle] reduced to what the link-loss clean-up depends on: its source CID and
    its class (`is_classic`: a ClassicChannel, else a LeCreditBasedChannel); abort() is a recorded callback"""

    def __init__(self, source_cid=0, is_classic=False):
        self.source_cid = source_cid
        self.is_classic = is_classic


class KeyView:
    """a dict seen at ONE fixed key (`key`): whether the key is present and, if so, its value.  Stands in for a table
    `{connection handle: ...}` in a function that only ever touches the entry of one handle; any access with another
    key is an AssertionError (= a failed obligation), so the restriction is checked, not assumed.  pop / get / `in`
    have the semantics of dict restricted to that key (dict itself: assumption A4)."""

    def __init__(self, key, present, value):
        self.key = key
        self.present = present
        self.value = value

    def pop(self, key, default=None):
        assert key == self.key
        if self.present:
            self.present = False
            return self.value
        return default

    def get(self, key, default=None):
        assert key == self.key
        if self.present:
            return self.value
        return default

    def __contains__(self, key):
        assert key == self.key
        return self.present


def _conformance():
    """Fut against the real asyncio.Future: same observable behaviour for every state x operation"""
    loop = asyncio.new_event_loop()
    try:
        def real(st):
            f = loop.create_future()
            if st == RESULT:
                f.set_result(None)
            elif st == EXCEPTION:
                f.set_exception(RuntimeError('x'))
                f.exception()  # retrieved: no 'never retrieved' log
            elif st == CANCELLED:
                f.cancel()
            return f

        def state(f):
            if isinstance(f, Fut):
                return f.st
            if not f.done():
                return PENDING
            if f.cancelled():
                return CANCELLED
            return EXCEPTION if f.exception() is not None else RESULT

        ops = {
            'done': lambda f: f.done(),
            'cancelled': lambda f: f.cancelled(),
            'cancel': lambda f: f.cancel(),
            'cancel_msg': lambda f: f.cancel('m'),
            'set_result': lambda f: f.set_result(None),
            'set_exception': lambda f: f.set_exception(RuntimeError('y')),
        }
        for st in (PENDING, RESULT, EXCEPTION, CANCELLED):
            for name, op in ops.items():
                outs = []
                for f in (real(st), Fut(st)):
                    try:
                        r = ('ok', op(f))
                    except Exception as e:  # noqa: BLE001
                        r = ('raise', type(e))
                    outs.append((r, state(f)))
                    if not isinstance(f, Fut) and f.done() and not f.cancelled():
                        f.exception()
                if outs[0] != outs[1]:
                    raise AssertionError(f'C16 future model disagrees with asyncio.Future: state {st}, {name}: real {outs[0]} model {outs[1]}')
    finally:
        loop.close()


_conformance()
