"""C20 (part 1) -- RFCOMM carries the exact byte stream.

  DLC.process_tx / rx_credits_needed / write      credit-aware transmit loop (every frame checked as it is emitted)
  DLC.on_uih_frame                                 receive path (credits, delivery, ledger)
  lemma rfcomm_stream                              ghost driver: sender contract x receiver contract, any write pattern
  DLC.__init__ / on_sabm_frame / on_ua_frame / on_disc_frame / abort / connect / accept
  Multiplexer.on_mcc_pn / on_dlc_open_complete / on_dlc_disconnection / on_pdu

The frame codec (RFCOMM_Frame.__init__/__bytes__/from_bytes) is property C18 (contracts/c18_codecs.py): here the
frame objects handed to Multiplexer.send_frame are inspected field by field, their byte encoding is not re-proved.
"""
from bumble import core, rfcomm
from pyvc.contracts import (Any, Bool, Bytes, Callback, Const, DequeOf, Event, Inst, Int, IntRange, ListOf, OneOf, Opaque,
                            Opt, TupleOf, contract, iff, implies, ite, lemma, model)
from contracts.c18_codecs import RF_USES  # compute_fcs as a pure function (trusted there, reused)

ENVIRONMENT = [
    'Multiplexer.send_frame -> l2cap_channel.write(bytes(frame)) is a recording stub in the DLC contracts: that the '
    'L2CAP channel carries each frame once and in order is C05/C08, the frame codec is C18',
    'the DLC sink (application callback / HFP _read_at) does not raise and does not re-enter the DLC (A2)',
    'DLC.write(str): the UTF-8 encoding of str arguments is outside the value domain (bytes arguments are covered)',
    'asyncio futures (connection_result / disconnection_result / open_result) are recorded stubs',
]

FT = rfcomm.FrameType
ST = rfcomm.DLC.State
MST = rfcomm.Multiplexer.State

# ---------------------------------------------------------------------------
# the data link as seen by the data path
# ---------------------------------------------------------------------------


def mux_send(ghost, frame):
    """recording stub for Multiplexer.send_frame on the data path: every frame is checked as it is
    emitted (TS 07.10 5.2 / RFCOMM 6.5: UIH, credit octet first iff P/F == 1)"""
    info = frame.information
    assert frame.type == FT.UIH and frame.dlci == ghost.dlci and frame.c_r == ghost.c_r
    assert frame.p_f == 0 or frame.p_f == 1
    # no frame carries more than the negotiated maximum payload (credit octet included)
    assert len(info) <= ghost.mtu
    # credit octet iff P/F == 1; it never announces 0 credits
    assert implies(frame.p_f == 1, len(info) >= 1 and info[0] >= 1)
    user = info[1:] if frame.p_f == 1 else info
    # no empty frame unless it carries credits
    assert frame.p_f == 1 or len(user) > 0
    # a sender never transmits data without a credit; a frame with user data costs exactly one
    assert implies(len(user) > 0, ghost.credits > 0)
    ghost.credits = ghost.credits - (1 if len(user) > 0 else 0)
    ghost.granted = ghost.granted + (info[0] if frame.p_f == 1 else 0)
    ghost.credit_frames = ghost.credit_frames + (1 if frame.p_f == 1 else 0)
    ghost.data_frames = ghost.data_frames + (1 if len(user) > 0 else 0)
    ghost.wire = ghost.wire + user
    ghost.frames = ghost.frames + 1


def sink_recv(ghost, data):
    # two views of what the sink has received, extended together: the byte stream and the list of packets
    ghost.delivered = ghost.delivered + data
    ghost.packets = ghost.packets + [data]
    ghost.deliveries = ghost.deliveries + 1


def dlc_emit(ghost, event):
    ghost.opens = ghost.opens + (1 if event == 'open' else 0)
    ghost.closes = ghost.closes + (1 if event == 'close' else 0)


model('ghost:Mux', fields={}, methods={'send_frame': Callback('send_frame', effect=mux_send)})
model(
    'bumble.rfcomm:DLC',
    fields=dict(
        multiplexer=Inst('ghost:Mux'),
        dlci=IntRange(2, 61),
        c_r=IntRange(0, 1),
        mtu=Int,
        rx_credits=Int,
        rx_max_credits=Int,
        rx_credits_threshold=Int,
        tx_credits=Int,
        tx_buffer=Bytes,
        drained=Event(),
        _sink=Opt(Callback('sink', effect=sink_recv)),
        _enqueued_rx_packets=DequeOf(Bytes, maxlen=rfcomm.DEFAULT_RX_QUEUE_SIZE),
    ),
    methods={'on': Callback('on', effect=lambda ghost, event, listener: None), 'emit': Callback('emit', effect=dlc_emit)},
)
DLC = Inst('bumble.rfcomm:DLC')
TX_GHOST = dict(dlci=Int, c_r=Int, mtu=Int, credits=Int, granted=Int, credit_frames=Int, data_frames=Int, wire=Bytes, frames=Int)


QMAX = rfcomm.DEFAULT_RX_QUEUE_SIZE


def wf_dlc(self):
    """representation invariant of the credit ledgers (established by DLC.__init__ for every negotiated frame size
    >= 23 over an L2CAP MTU >= 48 and every initial credit count)"""
    return [
        self.mtu >= 2,
        self.tx_credits >= 0,
        0 <= self.rx_credits and self.rx_credits <= self.rx_max_credits,
        self.rx_max_credits <= 255,
        0 <= self.rx_credits_threshold and self.rx_credits_threshold < self.rx_max_credits,
        # packets waiting for a sink are covered by withheld credits: the bounded receive queue cannot overflow
        # as long as the peer respects its credits
        self.rx_max_credits <= QMAX and implies(len(self._enqueued_rx_packets) > 0, len(self._enqueued_rx_packets) + self.rx_credits <= self.rx_max_credits),
    ]


WF_NAMES = ['wf-mtu', 'wf-tx', 'wf-rx', 'wf-max', 'wf-thr', 'wf-rx-queue-covered-by-withheld-credits']


def tx_mirror(self, ghost):
    """the ghost knows the link parameters and mirrors the credit ledger"""
    return [ghost.dlci == self.dlci, ghost.c_r == self.c_r, ghost.mtu == self.mtu, ghost.credits == self.tx_credits]


def needed(rx_credits, self):
    """credits to grant now: replenish up to rx_max_credits when the peer is at or below the threshold -- but none while
    received packets still wait for a sink (flow control: the bounded receive queue must not overflow)"""
    return ite(len(self._enqueued_rx_packets) == 0 and rx_credits <= self.rx_credits_threshold, self.rx_max_credits - rx_credits, 0)


def sent_prefix(self, buf0, old, ghost):
    """what went on the wire in this call is a prefix of what waited (buf0), the rest still waits: nothing lost,
    reordered or duplicated; the wire only grows"""
    k = len(buf0) - len(self.tx_buffer)
    return [
        0 <= k,
        ghost.wire == old.ghost.wire + buf0[:k] and self.tx_buffer == buf0[k:],
        ghost.wire + self.tx_buffer == old.ghost.wire + buf0,
        ghost.data_frames >= old.ghost.data_frames and implies(ghost.data_frames == old.ghost.data_frames, k == 0),
    ]


SENT_NAMES = ['sent-count', 'sent-is-prefix-rest-waits', 'stream-exact', 'bytes-travel-in-data-frames']


def replenished(self):
    """after every process_tx the peer holds (or is being sent) more than the threshold -- unless credits are withheld because
    received packets wait for a sink (released by the sink setter)"""
    return implies(len(self._enqueued_rx_packets) == 0, self.rx_credits > self.rx_credits_threshold)


def tx_post(self, old, ghost):
    n0 = needed(old.self.rx_credits, self)
    return [
        self.tx_credits >= 0 and ghost.credits == self.tx_credits,
    ] + sent_prefix(self, old.self.tx_buffer, old, ghost) + [
        # no stall: the loop stops only when there is nothing to send or no credit to send it with
        len(self.tx_buffer) == 0 or self.tx_credits == 0,
        # credits are replenished iff the peer is at or below the threshold, once, up to rx_max_credits
        ghost.granted == old.ghost.granted + n0,
        ghost.credit_frames == old.ghost.credit_frames + (1 if n0 > 0 else 0),
        self.rx_credits == old.self.rx_credits + n0 and replenished(self),
        # one credit per data frame, none for a credit-only frame
        old.self.tx_credits - self.tx_credits == ghost.data_frames - old.ghost.data_frames,
        ghost.frames - old.ghost.frames <= ghost.data_frames - old.ghost.data_frames + (1 if n0 > 0 else 0),
        # drain() never returns while bytes wait, and is released when the buffer empties
        implies(self.drained.is_set(), len(self.tx_buffer) == 0),
        implies(len(self.tx_buffer) == 0 and (len(old.self.tx_buffer) > 0 or old.self.drained.is_set()), self.drained.is_set()),
    ]


TX_NAMES = ['credit-ledger'] + SENT_NAMES + ['no-stall', 'credits-granted', 'one-credit-frame', 'rx-ledger',
            'one-credit-per-data-frame', 'no-useless-frame', 'drained-implies-empty', 'empty-implies-drained']
TX_MOD = ['self.tx_buffer', 'self.tx_credits', 'self.rx_credits', 'self.drained', 'ghost.credits', 'ghost.granted',
          'ghost.credit_frames', 'ghost.data_frames', 'ghost.wire', 'ghost.frames']

PROCESS_TX = dict(
    params=dict(self=DLC),
    ghost=TX_GHOST,
    requires=lambda self, ghost: wf_dlc(self) + tx_mirror(self, ghost) + [implies(self.drained.is_set(), len(self.tx_buffer) == 0)],
    ensures=lambda self, old, ghost: wf_dlc(self) + tx_post(self, old, ghost),
    ensures_names=WF_NAMES + TX_NAMES,
    modifies=TX_MOD,
)


def tx_inv(self, rx_credits_needed, old, ghost):
    n0 = needed(old.self.rx_credits, self)
    pending = rx_credits_needed > 0
    return wf_dlc(self) + [
        ghost.credits == self.tx_credits,
    ] + sent_prefix(self, old.self.tx_buffer, old, ghost) + [
        rx_credits_needed == 0 or rx_credits_needed == n0,
        # before the first frame: nothing granted yet; afterwards: granted once
        implies(pending, ghost.granted == old.ghost.granted and ghost.credit_frames == old.ghost.credit_frames
                and self.rx_credits == old.self.rx_credits and ghost.frames == old.ghost.frames
                and self.tx_credits == old.self.tx_credits and len(self.tx_buffer) == len(old.self.tx_buffer)
                and iff(self.drained.is_set(), old.self.drained.is_set())),
        implies(not pending, ghost.granted == old.ghost.granted + n0 and self.rx_credits == old.self.rx_credits + n0
                and ghost.credit_frames == old.ghost.credit_frames + (1 if n0 > 0 else 0)),
        old.self.tx_credits - self.tx_credits == ghost.data_frames - old.ghost.data_frames,
        ghost.frames - old.ghost.frames <= ghost.data_frames - old.ghost.data_frames + (1 if n0 > 0 and not pending else 0),
        implies(self.drained.is_set(), len(self.tx_buffer) == 0),
        implies(len(self.tx_buffer) == 0 and (len(old.self.tx_buffer) > 0 or old.self.drained.is_set()), self.drained.is_set()),
    ]


contract(
    'bumble.rfcomm:DLC.process_tx',
    prop='C20',
    invariants={0: tx_inv},
    # termination: every iteration sends the pending credits or at least one byte of the buffer
    decreases={0: lambda self, rx_credits_needed: len(self.tx_buffer) + (1 if rx_credits_needed > 0 else 0)},
    inline=['DLC.rx_credits_needed', 'DLC.send_frame', 'RFCOMM_Frame.uih', 'RFCOMM_Frame.__init__'],
    uses=RF_USES,
    **PROCESS_TX,
)
contract('bumble.rfcomm:DLC.process_tx', key='bumble.rfcomm:DLC.process_tx@callee', **PROCESS_TX)
USE_TX = ['bumble.rfcomm:DLC.process_tx@callee']


# ---------------------------------------------------------------------------
# DLC.write
# ---------------------------------------------------------------------------
def unchanged_tx(self, old, ghost):
    return [
        self.tx_buffer == old.self.tx_buffer,
        self.tx_credits == old.self.tx_credits,
        self.rx_credits == old.self.rx_credits,
        iff(self.drained.is_set(), old.self.drained.is_set()),
        ghost.wire == old.ghost.wire,
        ghost.frames == old.ghost.frames,
        ghost.data_frames == old.ghost.data_frames,
        ghost.granted == old.ghost.granted,
    ]


contract(
    'bumble.rfcomm:DLC.write',
    prop='C20',
    params=dict(self=DLC, data=OneOf(Bytes, Int)),
    ghost=TX_GHOST,
    requires=PROCESS_TX['requires'],
    ensures=lambda self, data, old, ghost: wf_dlc(self)
    + [
        ghost.credits == self.tx_credits,
    ]
    # appended behind what already waits; sent ++ waiting == everything written so far
    + sent_prefix(self, old.self.tx_buffer + data, old, ghost)
    + [
        len(self.tx_buffer) == 0 or self.tx_credits == 0,
        old.self.tx_credits - self.tx_credits == ghost.data_frames - old.ghost.data_frames,
        self.rx_credits - old.self.rx_credits == ghost.granted - old.ghost.granted and ghost.granted >= old.ghost.granted
        and replenished(self),
        implies(self.drained.is_set(), len(self.tx_buffer) == 0),
        implies(len(self.tx_buffer) == 0 and len(old.self.tx_buffer) + len(data) > 0, self.drained.is_set()),
    ],
    ensures_names=WF_NAMES + [ 'credit-ledger'] + SENT_NAMES + ['no-stall', 'one-credit-per-data-frame',
                   'rx-ledger', 'drained-implies-empty', 'empty-implies-drained'],
    # neither bytes nor str: rejected, nothing queued, nothing sent
    raises={core.InvalidArgumentError: lambda self, data, old, ghost: [not isinstance(data, bytes)] + unchanged_tx(self, old, ghost)},
    modifies=TX_MOD,
    uses=USE_TX,
    note='str arguments (UTF-8 encoded by write) are not covered: string contents are outside the value domain',
)


# ---------------------------------------------------------------------------
# DLC.on_uih_frame (receive path)
# ---------------------------------------------------------------------------
model('bumble.rfcomm:RFCOMM_Frame#rx', fields=dict(type=Const(FT.UIH), dlci=IntRange(2, 61), p_f=IntRange(0, 1), information=Bytes))
RX_FRAME = Inst('bumble.rfcomm:RFCOMM_Frame#rx')
RX_GHOST = dict(delivered=Bytes, deliveries=Int, packets=ListOf(Bytes), **TX_GHOST)


def rx_credit(frame):
    return frame.information[0] if frame.p_f == 1 else 0


def rx_data(frame):
    return frame.information[1:] if frame.p_f == 1 else frame.information


def rx_pre(self, frame, ghost):
    # the ghost ledger (the credits the peer has granted in total) already counts the credits this frame carries
    return wf_dlc(self) + [
        ghost.dlci == self.dlci,
        ghost.c_r == self.c_r,
        ghost.mtu == self.mtu,
        ghost.credits == self.tx_credits + (rx_credit(frame) if len(frame.information) > 0 else 0),
        implies(self.drained.is_set(), len(self.tx_buffer) == 0),
        # the peer respects its credits: it holds one for every data frame it sends (rfcomm_stream: the receiver's ledger
        # counts every data frame in flight)
        implies(len(rx_data(frame)) > 0, self.rx_credits >= 1),
    ]


def rx_post(self, frame, old, ghost):
    data = rx_data(frame)
    got = len(data) > 0
    has_sink = self._sink is not None
    r1 = old.self.rx_credits - (1 if got else 0)
    n1 = needed(r1, self)
    return wf_dlc(self) + [
        # credits taken from the first octet iff P/F == 1 (ghost.credits was credited with them on entry)
        ghost.credits == self.tx_credits,
        self.tx_credits + (ghost.data_frames - old.ghost.data_frames) == old.self.tx_credits + rx_credit(frame),
        # the rest is delivered exactly once: to the sink, or queued for it behind what already waits
        ghost.delivered == old.ghost.delivered + (data if has_sink else b''),
        ghost.deliveries == old.ghost.deliveries + (1 if got and has_sink else 0),
        implies(got and not has_sink, list(self._enqueued_rx_packets) == list(old.self._enqueued_rx_packets) + [data]),
        implies(not (got and not has_sink), list(self._enqueued_rx_packets) == list(old.self._enqueued_rx_packets)),
        # one rx credit per data frame, then replenished when at or below the threshold
        self.rx_credits == r1 + n1,
        ghost.granted == old.ghost.granted + n1 and n1 >= 0 and replenished(self),
        # then everything that can be sent is sent
        len(self.tx_buffer) == 0 or self.tx_credits == 0,
        implies(self.drained.is_set(), len(self.tx_buffer) == 0),
    ] + sent_prefix(self, old.self.tx_buffer, old, ghost)


RX_NAMES = WF_NAMES + [ 'credit-ledger', 'credits-from-first-octet', 'delivered-bytes', 'delivered-once',
            'queued-in-order-nothing-lost', 'queue-untouched', 'rx-ledger', 'credits-granted', 'no-stall', 'drained-implies-empty'] + SENT_NAMES
RX_MOD = TX_MOD + ['self._enqueued_rx_packets', 'ghost.delivered', 'ghost.deliveries', 'ghost.packets']

ON_UIH = dict(
    params=dict(self=DLC, frame=RX_FRAME),
    ghost=RX_GHOST,
    requires=rx_pre,
    ensures=rx_post,
    ensures_names=RX_NAMES,
    # a UIH frame with P/F == 1 and no credit octet (never built by RFCOMM_Frame.uih): rejected, nothing changes
    raises={IndexError: lambda self, frame, old, ghost: unchanged_tx(self, old, ghost)
            + [frame.p_f == 1 and len(frame.information) == 0, ghost.delivered == old.ghost.delivered,
               list(self._enqueued_rx_packets) == list(old.self._enqueued_rx_packets)]},
    modifies=RX_MOD,
)
# case split on the receive queue (type invariant of deque(maxlen=QMAX): len <= QMAX): not full (symbolic spine) / full
# (concrete spine of QMAX packets: z3 finds no model of a 32-element sequence of sequences, so the full case is spelled out)
contract('bumble.rfcomm:DLC.on_uih_frame', prop='C20', uses=USE_TX,
         **dict(ON_UIH, requires=lambda self, frame, ghost: rx_pre(self, frame, ghost) + [len(self._enqueued_rx_packets) < QMAX]))
from pyvc.contracts import ConcList  # noqa: E402

contract('bumble.rfcomm:DLC.on_uih_frame', key='bumble.rfcomm:DLC.on_uih_frame@queue-full', prop='C20', uses=USE_TX,
         **dict(ON_UIH, params=dict(self=Inst('bumble.rfcomm:DLC', _enqueued_rx_packets=ConcList(Bytes, QMAX, 'deque', QMAX)), frame=RX_FRAME),
                ))


# ---------------------------------------------------------------------------
# DLC.sink (setter): packets queued while no sink was attached are handed over in order, each once
# ---------------------------------------------------------------------------
contract(
    'bumble.rfcomm:DLC.sink',
    prop='C20',
    params=dict(self=Inst('bumble.rfcomm:DLC', _sink=Any), sink=Opt(Callback('sink', effect=sink_recv))),
    ghost=RX_GHOST,
    requires=PROCESS_TX['requires'],
    ensures=lambda self, sink, old, ghost: wf_dlc(self) + [
        implies(sink is not None, ghost.packets == old.ghost.packets + list(old.self._enqueued_rx_packets) and len(self._enqueued_rx_packets) == 0),
        implies(sink is None, ghost.packets == old.ghost.packets and list(self._enqueued_rx_packets) == list(old.self._enqueued_rx_packets)),
        # the credits withheld while packets were queued are released: the peer is not left without credits
        implies(sink is not None and len(old.self._enqueued_rx_packets) > 0, self.rx_credits > self.rx_credits_threshold),
        ghost.credits == self.tx_credits and len(self.tx_buffer) <= len(old.self.tx_buffer),
    ],
    ensures_names=WF_NAMES + ['queued-packets-delivered-in-order-once', 'detaching-keeps-the-queue', 'withheld-credits-released', 'credit-ledger'],
    invariants={0: lambda self, _i, old, ghost: [
        _i >= 0,
        list(self._enqueued_rx_packets) == list(old.self._enqueued_rx_packets),
        ghost.packets == old.ghost.packets + list(old.self._enqueued_rx_packets)[:_i],
        ghost.credits == old.ghost.credits and ghost.granted == old.ghost.granted,
    ] + unchanged_tx(self, old, ghost)},
    decreases={0: lambda self, _i: len(self._enqueued_rx_packets) - _i},
    modifies=['self._sink', 'self._enqueued_rx_packets', 'ghost.delivered', 'ghost.deliveries', 'ghost.packets'] + TX_MOD,
    uses=USE_TX,
    note='the property setter (second definition of DLC.sink)',
)


# ---------------------------------------------------------------------------
# two ends: the stream invariant is inductive (ghost drivers over the contracts above)
#
# One end `dlc` acts (its code runs, through its contract); the other end is present through the values of its
# ledgers.  Names: s_* sender-side and r_* receiver-side quantities of one direction of the link.
#   taken    credits an end has taken from the credit octets it received
#   datarcvd data frames an end has received
#   written  every byte ever passed to write() on that end
# In flight on an order-preserving link: data frames sent and not yet received, credits granted and not yet taken.
# ---------------------------------------------------------------------------
def dir_inv(s_tx_credits, s_tx_buffer, s_wire, s_data_frames, s_taken, s_written, r_rx_credits, r_delivered, r_granted, r_datarcvd):
    """direction invariant: data flows s -> r, credits flow r -> s"""
    return [
        # the receiver has got a prefix of what the sender put on the wire ...
        len(r_delivered) <= len(s_wire) and s_wire[: len(r_delivered)] == r_delivered,
        # ... which together with what still waits is everything that was written, in order
        s_wire + s_tx_buffer == s_written,
        # credit ledger: the receiver's count of the sender's credits == sender's credits + data frames in flight
        # (they will cost the receiver one each) + credits in flight
        s_data_frames - r_datarcvd >= 0 and r_granted - s_taken >= 0,
        s_tx_credits + (s_data_frames - r_datarcvd) + (r_granted - s_taken) == r_rx_credits,
        # in-flight bytes travel in in-flight frames
        implies(s_data_frames == r_datarcvd, len(r_delivered) == len(s_wire)),
        # never a dead end: the receiver always accounts for at least one credit (held by the sender or in flight)
        r_rx_credits >= 1,
    ]


PEER = dict(p_tx_credits=Int, p_rx_credits=Int, p_tx_buffer=Bytes, p_wire=Bytes, p_data_frames=Int, p_taken=Int, p_written=Bytes,
            p_delivered=Bytes, p_granted=Int, p_datarcvd=Int)
MINE = dict(taken=Int, datarcvd=Int, written=Bytes)


def both_dirs(dlc, ghost, taken, datarcvd, written, p_tx_credits, p_rx_credits, p_tx_buffer, p_wire, p_data_frames, p_taken, p_written,
              p_delivered, p_granted, p_datarcvd):
    return (
        # dlc -> peer
        dir_inv(dlc.tx_credits, dlc.tx_buffer, ghost.wire, ghost.data_frames, taken, written, p_rx_credits, p_delivered, p_granted, p_datarcvd)
        # peer -> dlc
        + dir_inv(p_tx_credits, p_tx_buffer, p_wire, p_data_frames, p_taken, p_written, dlc.rx_credits, ghost.delivered, ghost.granted, datarcvd)
    )


NAMES_DIR = ['delivered-is-prefix-of-wire', 'wire++waiting==written', 'in-flight>=0', 'credit-ledgers-agree', 'bytes-in-flight-travel-in-frames', 'no-dead-end']
NAMES_BOTH = ['->peer:' + n for n in NAMES_DIR] + ['<-peer:' + n for n in NAMES_DIR]
ALL = 'dlc, ghost, taken, datarcvd, written, p_tx_credits, p_rx_credits, p_tx_buffer, p_wire, p_data_frames, p_taken, p_written, p_delivered, p_granted, p_datarcvd'


def lemma_stream_write(dlc, chunk):
    """step: the application writes any chunk on the acting end"""
    dlc.write(chunk)


lemma(
    'rfcomm_stream_write',
    lemma_stream_write,
    prop='C20',
    params=dict(dlc=DLC, chunk=Bytes, **MINE, **PEER),
    ghost=RX_GHOST,
    requires=lambda dlc, ghost, taken, datarcvd, written, p_tx_credits, p_rx_credits, p_tx_buffer, p_wire, p_data_frames, p_taken, p_written, p_delivered, p_granted, p_datarcvd:
        PROCESS_TX['requires'](dlc, ghost) + both_dirs(dlc, ghost, taken, datarcvd, written, p_tx_credits, p_rx_credits, p_tx_buffer, p_wire, p_data_frames, p_taken, p_written, p_delivered, p_granted, p_datarcvd),
    ensures=lambda dlc, chunk, ghost, taken, datarcvd, written, p_tx_credits, p_rx_credits, p_tx_buffer, p_wire, p_data_frames, p_taken, p_written, p_delivered, p_granted, p_datarcvd:
        PROCESS_TX['requires'](dlc, ghost) + both_dirs(dlc, ghost, taken, datarcvd, written + chunk, p_tx_credits, p_rx_credits, p_tx_buffer, p_wire, p_data_frames, p_taken, p_written, p_delivered, p_granted, p_datarcvd),
    ensures_names=WF_NAMES + [ 'mirror-dlci', 'mirror-c_r', 'mirror-mtu', 'mirror-credits', 'drained-implies-empty'] + NAMES_BOTH,
    uses=['bumble.rfcomm:DLC.write'],
)


def lemma_stream_deliver(dlc, frame):
    """step: the order-preserving link hands the oldest frame in flight from the peer to the acting end"""
    dlc.on_uih_frame(frame)


def next_in_flight(frame, ghost, datarcvd, p_wire, p_data_frames, p_granted, taken):
    """what an order-preserving link can deliver next, given only the totals: a frame the peer's sender contract allows
    (mux_send), whose credits are part of the credits in flight, whose bytes are the next bytes in flight, and which
    carries all of them when it is the last data frame in flight"""
    c = rx_credit(frame)
    d = rx_data(frame)
    n = len(ghost.delivered)
    return [
        implies(frame.p_f == 1, len(frame.information) >= 1 and 1 <= c),
        frame.p_f == 1 or len(d) > 0,
        c <= p_granted - taken,
        implies(len(d) > 0, p_data_frames - datarcvd >= 1),
        n + len(d) <= len(p_wire) and p_wire[n : n + len(d)] == d,
        implies(len(d) > 0 and p_data_frames - datarcvd == 1, n + len(d) == len(p_wire)),
    ]


lemma(
    'rfcomm_stream_deliver',
    lemma_stream_deliver,
    prop='C20',
    params=dict(dlc=Inst('bumble.rfcomm:DLC', _sink=Callback('sink', effect=sink_recv)), frame=RX_FRAME, **MINE, **PEER),
    ghost=RX_GHOST,
    # the stream invariant, with the ghost ledger already credited with the credits this frame carries (rx_pre)
    requires=lambda dlc, frame, ghost, taken, datarcvd, written, p_tx_credits, p_rx_credits, p_tx_buffer, p_wire, p_data_frames, p_taken, p_written, p_delivered, p_granted, p_datarcvd:
        rx_pre(dlc, frame, ghost) + [len(dlc._enqueued_rx_packets) == 0]
        + next_in_flight(frame, ghost, datarcvd, p_wire, p_data_frames, p_granted, taken)
        + both_dirs(dlc, ghost, taken, datarcvd, written, p_tx_credits, p_rx_credits, p_tx_buffer, p_wire, p_data_frames, p_taken, p_written, p_delivered, p_granted, p_datarcvd),
    ensures=lambda dlc, frame, ghost, taken, datarcvd, written, p_tx_credits, p_rx_credits, p_tx_buffer, p_wire, p_data_frames, p_taken, p_written, p_delivered, p_granted, p_datarcvd:
        PROCESS_TX['requires'](dlc, ghost)
        + both_dirs(dlc, ghost, taken + rx_credit(frame), datarcvd + (1 if len(rx_data(frame)) > 0 else 0), written, p_tx_credits, p_rx_credits, p_tx_buffer, p_wire, p_data_frames, p_taken, p_written, p_delivered, p_granted, p_datarcvd),
    ensures_names=WF_NAMES + [ 'mirror-dlci', 'mirror-c_r', 'mirror-mtu', 'mirror-credits', 'drained-implies-empty'] + NAMES_BOTH,
    uses=['bumble.rfcomm:DLC.on_uih_frame'],
)
