"""C18 (field-spec driven PDU families above HCI) -- the machinery of contracts/c01_hci.py applied to the classes that
reuse the HCI field codec: ATT_PDU, SMP_Command, L2CAP_Control_Frame and SDP_PDU subclasses.

For every class found by reflection in the family registry whose `fields` can be described (see c01_hci.describe_spec) and
that does not override codec methods, one pair of lemmas is generated:

  <family>/<Class>/fields   for all field values of the wire domain: Family.from_bytes(bytes(Class(**values))) is a Class
                            with equal field values and serialises to the same bytes; the envelope is checked against the
                            PDU formats of the Core specification
  <family>/<Class>/bytes    for all well-formed payload bytes: Family.from_bytes(raw) is a Class, bytes(...) == raw, the
                            payload re-serialised from the parsed fields equals the payload, parsed values lie in the domain

Classes that cannot be handled are listed in NOT_COVERED (and in ENVIRONMENT): they are *not* claimed.
The hand-written codecs of C18 are in contracts/c18_codecs.py (untouched).
"""
import dataclasses

import pyvc.ext_c01  # noqa: F401
from bumble import att, hci, l2cap, sdp, smp
from contracts.c01_hci import (INLINE, ROW_COUNTS, Undescribed, check_domain, check_fields, chunk_dom, chunk_T, desc_T, describe_fields, dom, has_group, mk_kwargs,
                               mk_wire_all, value_T)
from pyvc.contracts import IntRange, lemma

PROP = 'C18'
INLINE18 = INLINE + ['bumble.att:*', 'bumble.smp:*', 'bumble.l2cap:*', 'bumble.sdp:*']
U8 = IntRange(0, 255)
U16 = IntRange(0, 0xFFFF)


# ---------------------------------------------------------------------------------------------------------------------
# envelopes, from the Core specification (not from the code)
# ---------------------------------------------------------------------------------------------------------------------
def att_pdu(code, extra, payload):
    """Vol 3 Part F 3.3: Attribute Opcode (1 octet), Attribute Parameters"""
    return bytes([code]) + payload


def smp_pdu(code, extra, payload):
    """Vol 3 Part H 3.3: Code (1 octet), Data"""
    return bytes([code]) + payload


def l2cap_signalling_pdu(code, extra, payload):
    """Vol 3 Part A 4: Code (1), Identifier (1), Length (2, little-endian), Data"""
    return bytes([code, extra[0], len(payload) % 256, len(payload) // 256]) + payload


def sdp_pdu(code, extra, payload):
    """Vol 3 Part B 4.2: PDU ID (1), Transaction ID (2, big-endian), ParameterLength (2, big-endian), parameters"""
    return bytes([code, extra[0] // 256, extra[0] % 256, len(payload) // 256, len(payload) % 256]) + payload


class Family:
    def __init__(self, tag, base, registry, code_of, extra, envelope, limit, header_len):
        self.tag = tag
        self.base = base  # class whose from_bytes dispatches
        self.registry = registry
        self.code_of = code_of
        self.extra = extra  # ((constructor argument outside `fields`, type), ...)
        self.envelope = envelope
        self.limit = limit  # largest payload the envelope can announce (None: no length field)
        self.header_len = header_len


FAMILIES = [
    Family('att', att.ATT_PDU, att.ATT_PDU.pdu_classes, lambda c: int(c.op_code), (), att_pdu, None, 1),
    Family('smp', smp.SMP_Command, smp.SMP_Command.smp_classes, lambda c: int(c.code), (), smp_pdu, None, 1),
    Family('l2cap', l2cap.L2CAP_Control_Frame, l2cap.L2CAP_Control_Frame.classes, lambda c: int(c.code), (('identifier', U8),), l2cap_signalling_pdu, 0xFFFF, 4),
    Family('sdp', sdp.SDP_PDU, sdp.SDP_PDU.subclasses, lambda c: int(c.pdu_id), (('transaction_id', U16),), sdp_pdu, 0xFFFF, 5),
]

CODEC_METHODS = ('from_bytes', '__bytes__', 'payload', '__init__', '__post_init__', 'init_from_bytes', '__setattr__', '__getattr__')


def overrides_in(fam, cls):
    out = []
    for m in CODEC_METHODS:
        for k in cls.__mro__:
            if m in k.__dict__:
                gen_init = m == '__init__' and '__dataclass_fields__' in k.__dict__ and getattr(k.__dict__[m], '__code__', None) is not None and k.__dict__[m].__code__.co_filename == '<string>'
                if k not in (fam.base, object) and not gen_init:
                    out.append(f'{k.__name__}.{m}')
                break
    return out


def make_fields_lemma(fam, cls, desc):
    code = fam.code_of(cls)
    limit = fam.limit if fam.limit is not None else (1 << 40)
    base = fam.base
    envelope = fam.envelope
    names = tuple(n for n, _ in fam.extra)
    hl = fam.header_len

    def requires(extra, vals):
        return dom(desc, vals, limit)

    def L(extra, vals):
        kw = mk_kwargs(desc, vals)
        for n, x in zip(names, extra):
            kw[n] = x
        pdu = cls(**kw)
        raw = bytes(pdu)
        payload = raw[hl:]
        assert raw == envelope(code, extra, payload)
        back = base.from_bytes(raw)
        assert type(back) is cls
        for n, x in zip(names, extra):
            assert getattr(back, n) == x
        check_fields(desc, vals, kw, back)
        assert bytes(back) == raw

    return L, requires


def make_bytes_lemma(fam, cls, desc, rows):
    code = fam.code_of(cls)
    limit = fam.limit if fam.limit is not None else (1 << 40)
    base = fam.base
    envelope = fam.envelope
    names = tuple(n for n, _ in fam.extra)

    def requires(extra, chunks):
        return chunk_dom(desc, chunks, limit)

    def L(extra, chunks):
        payload = mk_wire_all(desc, chunks)
        raw = envelope(code, extra, payload)
        pdu = base.from_bytes(raw)
        assert type(pdu) is cls
        assert bytes(pdu) == raw
        for n, x in zip(names, extra):
            assert getattr(pdu, n) == x
        # re-serialised from the parsed fields (bytes(pdu) returns the cached payload)
        assert hci.HCI_Object.dict_to_bytes(pdu.__dict__, cls.fields) == payload
        check_domain(desc, pdu, rows)

    return L, requires


NOT_COVERED = []


def register(fam, cls):
    name = f'fields/{fam.tag}/{cls.__name__}'
    try:
        ov = overrides_in(fam, cls)
        if ov:
            raise Undescribed('overrides ' + ', '.join(ov))
        desc = describe_fields(cls.fields)
        dc_names = sorted(f.name for f in dataclasses.fields(cls) if f.init)
        names = sorted([it[1] for it in desc if it[0] == 'f'] + [nk[0] for it in desc if it[0] == 'g' for nk in it[1]] + [n for n, _ in fam.extra])
        if dc_names != names:
            raise Undescribed(f'dataclass fields {dc_names} differ from the codec fields {names}')
        from pyvc.contracts import TupleOf

        ET = TupleOf(*[t for _, t in fam.extra])
        for k in (ROW_COUNTS if has_group(desc) else (None,)):
            tag = '' if k is None else f'[rows={k}]'
            note = '' if k is None else f'bounded(3): repeated group unrolled to {k} item(s)'
            L, R = make_fields_lemma(fam, cls, desc)
            lemma(f'{name}/fields{tag}', L, prop=PROP, params=dict(extra=ET, vals=desc_T(desc, k or 0, value_T)), requires=R, inline=INLINE18, procs=1, note=note)
            L, R = make_bytes_lemma(fam, cls, desc, k or 0)
            lemma(f'{name}/bytes{tag}', L, prop=PROP, params=dict(extra=ET, chunks=desc_T(desc, k or 0, chunk_T)), requires=R, inline=INLINE18, procs=1, note=note)
    except Undescribed as e:
        NOT_COVERED.append(f'{fam.tag}/{cls.__name__}: {e}')


def make_coverage_lemma(fam, covered, missing):
    def L():
        # every class of the registry is either covered by a pair of lemmas or listed as not covered
        assert covered + missing == len(fam.registry)

    return L


for _fam in FAMILIES:
    _n0 = len(NOT_COVERED)
    for _code, _cls in sorted(_fam.registry.items(), key=lambda kv: int(kv[0])):
        register(_fam, _cls)
    _missing = NOT_COVERED[_n0:]
    lemma(f'fields/{_fam.tag}/coverage', make_coverage_lemma(_fam, len(_fam.registry) - len(_missing), len(_missing)), prop=PROP, params={}, inline=INLINE18, procs=1,
          assumes=[f'{_fam.tag}: classes NOT covered by the field-spec lemmas: ' + ('; '.join(_missing) or 'none')],
          note=f'{len(_fam.registry) - len(_missing)} of {len(_fam.registry)} classes covered')

ENVIRONMENT = [
    'c18_fields: field values range over the wire domain of each field kind (see contracts/c01_hci.py); classes NOT covered by '
    'the field-spec families (own codec methods or field specs outside the described kinds: UUID / DataElement / class-local '
    'parser lambdas): ' + '; '.join(NOT_COVERED),
    'c18_fields: unknown opcodes / codes of these families are not part of these lemmas',
]
