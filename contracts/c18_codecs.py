"""C18 — every protocol data unit above HCI round-trips through its codec (hand-written codecs)."""
from bumble import l2cap, rfcomm, rtp
from pyvc.contracts import (NATIVE_UF, uf, Any, Bool, Bytes, Callback, ConcList, Inst, Int, IntRange, OneOf, Opt, contract, iff, implies,
                            lemma, model, at, ite)

ENVIRONMENT = [
    'codec functions are executed in place (inlined) inside the round-trip lemmas: the obligations are over the real ASTs',
    'constant tables (CRC) are uninterpreted functions with one defining equation per entry',
]

# ---------------------------------------------------------------------------
# ERTM enhanced control fields (Core Vol 3 Part A 3.3.2): 16 bits
#   I-frame: bit0=0, TxSeq bits1-6, F bit7, ReqSeq bits8-13, SAR bits14-15
#   S-frame: bit0=1, S bits2-3, P bit4, F bit7, ReqSeq bits8-13
# ---------------------------------------------------------------------------
CF_INLINE = ['*ControlField.from_bytes', '*ControlField.__bytes__']


def lemma_iframe_fields(tx_seq, sar, req_seq, final):
    f = l2cap.InformationEnhancedControlField(tx_seq=tx_seq, sar=sar, req_seq=req_seq, final=final)
    b = bytes(f)
    assert len(b) == 2
    assert b[0] == tx_seq * 2 + final * 128 and b[1] == req_seq + sar * 64  # bit layout of the specification
    g = l2cap.EnhancedControlField.from_bytes(b)
    assert g.frame_type == 0
    assert g.tx_seq == tx_seq and g.sar == sar and g.req_seq == req_seq and g.final == final


lemma(
    'ertm_iframe_fields_roundtrip',
    lemma_iframe_fields,
    prop='C18',
    params=dict(tx_seq=IntRange(0, 63), sar=IntRange(0, 3), req_seq=IntRange(0, 63), final=IntRange(0, 1)),
    inline=CF_INLINE,
)


def lemma_iframe_bytes(b):
    f = l2cap.EnhancedControlField.from_bytes(b)
    assert bytes(f) == b


lemma(
    'ertm_iframe_bytes_roundtrip',
    lemma_iframe_bytes,
    prop='C18',
    params=dict(b=Bytes),
    requires=lambda b: [len(b) == 2, at(b, 0) % 2 == 0],
    inline=CF_INLINE,
)


def lemma_sframe_fields(sf, poll, req_seq, final):
    f = l2cap.SupervisoryEnhancedControlField(supervision_function=sf, poll=poll, req_seq=req_seq, final=final)
    b = bytes(f)
    assert len(b) == 2
    assert b[0] == 1 + sf * 4 + poll * 16 + final * 128 and b[1] == req_seq
    g = l2cap.EnhancedControlField.from_bytes(b)
    assert g.frame_type == 1
    assert g.supervision_function == sf and g.poll == poll and g.req_seq == req_seq and g.final == final


lemma(
    'ertm_sframe_fields_roundtrip',
    lemma_sframe_fields,
    prop='C18',
    params=dict(sf=IntRange(0, 3), poll=IntRange(0, 1), req_seq=IntRange(0, 63), final=IntRange(0, 1)),
    inline=CF_INLINE,
)


def lemma_sframe_bytes(b):
    f = l2cap.EnhancedControlField.from_bytes(b)
    assert bytes(f) == b


lemma(
    'ertm_sframe_bytes_roundtrip',
    lemma_sframe_bytes,
    prop='C18',
    params=dict(b=Bytes),
    # well-formed S-frame: reserved bits (1, 5, 6 of the first byte; bit 7 of the second... ) are zero
    requires=lambda b: [len(b) == 2, at(b, 0) % 2 == 1, (at(b, 0) // 2) % 2 == 0, (at(b, 0) // 32) % 4 == 0, at(b, 1) < 128],
    inline=CF_INLINE,
)


# ---------------------------------------------------------------------------
# RFCOMM frames (TS 07.10 5.2): address, control, 1- or 2-byte length, information, FCS
# ---------------------------------------------------------------------------
RF_INLINE = ['RFCOMM_Frame.*']
FT = rfcomm.FrameType

NATIVE_UF['rfcomm_fcs'] = rfcomm.compute_fcs
contract(
    'bumble.rfcomm:compute_fcs',
    key='bumble.rfcomm:compute_fcs@pure',
    params=dict(buffer=Bytes),
    returns=Int,
    ensures=lambda buffer, res: [res == uf('rfcomm_fcs', buffer), 0 <= res, res <= 255],
    modifies=[],
    trusted=True,
    note='compute_fcs is treated as a pure function of its argument with a result in 0..255 (table-driven CRC, not re-derived)',
)
RF_USES = ['bumble.rfcomm:compute_fcs@pure']


def lemma_rfcomm_fields(frame_type, c_r, dlci, p_f, information, with_credits):
    f = rfcomm.RFCOMM_Frame(frame_type, c_r, dlci, p_f, information, with_credits)
    b = bytes(f)
    # length indicator: payload length excludes the credit byte; EA bit set iff one length byte
    n = len(information) - (1 if with_credits else 0)
    assert len(b) == 2 + (1 if n <= 127 else 2) + len(information) + 1
    assert (b[2] == 2 * n + 1) if n <= 127 else (b[2] == 2 * (n % 128) and b[3] == n // 128)
    # (proof hints: where the information field sits in b)
    if n <= 127:
        assert b[3:-1] == information
    else:
        assert b[4:-1] == information
    assert b[-1] == f.fcs
    # (proof hints: decoding then re-encoding the address and control octets is the identity)
    assert 4 * ((b[0] // 4) % 64) + 2 * ((b[0] // 2) % 2) + 1 == b[0]
    assert (b[1] & 0xEF) + 16 * ((b[1] // 16) % 2) == b[1]
    assert (b[1] & 0xEF) == frame_type
    d2 = (b[0] >> 2) & 0x3F
    c2 = (b[0] >> 1) & 0x01
    p2 = (b[1] >> 4) & 0x01
    assert d2 == dlci and c2 == c_r and p2 == p_f
    assert ((d2 << 2) | (c2 << 1) | 1) == b[0]
    assert ((b[1] & 0xEF) | (p2 << 4)) == b[1]
    g = rfcomm.RFCOMM_Frame.from_bytes(b)
    assert g.type == frame_type and g.c_r == c_r and g.dlci == dlci and g.p_f == p_f
    assert g.information == information
    assert g.fcs == f.fcs
    # an equal value: it serialises to the same bytes again
    assert bytes(g) == b


for _ft in (FT.SABM, FT.UA, FT.DM, FT.DISC, FT.UIH):
  lemma(
    f'rfcomm_frame_fields_roundtrip_{_ft.name}',
    lemma_rfcomm_fields,
    prop='C18',
    params=dict(
        frame_type=OneOf(_ft),
        c_r=IntRange(0, 1),
        dlci=IntRange(0, 63),
        p_f=IntRange(0, 1),
        information=Bytes,
        with_credits=Bool,
    ),
    # credit byte only on UIH frames with P/F set (how bumble builds them: RFCOMM_Frame.uih), length 0..32767
    requires=lambda frame_type, p_f, information, with_credits: [
        len(information) <= 32767 + (1 if with_credits else 0),
        iff(with_credits, frame_type == FT.UIH and p_f == 1),
        implies(with_credits, len(information) >= 1),
    ],
    inline=RF_INLINE,
    uses=RF_USES,
)


def lemma_mcc(mcc_type, c_r, data):
    b = rfcomm.RFCOMM_Frame.make_mcc(mcc_type, c_r, data)
    t, cr, value = rfcomm.RFCOMM_Frame.parse_mcc(b)
    assert t == mcc_type and cr == (c_r == 1) and value == data


lemma(
    'rfcomm_mcc_roundtrip',
    lemma_mcc,
    prop='C18',
    params=dict(mcc_type=IntRange(0, 63), c_r=IntRange(0, 1), data=Bytes),
    requires=lambda data: len(data) <= 127,
    inline=RF_INLINE,
    note='make_mcc only produces the one-byte length form: values longer than 127 bytes are outside what bumble builds',
)


# ---------------------------------------------------------------------------
# RTP media packets (RFC 3550 5.1): 12-byte header, 0..15 CSRC words, payload
# ---------------------------------------------------------------------------
RTP_INLINE = ['MediaPacket.*']


def lemma_rtp_fields(version, padding, extension, marker, sequence_number, timestamp, ssrc, csrc_list, payload_type, payload):
    p = rtp.MediaPacket(version, padding, extension, marker, sequence_number, timestamp, ssrc, csrc_list, payload_type, payload)
    q = rtp.MediaPacket.from_bytes(bytes(p))
    assert q.version == version and q.padding == padding and q.extension == extension and q.marker == marker
    assert q.sequence_number == sequence_number and q.timestamp == timestamp and q.ssrc == ssrc
    assert q.payload_type == payload_type and q.payload == payload
    assert q.csrc_list == csrc_list


for _n in range(0, 4):
    lemma(
        f'rtp_fields_roundtrip_csrc{_n}',
        lemma_rtp_fields,
        prop='C18',
        params=dict(
            version=IntRange(0, 3),
            padding=IntRange(0, 1),
            extension=IntRange(0, 1),
            marker=IntRange(0, 1),
            sequence_number=IntRange(0, 0xFFFF),
            timestamp=IntRange(0, 0xFFFFFFFF),
            ssrc=IntRange(0, 0xFFFFFFFF),
            csrc_list=ConcList(IntRange(0, 0xFFFFFFFF), _n),
            payload_type=IntRange(0, 127),
            payload=Bytes,
        ),
        inline=RTP_INLINE,
        note=f'CSRC count {_n}: counts 0..3 are enumerated (bounded stand-in for 0..15; the code is uniform in the count)',
    )
