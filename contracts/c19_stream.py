"""C19 (AVDTP stream procedures) -- per-function state guards only.

The statement's clause "procedures issued in any order leave the source and the sink in the same stream state" is
about two parties and an asynchronous exchange; that interleaving is OUTSIDE what contracts reach (said so in
NOTES.md).  What IS under contract, function by function:

  initiator  Stream.configure / open / start / stop / close
             not legal in the current state -> InvalidStateError, state unchanged, nothing sent to the peer;
             legal -> the remote procedure is issued first, the state moves only after the peer accepted
             (a rejection, ProtocolError, leaves the state unchanged)
  acceptor   Stream.on_set_configuration / on_open / on_start / on_suspend / on_close / on_abort _command,
             on_get_configuration / on_reconfigure _command
             not legal in the current state -> a reject message, state unchanged, the local endpoint is not asked;
             legal and accepted -> the state the initiator moves to for the same procedure (table in NOTES.md)
"""
from bumble import avdtp
from bumble.core import InvalidStateError, ProtocolError
from pyvc.contracts import (Any, Bool, Bytes, Callback, Inst, Int, IntRange, ListOf, OneOf, Opaque, Opt, contract, iff, implies,
                            model)

ENVIRONMENT = [
    'AVDTP streams: the two ends run concurrently and exchange commands over L2CAP; only the per-function state guards are '
    'verified, not that both ends agree after any sequence of procedures',
    'AVDTP streams: local / remote endpoint objects (codec specific) are recording stubs: a remote procedure either '
    'returns (accepted) or raises ProtocolError (rejected by the peer); a local acceptor hook returns None (accept) or a '
    'reject message',
]

IDLE, CONFIGURED, OPEN, STREAMING, CLOSING, ABORTING = (int(s) for s in avdtp.State)
# codes of the calls recorded in ghost.calls
R_SET_CONFIGURATION, R_OPEN, R_START, R_STOP, R_CLOSE = 1, 2, 3, 4, 5
L_START, L_STOP, L_CLOSE = 11, 12, 13
L_ON_SET_CONFIGURATION, L_ON_GET_CONFIGURATION, L_ON_RECONFIGURE, L_ON_OPEN, L_ON_START, L_ON_SUSPEND, L_ON_CLOSE, L_ON_ABORT = 21, 22, 23, 24, 25, 26, 27, 28
CH_CREATE, CH_DISCONNECT = 31, 32


def _remote(code):
    def eff(ghost, *args):
        ghost.calls = ghost.calls + [code]
        if ghost.peer_rejects:
            raise ProtocolError(error_code=1)

    return Callback(f'remote{code}', effect=eff, is_async=True, raises=(ProtocolError,))


def _local(code):
    def eff(ghost, *args):
        ghost.calls = ghost.calls + [code]

    return Callback(f'local{code}', effect=eff, is_async=True)


def _local_hook(code):
    def eff(ghost, *args):
        ghost.calls = ghost.calls + [code]
        return ghost.local_answer

    return Callback(f'hook{code}', effect=eff, is_async=True)


def _create_channel(ghost, spec):
    ghost.calls = ghost.calls + [CH_CREATE]
    return ghost.new_channel


def _disconnect(ghost):
    ghost.calls = ghost.calls + [CH_DISCONNECT]


model(
    'ghost:RemoteEndpoint',
    fields={},
    methods={'set_configuration': _remote(R_SET_CONFIGURATION), 'open': _remote(R_OPEN), 'start': _remote(R_START), 'stop': _remote(R_STOP), 'close': _remote(R_CLOSE)},
)
model(
    'ghost:LocalEndpoint',
    fields=dict(seid=Int, configuration=Any),
    methods={
        'start': _local(L_START),
        'stop': _local(L_STOP),
        'close': _local(L_CLOSE),
        'on_set_configuration_command': _local_hook(L_ON_SET_CONFIGURATION),
        'on_get_configuration_command': _local_hook(L_ON_GET_CONFIGURATION),
        'on_reconfigure_command': _local_hook(L_ON_RECONFIGURE),
        'on_open_command': _local_hook(L_ON_OPEN),
        'on_start_command': _local_hook(L_ON_START),
        'on_suspend_command': _local_hook(L_ON_SUSPEND),
        'on_close_command': _local_hook(L_ON_CLOSE),
        'on_abort_command': _local_hook(L_ON_ABORT),
    },
)
model('ghost:RtpChannel', fields={}, methods={'disconnect': Callback('disconnect', effect=_disconnect, is_async=True)})
model('ghost:AclConnection', fields={}, methods={'create_l2cap_channel': Callback('create_l2cap_channel', effect=_create_channel, is_async=True)})
model('ghost:SignallingChannel', fields=dict(connection=Inst('ghost:AclConnection')))
model('ghost:StreamProtocol', fields=dict(l2cap_channel=Inst('ghost:SignallingChannel'), channel_acceptor=Any))
model(
    'bumble.avdtp:Stream',
    fields=dict(
        state=IntRange(0, 5),
        rtp_channel=Opt(Inst('ghost:RtpChannel')),
        local_endpoint=Inst('ghost:LocalEndpoint'),
        remote_endpoint=Inst('ghost:RemoteEndpoint'),
        protocol=Inst('ghost:StreamProtocol'),
    ),
)
STREAM = Inst('bumble.avdtp:Stream')
GHOST = dict(calls=ListOf(Int), peer_rejects=Bool, local_answer=Opt(Opaque('reject')), new_channel=Inst('ghost:RtpChannel'))
MOD = ['self.state', 'self.rtp_channel', 'self.protocol.channel_acceptor', 'ghost.calls']
INLINE = ['Stream.change_state', 'BaseError.__init__', 'Message.*', 'Simple_Reject.*', 'Set_Configuration_Reject.*', 'ClassicChannelSpec.*']


def unchanged(self, old, ghost):
    return self.state == old.self.state and ghost.calls == old.ghost.calls


def refused(legal):
    """InvalidStateError: exactly when the procedure is not legal in the current state; nothing changes, nothing is sent"""
    return lambda self, old, ghost: [not legal(old.self.state), unchanged(self, old, ghost)]


def peer_refused(legal, sent):
    """ProtocolError from the peer: the procedure was legal here and was issued; the state did not move"""
    return lambda self, old, ghost: [legal(old.self.state), self.state == old.self.state, ghost.calls == old.ghost.calls + sent()]


def initiator(name, legal, target, sent, extra_raises=None):
    contract(
        f'bumble.avdtp:Stream.{name}',
        prop='C19',
        params=dict(self=STREAM),
        ghost=GHOST,
        ensures=lambda self, old, ghost: [legal(old.self.state), self.state == target, ghost.calls == old.ghost.calls + sent(old.self)],
        ensures_names=['only-when-legal', 'target-state', 'procedures-issued-in-order'],
        raises={InvalidStateError: refused(legal), **(extra_raises or {})},
        modifies=MOD,
        inline=INLINE,
    )


initiator('configure', lambda s: s == IDLE, CONFIGURED, lambda o: [R_SET_CONFIGURATION],
          {ProtocolError: peer_refused(lambda s: s == IDLE, lambda: [R_SET_CONFIGURATION])})
initiator('open', lambda s: s == CONFIGURED, OPEN, lambda o: [R_OPEN, CH_CREATE],
          {ProtocolError: peer_refused(lambda s: s == CONFIGURED, lambda: [R_OPEN])})
initiator('stop', lambda s: s == STREAMING, OPEN, lambda o: [L_STOP, R_STOP],
          {ProtocolError: peer_refused(lambda s: s == STREAMING, lambda: [L_STOP, R_STOP])})

contract(
    'bumble.avdtp:Stream.start',
    prop='C19',
    params=dict(self=STREAM),
    ghost=GHOST,
    # legal in OPEN, and in CONFIGURED (the stream is opened first)
    ensures=lambda self, old, ghost: [
        old.self.state == OPEN or old.self.state == CONFIGURED,
        self.state == STREAMING,
        implies(old.self.state == OPEN, ghost.calls == old.ghost.calls + [R_START, L_START]),
        implies(old.self.state == CONFIGURED, ghost.calls == old.ghost.calls + [R_OPEN, CH_CREATE, R_START, L_START]),
    ],
    ensures_names=['only-when-legal', 'target-state', 'procedures-issued-in-order', 'opened-first-when-configured'],
    raises={
        InvalidStateError: refused(lambda s: s == OPEN or s == CONFIGURED),
        # the peer refused open (state unchanged) or start (state stays where open left it)
        ProtocolError: lambda self, old, ghost: [old.self.state == OPEN or old.self.state == CONFIGURED, self.state == old.self.state or (old.self.state == CONFIGURED and self.state == OPEN)],
    },
    modifies=MOD,
    inline=INLINE + ['Stream.open'],
)

contract(
    'bumble.avdtp:Stream.close',
    prop='C19',
    params=dict(self=STREAM),
    ghost=GHOST,
    ensures=lambda self, old, ghost: [
        old.self.state == OPEN or old.self.state == STREAMING,
        self.state == IDLE and self.rtp_channel is None,
        implies(old.self.rtp_channel is None, ghost.calls == old.ghost.calls + [L_CLOSE, R_CLOSE]),
        implies(old.self.rtp_channel is not None, ghost.calls == old.ghost.calls + [L_CLOSE, R_CLOSE, CH_DISCONNECT]),
    ],
    ensures_names=['only-when-legal', 'target-state', 'procedures-issued-in-order', 'media-channel-released'],
    raises={
        InvalidStateError: refused(lambda s: s == OPEN or s == STREAMING),
        ProtocolError: peer_refused(lambda s: s == OPEN or s == STREAMING, lambda: [L_CLOSE, R_CLOSE]),
    },
    modifies=MOD,
    inline=INLINE,
)


def acceptor(name, legal, target, hook, params=None, extra_legal=None):
    """acceptor side: `legal(state)` (and `extra_legal(self)`) else a reject and nothing else; the local endpoint hook may
    still refuse (its answer is returned, the state stays); accepted -> target(self_old)"""

    def post(self, res, old, ghost):
        ok = legal(old.self.state) and (extra_legal(old.self) if extra_legal else True)
        accepted = ok and ghost.local_answer is None
        return [
            implies(not ok, res is not None and unchanged(self, old, ghost)),
            implies(ok, ghost.calls == old.ghost.calls + [hook]),
            implies(ok and ghost.local_answer is not None, res is not None and res == ghost.local_answer and self.state == old.self.state),
            implies(accepted, res is None),
            implies(accepted, self.state == target(old.self)),
        ]

    contract(
        f'bumble.avdtp:Stream.{name}',
        prop='C19',
        params=dict(dict(self=STREAM), **(params or {})),
        ghost=GHOST,
        ensures=post,
        ensures_names=['illegal-refused-state-unchanged', 'local-endpoint-asked-once', 'local-refusal-returned-state-unchanged', 'accepted-returns-none', 'accepted-target-state'],
        modifies=MOD,
        inline=INLINE,
    )


CFG = dict(configuration=Any)
acceptor('on_set_configuration_command', lambda s: s == IDLE, lambda o: CONFIGURED, L_ON_SET_CONFIGURATION, CFG)
acceptor('on_reconfigure_command', lambda s: s == OPEN, lambda o: OPEN, L_ON_RECONFIGURE, CFG)
acceptor('on_open_command', lambda s: s == CONFIGURED, lambda o: OPEN, L_ON_OPEN)
def _has_media_channel(o):
    return o.rtp_channel is not None


def _to_streaming(o):
    return STREAMING


# (start also needs the media transport channel: AVDTP 6.12, the stream must be open end to end)
acceptor('on_start_command', lambda s: s == OPEN, _to_streaming, L_ON_START, extra_legal=_has_media_channel)
acceptor('on_suspend_command', lambda s: s == STREAMING, lambda o: OPEN, L_ON_SUSPEND)
acceptor('on_close_command', lambda s: s == OPEN or s == STREAMING, lambda o: IDLE if o.rtp_channel is None else CLOSING, L_ON_CLOSE)

contract(
    'bumble.avdtp:Stream.on_get_configuration_command',
    prop='C19',
    params=dict(self=STREAM),
    ghost=GHOST,
    ensures=lambda self, res, old, ghost: [
        self.state == old.self.state,
        implies(not (old.self.state == CONFIGURED or old.self.state == OPEN or old.self.state == STREAMING), res is not None and ghost.calls == old.ghost.calls),
        implies(old.self.state == CONFIGURED or old.self.state == OPEN or old.self.state == STREAMING, ghost.calls == old.ghost.calls + [L_ON_GET_CONFIGURATION]),
    ],
    ensures_names=['state-unchanged', 'illegal-refused', 'local-endpoint-asked-once'],
    modifies=MOD,
    inline=INLINE,
)

contract(
    'bumble.avdtp:Stream.on_abort_command',
    prop='C19',
    params=dict(self=STREAM),
    ghost=GHOST,
    # abort is legal in every state (AVDTP 9.12): never refused
    ensures=lambda self, res, old, ghost: [
        res is None,
        self.state == (IDLE if old.self.rtp_channel is None else ABORTING),
        ghost.calls == old.ghost.calls + [L_ON_ABORT],
    ],
    ensures_names=['never-refused', 'idle-or-aborting-until-channel-closes', 'local-endpoint-told-once'],
    modifies=MOD,
    inline=INLINE,
)
