"""C10 part 1 -- every ATT handler of the GATT server answers exactly once, with a PDU that fits the bearer's ATT_MTU.

  Server.on_att_*   every handler found by reflection (13).  For each one, on *every* exit of its body:
                    a request is answered by exactly one call of Server.send_response, with the matching response
                    or an Error Response naming the request, to the bearer that asked, and bytes(response) --
                    computed by the real ATT_PDU serialiser -- is at most bearer.att_mtu octets long;
                    a command / confirmation is not answered at all;
                    no exception escapes (an exception escaping a @run_in_task handler is swallowed by the task
                    runner of bumble/utils.py, so nobody would answer for it).
  ATT_*_Response.__post_init__   the four list-shaped responses parse their own payload back when constructed:
                    total under the entry length the handlers pass (call-site obligation).

The database is a list of attributes of any length, attribute values are byte strings of any length (<= 65535 for
Read Multiple Variable), ATT_MTU is any value 23..65535, requests carry any 16-bit parameters / UUIDs / handle lists of
any length.  Each collecting loop carries the invariant
    octets collected so far == budget - pdu_space_available   and   pdu_space_available >= 0
where "octets collected" is the length of the very join / comprehension expression the handler serialises later.
"""
import struct

from spec.att import ATT_ERROR_RSP, answered, response_opcode

from bumble import att, core, gatt_server
from pyvc.contracts import (Bool, Bytes, BytesN, Callback, ConcList, Inst, Int, IntRange, ListOf, OneOf, OrUnbound, TupleOf, bound, contract, forall,
                            implies, model, ufb)
from pyvc.ext_c10 import REC_FROM_NATIVE, RecVal, named

ENVIRONMENT = [
    '@AsyncRunner.run_in_task() on the handlers is read from the AST and ignored (decorators_ok): the coroutine body is '
    'what is verified.  Its meaning is taken from bumble/utils.py: the body runs as a detached task, an exception escaping '
    'it is logged and dropped -- hence NO exception may escape a handler (raises={}) and every exit must have produced '
    'the reply',
    'Attribute.read_value / write_value are callbacks that return (an arbitrary byte string) or raise att.ATT_Error with '
    'any error code 1..255 -- scripted by ghost lists (k-th call -> k-th entry) so that a counter-model replays; any '
    'other exception raised by application code behind an attribute is outside the contract of those functions (C11)',
    'Server.get_attribute returns None or an attribute (scripted likewise); its body (dict + linear search) is not part '
    'of this proof',
    'Bearer.on_att_mtu_update (sets att_mtu, emits an event) does not raise (A2: listeners do not re-enter / raise)',
    'UUIDs are records (width of the stored form, 128-bit value): UUID.__eq__ compares the 128-bit values and '
    'UUID.to_pdu_bytes is 2 octets for a 16-bit UUID and 16 octets otherwise, content uninterpreted (bumble/core.py, '
    'modelled not verified)',
    'the length of b\'\'.join(xs) for a list of symbolic length is the sum of the lengths of its elements (model of the '
    'built-in in pyvc/ext_c10.py); its content is uninterpreted',
    'Read Multiple Variable: attribute values are at most 65535 octets long (the specification allows 512); a longer '
    'value makes struct.pack(\'<H\', len(value)) raise inside the handler task',
]

RUN_IN_TASK = ['utils.AsyncRunner.run_in_task()']
ERR_INLINE = ['ATT_Error.__init__', 'BaseError.__init__']
PDU_INLINE = ['ATT_PDU.__bytes__', 'ATT_PDU.payload', 'HCI_Object.dict_to_bytes', 'HCI_Object.serialize_field', 'bumble.hci:*<lambda>', 'bumble.att:*<lambda>'] + ERR_INLINE
HANDLE = IntRange(0, 0xFFFF)
U16 = IntRange(0, 0xFFFF)
MTU = IntRange(23, 0xFFFF)  # Vol 3 Part F 3.2.8: ATT_MTU >= 23; the Exchange MTU parameters are 16 bit


# ---------------------------------------------------------------------------
# UUIDs: width of the stored form (0: 16 bit, 1: 32 bit, 2: 128 bit) and the 128-bit form as a little-endian integer
# ---------------------------------------------------------------------------
BASE_UUID_INT = int.from_bytes(core.UUID.BASE_UUID, 'little')


def uuid_pdu_bytes(self):
    return ufb('uuid_pdu2', 2, self.n) if self.w == 0 else ufb('uuid_pdu16', 16, self.n)


def build_uuid(fields, builder):
    n, w = fields['n'], fields['w']
    v = (n - BASE_UUID_INT) >> 96
    if w < 2 and n == BASE_UUID_INT + (v << 96) and 0 <= v < (1 << (16 if w == 0 else 32)):
        return core.UUID.from_bytes(v.to_bytes(2 if w == 0 else 4, 'little'))
    return core.UUID.from_bytes((n % (1 << 128)).to_bytes(16, 'little'))


model(
    'bumble.core:UUID#c10',
    fields=dict(w=IntRange(0, 2), n=IntRange(0, 2**128 - 1)),
    methods={'__eq__': lambda self, other: self.n == other.n, 'to_pdu_bytes': uuid_pdu_bytes},
    build=build_uuid,
)
UUID_T = RecVal('bumble.core:UUID#c10')
REC_FROM_NATIVE['bumble.core:UUID#c10'] = lambda u: dict(w={2: 0, 4: 1, 16: 2}[len(u.uuid_bytes)], n=int.from_bytes(u.uuid_128_bytes, 'little'))


# ---------------------------------------------------------------------------
# the environment of a handler: attributes whose reads / writes follow a script, bearers, the recording server
# ---------------------------------------------------------------------------
def script_at(xs, k, default):
    return xs[k] if 0 <= k and k < len(xs) else default


def attr_read(ghost, bearer):
    """k-th read of the run: fails with ghost.read_errs[k] if that is non-zero, else returns ghost.read_vals[k]
    (cut to ghost.vmax octets: an upper bound of the value lengths, unconstrained unless a contract says otherwise)"""
    k = ghost.nreads
    ghost.nreads = k + 1
    e = script_at(ghost.read_errs, k, 0)
    if e != 0:
        raise att.ATT_Error(error_code=e)
    return named(script_at(ghost.read_vals, k, b'')[: ghost.vmax])


def attr_write(ghost, bearer, value):
    k = ghost.nwrites
    ghost.nwrites = k + 1
    e = script_at(ghost.write_errs, k, 0)
    if e != 0:
        raise att.ATT_Error(error_code=e)


model(
    'bumble.att:Attribute#c10',
    fields=dict(handle=HANDLE, end_group_handle=HANDLE, type=UUID_T),
    methods={
        'read_value': Callback('read_value', effect=attr_read, is_async=True, raises=(att.ATT_Error,)),
        'write_value': Callback('write_value', effect=attr_write, is_async=True, raises=(att.ATT_Error,)),
    },
)
ATTR = RecVal('bumble.att:Attribute#c10')
ATTR_LIST = ListOf(ATTR)


def rec_response(ghost, bearer, response):
    """one call of Server.send_response = one reply: what it was, for whom, and how long the PDU is (real serialiser)"""
    ghost.nresp = ghost.nresp + 1
    ghost.rbearer = bearer.g_id
    ghost.rop = response.op_code
    if isinstance(response, att.ATT_Error_Response):
        ghost.rerr_op = response.request_opcode_in_error
        ghost.rerr = response.error_code
    ghost.rlen = len(bytes(response))


def mtu_update(ghost, mtu):
    """Bearer.on_att_mtu_update(mtu) sets bearer.att_mtu: the value must keep the type invariant ATT_MTU >= 23 that every
    other contract of this property relies on (checked at each call)"""
    assert mtu >= 23
    ghost.mtu_updates = ghost.mtu_updates + 1


def srv_get_attribute(ghost, handle):
    """k-th lookup of the run: ghost.found[k] says whether there is such an attribute, ghost.get_attrs[k] is it"""
    k = ghost.ngets
    ghost.ngets = k + 1
    if script_at(ghost.found, k, False):
        return script_at(ghost.get_attrs, k, ghost.attr)
    return None


# the bearer as the handlers and the dispatcher see it: an object with the current ATT_MTU and the MTU-update hook of both
# bearer classes (device.Connection, l2cap.LeCreditBasedChannel).  A *ghost* object: it has no class, so any look at the
# bearer's type or at another attribute inside a handler would be Unsupported / AttributeError, never silently accepted.
# Which wire a reply goes out on is Server.send_response / send_gatt_pdu (c10_dispatch.py, both real bearer classes).
# (`handle` is only read by log lines when a counter-model is replayed natively)
model('ghost:Bearer#c10', fields=dict(att_mtu=MTU, g_id=Int, handle=IntRange(0, 0xEFF)), methods={'on_att_mtu_update': Callback('on_att_mtu_update', effect=mtu_update)})
BEARER = Inst('ghost:Bearer#c10')

SERVER_METHODS = {
    'get_attribute': Callback('get_attribute', effect=srv_get_attribute),
    'send_response': Callback('send_response', effect=rec_response),
}
model('bumble.gatt_server:Server#c10', fields=dict(attributes=ATTR_LIST, max_mtu=MTU), methods=SERVER_METHODS)
SERVER = Inst('bumble.gatt_server:Server#c10')

ERRCODE = IntRange(0, 0xFF)  # 0 = the access succeeds
GHOST = dict(nresp=Int, rbearer=Int, rop=Int, rerr_op=Int, rerr=Int, rlen=Int, mtu_updates=Int,
             nreads=Int, read_errs=ListOf(ERRCODE), read_vals=ListOf(Bytes), vmax=IntRange(0, 1 << 32), nwrites=Int, write_errs=ListOf(ERRCODE),
             ngets=Int, found=ListOf(Bool), get_attrs=ATTR_LIST, attr=ATTR)
MOD = ['ghost.nresp', 'ghost.rbearer', 'ghost.rop', 'ghost.rerr_op', 'ghost.rerr', 'ghost.rlen', 'ghost.mtu_updates', 'ghost.nreads', 'ghost.nwrites', 'ghost.ngets']


def env_ok(ghost):
    """the script counters start anywhere >= 0; Read Multiple Variable sends len(value) in 16 bits"""
    return [ghost.nreads >= 0, ghost.nwrites >= 0, ghost.ngets >= 0, ghost.vmax <= 0xFFFF]


# ---------------------------------------------------------------------------
# the statement, per handler
# ---------------------------------------------------------------------------
def one_reply(self, bearer, request, old, ghost):
    """exactly one PDU: the matching response, or an Error Response naming that request -- to the bearer that asked,
    within its ATT_MTU"""
    return [
        ghost.nresp == old.ghost.nresp + 1,
        answered(request.op_code, ghost.rop, ghost.rerr_op),
        ghost.rbearer == bearer.g_id,
        ghost.rlen <= bearer.att_mtu,
    ]


ONE_NAMES = ['exactly-one-reply', 'matching-response-or-error-naming-the-request', 'to-the-asking-bearer', 'within-att-mtu']


def no_reply(self, bearer, old, ghost):
    return [ghost.nresp == old.ghost.nresp]


# ---------------------------------------------------------------------------
# requests as the handlers see them (wire types: 16-bit handles / offsets / MTU, byte strings, handle lists)
# ---------------------------------------------------------------------------
REQUEST_FIELDS = {
    'ATT_Exchange_MTU_Request': dict(client_rx_mtu=U16),
    'ATT_Find_Information_Request': dict(starting_handle=HANDLE, ending_handle=HANDLE),
    'ATT_Find_By_Type_Value_Request': dict(starting_handle=HANDLE, ending_handle=HANDLE, attribute_type=UUID_T, attribute_value=Bytes),
    'ATT_Read_By_Type_Request': dict(starting_handle=HANDLE, ending_handle=HANDLE, attribute_type=UUID_T),
    'ATT_Read_Request': dict(attribute_handle=HANDLE),
    'ATT_Read_Blob_Request': dict(attribute_handle=HANDLE, value_offset=U16),
    'ATT_Read_Multiple_Request': dict(set_of_handles=ListOf(HANDLE)),
    'ATT_Read_By_Group_Type_Request': dict(starting_handle=HANDLE, ending_handle=HANDLE, attribute_group_type=UUID_T),
    'ATT_Read_Multiple_Variable_Request': dict(set_of_handles=ListOf(HANDLE)),
    'ATT_Write_Request': dict(attribute_handle=HANDLE, attribute_value=Bytes),
    'ATT_Write_Command': dict(attribute_handle=HANDLE, attribute_value=Bytes),
    'ATT_Handle_Value_Confirmation': dict(),
}
# the PDUs without a handler in the server (responses, server-originated PDUs, requests bumble does not implement):
# their fields only matter to the log lines of a native replay (str(pdu)); the dispatcher never reads them
U8 = IntRange(0, 0xFF)
OTHER_FIELDS = {
    'ATT_Error_Response': dict(request_opcode_in_error=U8, attribute_handle_in_error=HANDLE, error_code=U8),
    'ATT_Exchange_MTU_Response': dict(server_rx_mtu=U16),
    'ATT_Find_Information_Response': dict(format=U8, information_data=Bytes, information=ListOf(TupleOf(Int, Bytes))),
    'ATT_Find_By_Type_Value_Response': dict(handles_information_list=Bytes, handles_information=ListOf(TupleOf(Int, Int))),
    'ATT_Read_By_Type_Response': dict(length=U8, attribute_data_list=Bytes, attributes=ListOf(TupleOf(Int, Bytes))),
    'ATT_Read_Response': dict(attribute_value=Bytes),
    'ATT_Read_Blob_Response': dict(part_attribute_value=Bytes),
    'ATT_Read_Multiple_Response': dict(set_of_values=Bytes),
    'ATT_Read_By_Group_Type_Response': dict(length=U8, attribute_data_list=Bytes, attributes=ListOf(TupleOf(Int, Int, Bytes))),
    'ATT_Read_Multiple_Variable_Response': dict(length_value_tuple_list=ListOf(TupleOf(Int, Bytes))),
    'ATT_Write_Response': dict(),
    'ATT_Signed_Write_Command': dict(attribute_handle=HANDLE, attribute_value=Bytes),
    'ATT_Prepare_Write_Request': dict(attribute_handle=HANDLE, value_offset=U16, part_attribute_value=Bytes),
    'ATT_Prepare_Write_Response': dict(attribute_handle=HANDLE, value_offset=U16, part_attribute_value=Bytes),
    'ATT_Execute_Write_Request': dict(flags=U8),
    'ATT_Execute_Write_Response': dict(),
    'ATT_Handle_Value_Notification': dict(attribute_handle=HANDLE, attribute_value=Bytes),
    'ATT_Handle_Value_Indication': dict(attribute_handle=HANDLE, attribute_value=Bytes),
}
# every PDU class bumble registers gets a view
for _cls in att.ATT_PDU.pdu_classes.values():
    assert _cls.__name__ in REQUEST_FIELDS or _cls.__name__ in OTHER_FIELDS, _cls
    model(f'bumble.att:{_cls.__name__}#c10', fields=REQUEST_FIELDS.get(_cls.__name__) if _cls.__name__ in REQUEST_FIELDS else OTHER_FIELDS[_cls.__name__])


def request_of(handler_name):
    """on_att_read_request -> ATT_Read_Request (the naming rule Server.on_gatt_pdu dispatches by)"""
    return att.ATT_PDU.pdu_classes[att.Opcode[handler_name[3:].upper()]]


# ---------------------------------------------------------------------------
# the list-shaped responses parse their own payload back (for display) when they are constructed: total, given the
# entry length the server passes
# ---------------------------------------------------------------------------
def post_init_contract(cls_name, list_field, elem_t, requires, **fields):
    mname = f'bumble.att:{cls_name}#c10r'
    model(mname, fields=dict(fields, **{list_field: ListOf(elem_t)}))
    target = f'bumble.att:{cls_name}.__post_init__'
    contract(
        target,
        key=target + '@C10',
        prop='C10',
        params=dict(self=Inst(mname)),
        requires=requires,
        ensures=lambda self: [True],
        ensures_names=['returns'],
        raises={},  # no struct.error / IndexError: an exception here would escape the handler task unanswered
        modifies=[f'self.{list_field}'],
        invariants={0: lambda offset: [offset >= 0]},
    )
    return target + '@C10'


POST_INIT = {
    'ATT_Find_Information_Response': post_init_contract(
        'ATT_Find_Information_Response', 'information', TupleOf(Int, Bytes), None, format=Int, information_data=Bytes),
    'ATT_Find_By_Type_Value_Response': post_init_contract(
        'ATT_Find_By_Type_Value_Response', 'handles_information', TupleOf(Int, Int), None, handles_information_list=Bytes),
    # an entry is handle(2) + value: the declared entry length must cover the handle (0 = no entry at all)
    'ATT_Read_By_Type_Response': post_init_contract(
        'ATT_Read_By_Type_Response', 'attributes', TupleOf(Int, Bytes), lambda self: [self.length == 0 or self.length >= 2], length=Int, attribute_data_list=Bytes),
    'ATT_Read_By_Group_Type_Response': post_init_contract(
        'ATT_Read_By_Group_Type_Response', 'attributes', TupleOf(Int, Int, Bytes), lambda self: [self.length == 0 or self.length >= 4], length=Int, attribute_data_list=Bytes),
}


# ---------------------------------------------------------------------------
# loop invariants of the collecting loops
# ---------------------------------------------------------------------------
def quiet(old, ghost, _i):
    """inside the collecting loops nothing has been sent yet; the script counters stay counters"""
    return [_i >= 0, ghost.nresp == old.ghost.nresp, ghost.nreads >= 0, ghost.ngets >= 0]


def wire_info(attributes):
    """octets of the Information Data of a Find Information Response: handle(2) + UUID as sent (2 or 16) each"""
    return len(b''.join([struct.pack('<H', a.handle) + a.type.to_pdu_bytes() for a in attributes]))


def wire2(entries):
    """octets of a list of (handle, value) entries: 2 + len(value) each"""
    return len(b''.join([struct.pack('<H', h) + v for h, v in entries]))


def wire4(entries):
    """octets of a list of (handle, end group handle, value) entries: 4 + len(value) each"""
    return len(b''.join([struct.pack('<HH', h, e) + v for h, e, v in entries]))


def wire_lv(entries):
    """octets of a Length Value Tuple List: 2 + len(value) each (Vol 3 Part F 3.4.4.12)"""
    return len(b''.join([struct.pack('<H', n) + v for n, v in entries]))


def first_value_len(attributes):
    return len(attributes[0][2]) if len(attributes) > 0 else 0


def find_information_inv(bearer, attributes, pdu_space_available, old, ghost, _i):
    return quiet(old, ghost, _i) + [pdu_space_available >= 0, wire_info(attributes) == bearer.att_mtu - 2 - pdu_space_available]


def find_by_type_value_inv0(bearer, attributes, pdu_space_available, old, ghost, _i):
    return quiet(old, ghost, _i) + [pdu_space_available >= 0, 4 * len(attributes) == bearer.att_mtu - 2 - pdu_space_available]


def find_by_type_value_inv1(bearer, attributes, handles_information_list, pdu_space_available, old, ghost, _i):
    return quiet(old, ghost, _i) + [
        _i <= len(attributes),
        pdu_space_available >= 0,
        4 * len(attributes) == bearer.att_mtu - 2 - pdu_space_available,
        len(b''.join(handles_information_list)) == 4 * _i,
    ]


def read_by_type_inv(bearer, attributes, entry_size, pdu_space_available, old, ghost, _i):
    return quiet(old, ghost, _i) + [
        pdu_space_available >= 0,
        # struct.pack('<H', handle) in the final comprehension: the handles collected are attribute handles
        forall(0, len(attributes), lambda j: 0 <= attributes[j][0] and attributes[j][0] <= 0xFFFF),
        wire2(attributes) == bearer.att_mtu - 2 - pdu_space_available,
        # entry_size is first assigned in the body and read after the loop when something was collected: it is the
        # (common) entry length and fits the one-octet Length field
        implies(len(attributes) > 0, bound(entry_size) and entry_size == 2 + len(attributes[0][1]) and entry_size <= 255),
    ]


def read_by_group_type_inv(bearer, attributes, pdu_space_available, old, ghost, _i):
    return quiet(old, ghost, _i) + [
        pdu_space_available >= 0,
        forall(0, len(attributes), lambda j: 0 <= attributes[j][0] and attributes[j][0] <= 0xFFFF and 0 <= attributes[j][1] and attributes[j][1] <= 0xFFFF),
        wire4(attributes) == bearer.att_mtu - 2 - pdu_space_available,
        first_value_len(attributes) <= 251,  # Length = 4 + len(first value) fits one octet
    ]


def read_multiple_inv(bearer, values, pdu_space_available, old, ghost, _i):
    return quiet(old, ghost, _i) + [pdu_space_available >= 0, len(b''.join(values)) == bearer.att_mtu - 1 - pdu_space_available]


def read_multiple_variable_inv(bearer, length_value_tuple_list, pdu_space_available, old, ghost, _i):
    return quiet(old, ghost, _i) + [
        pdu_space_available >= 0,
        forall(0, len(length_value_tuple_list), lambda j: 0 <= length_value_tuple_list[j][0] and length_value_tuple_list[j][0] <= 0xFFFF),
        wire_lv(length_value_tuple_list) == bearer.att_mtu - 1 - pdu_space_available,
    ]


LOOPS = {
    'on_att_find_information_request': dict(
        invariants={0: find_information_inv}, loop_locals={0: dict(attributes=ATTR_LIST)}, uses=[POST_INIT['ATT_Find_Information_Response']]),
    'on_att_find_by_type_value_request': dict(
        invariants={0: find_by_type_value_inv0, 1: find_by_type_value_inv1},
        loop_locals={0: dict(attributes=ATTR_LIST), 1: dict(handles_information_list=ListOf(Bytes))},
        uses=[POST_INIT['ATT_Find_By_Type_Value_Response']],
    ),
    'on_att_read_by_type_request': dict(
        invariants={0: read_by_type_inv},
        loop_locals={0: dict(attributes=ListOf(TupleOf(Int, Bytes)), entry_size=OrUnbound(Int))},
        uses=[POST_INIT['ATT_Read_By_Type_Response']],
    ),
    'on_att_read_by_group_type_request': dict(
        invariants={0: read_by_group_type_inv}, loop_locals={0: dict(attributes=ListOf(TupleOf(Int, Int, Bytes)))}, uses=[POST_INIT['ATT_Read_By_Group_Type_Response']]),
    'on_att_read_multiple_request': dict(invariants={0: read_multiple_inv}, loop_locals={0: dict(values=ListOf(Bytes))}),
    'on_att_read_multiple_variable_request': dict(invariants={0: read_multiple_variable_inv}, loop_locals={0: dict(length_value_tuple_list=ListOf(TupleOf(Int, Bytes)))}),
}


# ---------------------------------------------------------------------------
# one contract per reflected handler
# ---------------------------------------------------------------------------
def reflected_handlers():
    """(name, function AST is decorated with run_in_task, request class) for every on_att_* method of the real Server"""
    from pyvc import source

    out = []
    for name in sorted(vars(gatt_server.Server)):
        if not name.startswith('on_att_') or name == 'on_att_request':
            continue
        node = source.find_def(gatt_server, f'Server.{name}')
        decs = source.decorator_names(node)
        assert all(d in RUN_IN_TASK for d in decs), (name, decs)
        out.append((name, bool(decs), request_of(name)))
    return out


HANDLERS = reflected_handlers()
HANDLER_KEYS = {_name: f'bumble.gatt_server:Server.{_name}@C10' for _name, _in_task, _req in HANDLERS}
for _name, _in_task, _req in HANDLERS:
    if _name == 'on_att_handle_value_confirmation':
        continue  # c10_dispatch.py: needs the table of pending confirmations
    _is_request = _req.op_code in att.ATT_REQUESTS
    contract(
        f'bumble.gatt_server:Server.{_name}',
        key=HANDLER_KEYS[_name],
        prop='C10',
        params=dict(self=SERVER, bearer=BEARER, request=Inst(f'bumble.att:{_req.__name__}#c10')),
        ghost=GHOST,
        requires=env_ok,
        ensures=one_reply if _is_request else no_reply,
        ensures_names=ONE_NAMES if _is_request else ['no-reply'],
        raises={},
        modifies=MOD,
        inline=PDU_INLINE,
        decorators_ok=RUN_IN_TASK,
        note=('@run_in_task: the coroutine body is verified; every exit must have replied' if _in_task else 'plain handler'),
        **LOOPS.get(_name, {}),
    )


# ---------------------------------------------------------------------------
# bounded witness (NOT part of the proof): Read Multiple Variable on a request naming exactly two handles, both found
# and readable, with values of 10 and 20 octets and any ATT_MTU -- the loop is unrolled, nothing is abstracted, so a
# violation of the size bound comes with an exact, replayable counter-model
# ---------------------------------------------------------------------------
def two_read(ghost, bearer):
    ghost.nreads = ghost.nreads + 1
    if ghost.nreads == 1:
        return ghost.v0
    return ghost.v1


model('bumble.att:Attribute#c10two', fields={}, methods={'read_value': Callback('read_value', effect=two_read, is_async=True)})
model(
    'bumble.gatt_server:Server#c10two',
    fields={},
    methods={'get_attribute': Callback('get_attribute', effect=lambda ghost, handle: ghost.attr), 'send_response': Callback('send_response', effect=rec_response)},
)
model('bumble.att:ATT_Read_Multiple_Variable_Request#c10two', fields=dict(set_of_handles=ConcList(HANDLE, 2)))
T_RMV = 'bumble.gatt_server:Server.on_att_read_multiple_variable_request'
contract(
    T_RMV,
    key=T_RMV + '@C10/two-handles',
    prop='C10',
    params=dict(self=Inst('bumble.gatt_server:Server#c10two'), bearer=BEARER, request=Inst('bumble.att:ATT_Read_Multiple_Variable_Request#c10two')),
    ghost=dict(nresp=Int, rbearer=Int, rop=Int, rerr_op=Int, rerr=Int, rlen=Int, nreads=Int, v0=BytesN(10), v1=BytesN(20), attr=Inst('bumble.att:Attribute#c10two')),
    requires=lambda ghost: [ghost.nreads == 0],
    ensures=one_reply,
    ensures_names=ONE_NAMES,
    raises={},
    modifies=['ghost.nresp', 'ghost.rbearer', 'ghost.rop', 'ghost.rerr_op', 'ghost.rerr', 'ghost.rlen', 'ghost.nreads'],
    inline=PDU_INLINE,
    decorators_ok=RUN_IN_TASK,
    bounded='2 handles, both readable, values of 10 and 20 octets, any ATT_MTU',
    note='bounded stand-in: detection and replay only',
)
