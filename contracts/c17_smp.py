"""C17 part 4 -- SMP on arbitrary bytes, and the HCI packet boundary of the host.

  SMP_Command.from_bytes         any byte string: terminates, raises only InvalidPacketError(empty) / struct.error / IndexError
  Manager.on_smp_pdu             a PDU that does not parse raises before any session is looked up or created; one that parses
                                 goes to exactly one consumer (security-request handler or the connection's session)
  Session.on_smp_command         no exception of a handler escapes: it is answered with one Pairing Failed (unspecified reason);
                                 a command without handler (unknown code, security request, keypress) is ignored
  Host.on_packet                 bytes that do not parse as an HCI packet are dropped without an exception; a parsed packet is
                                 dispatched iff the host is ready (or it is the Command Complete of HCI_Reset)
"""
import struct

import pyvc.ext_c01  # noqa: F401
import pyvc.ext_c17  # noqa: F401
import pyvc.ext_c20  # noqa: F401
from bumble import core, hci, smp
from pyvc.contracts import (Any, Bool, ByteArray, Bytes, Callback, ConcList, Const, Inst, Int, IntRange, ListOf, OneOf, Opt, Str,
                            TupleOf, at, contract, forall, fresh_int, iff, implies, lemma, model)
from pyvc.ext_c20 import ConcDict

PROP = 'C17'
ENVIRONMENT = [
    'SMP: the pairing handlers of Session are recording stubs that may raise (the pairing state machine itself: C13); Session.send_command is a recording stub; Manager.on_smp_pdu is checked for one connection (handle 1) with or without a session',
    'Host.on_packet: HCI_Packet.from_bytes is a stub that returns a packet or raises one of six representative subclasses of Exception (the real parser: C01); the handlers behind on_hci_packet are a recording stub: an exception they raise leaves on_packet and is caught by PacketParser.feed_data (try/except Exception, then parser reset; C02)',
    'PacketPump.run (transport/common.py) is used by no transport in this tree; it also catches Exception around on_packet, but at end of stream it spins on IncompleteReadError without yielding (not in the kernel)',
]
CODEC_INLINE = ['bumble.hci:*', 'bumble.smp:SMP_*', 'bumble.core:*', 'bumble.utils:*']

SMP_PARSE_ERRORS = {core.InvalidPacketError: lambda pdu: [len(pdu) == 0], struct.error: None, IndexError: None, core.InvalidArgumentError: None}

model('bumble.smp:SMP_Command#17', fields=dict(code=IntRange(0, 255), name=Str))
contract(
    'bumble.smp:SMP_Command.from_bytes',
    key='bumble.smp:SMP_Command.from_bytes@any',
    prop=PROP,
    params=dict(cls=Const(smp.SMP_Command), pdu=Bytes),
    returns=Inst('bumble.smp:SMP_Command#17'),
    ensures=lambda pdu, res: [len(pdu) >= 1, res.code == pdu[0]],
    ensures_names=['non-empty', 'code'],
    raises=SMP_PARSE_ERRORS,
    modifies=[],
    inline=CODEC_INLINE,
    note='T+E for every byte string (InvalidArgumentError: an Identity Address Information PDU whose address is cut short)',
)


# ---------------------------------------------------------------------------
# Session.on_smp_command: containment.  Every handler is a recording stub that may raise (HandlerFailure stands for
# whatever it raises on hostile field values: short keys, crypto errors, assertion errors ...).
# ---------------------------------------------------------------------------
class HandlerFailure(Exception):
    pass


def smp_handler(ghost, command):
    ghost.handled = ghost.handled + 1
    if fresh_int() == 1:
        raise HandlerFailure()


def session_send(ghost, command):
    # what is sent from on_smp_command itself is a Pairing Failed with reason "unspecified" (Vol 3 Part H 3.5.5: 0x08)
    assert type(command) is smp.SMP_Pairing_Failed_Command and command.reason == 0x08
    ghost.failed_sent = ghost.failed_sent + 1


HANDLED = ['SMP_Pairing_Request_Command', 'SMP_Pairing_Response_Command', 'SMP_Pairing_Confirm_Command', 'SMP_Pairing_Random_Command',
           'SMP_Pairing_Failed_Command', 'SMP_Encryption_Information_Command', 'SMP_Master_Identification_Command',
           'SMP_Identity_Information_Command', 'SMP_Identity_Address_Information_Command', 'SMP_Signing_Information_Command',
           'SMP_Pairing_Public_Key_Command', 'SMP_Pairing_DHKey_Check_Command']
IGNORED = ['SMP_Security_Request_Command', 'SMP_Pairing_Keypress_Notification_Command', 'SMP_Command']
for _n in HANDLED + IGNORED:
    model(f'bumble.smp:{_n}#h', fields=dict(has_handler=Const(_n in HANDLED)))
model(
    'bumble.smp:Session#17',
    fields={},
    methods={**{'on_' + n.lower(): Callback('on_' + n.lower(), effect=smp_handler, raises=(HandlerFailure,)) for n in HANDLED},
             'send_command': Callback('send_command', effect=session_send)},
)
contract(
    'bumble.smp:Session.on_smp_command',
    prop=PROP,
    params=dict(self=Inst('bumble.smp:Session#17'), command=OneOf(*[Inst(f'bumble.smp:{n}#h') for n in HANDLED + IGNORED])),
    ghost=dict(handled=Int, failed_sent=Int),
    ensures=lambda command, old, ghost: [
        ghost.handled == old.ghost.handled + (1 if command.has_handler else 0),
        ghost.failed_sent == old.ghost.failed_sent or ghost.failed_sent == old.ghost.failed_sent + 1,
        implies(not command.has_handler, ghost.failed_sent == old.ghost.failed_sent),
    ],
    ensures_names=['its-handler-runs-once', 'at-most-one-pairing-failed', 'no-handler:ignored'],
    raises={},
    modifies=['ghost.handled', 'ghost.failed_sent'],
    inline=['bumble.smp:SMP_*', 'bumble.hci:*'],
    note='E: nothing escapes (a handler failure is turned into one Pairing Failed, unspecified reason); the generic SMP_Command is what '
         'from_bytes yields for a code without a class',
)


# ---------------------------------------------------------------------------
# Manager.on_smp_pdu
# ---------------------------------------------------------------------------
def sec_req(ghost, connection, command):
    ghost.to_security_request = ghost.to_security_request + 1


def session_on_command(ghost, command):
    ghost.to_session = ghost.to_session + 1


def new_session(ghost, manager, connection, config, is_initiator):
    assert not is_initiator
    ghost.created = ghost.created + 1
    return ghost.fresh_session


model('ghost:Session17', fields={}, methods={'on_smp_command': Callback('on_smp_command', effect=session_on_command)})
model('ghost:SmpConnection17', fields=dict(handle=Const(1), role=OneOf(0, 1), peer_address=Any))
model(
    'bumble.smp:Manager#17',
    fields=dict(sessions=ConcDict([1], Opt(Inst('ghost:Session17'))), pairing_config_factory=Callback('pairing_config_factory', returns=Any),
                session_proxy=Callback('session_proxy', effect=new_session)),
    methods={'on_smp_security_request_command': Callback('on_smp_security_request_command', effect=sec_req)},
)


def smp_nothing(self, old, ghost):
    return [ghost.to_security_request == old.ghost.to_security_request, ghost.to_session == old.ghost.to_session, ghost.created == old.ghost.created]


contract(
    'bumble.smp:Manager.on_smp_pdu',
    prop=PROP,
    params=dict(self=Inst('bumble.smp:Manager#17'), connection=Inst('ghost:SmpConnection17'), pdu=Bytes),
    ghost=dict(to_security_request=Int, to_session=Int, created=Int, fresh_session=Inst('ghost:Session17')),
    ensures=lambda self, pdu, old, ghost: [
        len(pdu) >= 1,
        ghost.to_security_request == old.ghost.to_security_request + (1 if pdu[0] == 0x0B else 0),
        ghost.to_session == old.ghost.to_session + (0 if pdu[0] == 0x0B else 1),
        ghost.created == old.ghost.created + (1 if pdu[0] != 0x0B and old.self.sessions[1] is None else 0),
        self.sessions[1] is not None or pdu[0] == 0x0B,
    ],
    ensures_names=['non-empty', 'security-request-to-the-application', 'anything-else-to-the-session-once', 'responder-session-created-iff-none', 'session-registered'],
    raises={
        core.InvalidPacketError: lambda self, pdu, old, ghost: smp_nothing(self, old, ghost) + [len(pdu) == 0],
        struct.error: lambda self, old, ghost: smp_nothing(self, old, ghost),
        IndexError: lambda self, old, ghost: smp_nothing(self, old, ghost),
        core.InvalidArgumentError: lambda self, old, ghost: smp_nothing(self, old, ghost),
    },
    modifies=['self.sessions', 'ghost.to_security_request', 'ghost.to_session', 'ghost.created'],
    uses=['bumble.smp:SMP_Command.from_bytes@any'],
    note='one connection (handle 1) with or without a session; Session.on_smp_command is the contract above (no exception escapes it)',
)


# ---------------------------------------------------------------------------
# Host.on_packet: the HCI packet sink of the host.  Parsing (HCI_Packet.from_bytes and the packet classes: C01) is a stub
# that returns some packet or raises -- struct.error, IndexError, ValueError, InvalidPacketError, KeyError, AssertionError stand
# for every subclass of Exception.  E: none of them escapes.  S: nothing is dispatched for bytes that do not parse.
# What the event/ACL handlers behind on_hci_packet raise does escape on_packet; the transport's PacketParser.feed_data calls
# on_packet inside try/except Exception and resets itself afterwards (C02 kernel; the `except` is at bumble/transport/common.py
# feed_data), so the HCI byte stream stays framed and the next packet is delivered.
# ---------------------------------------------------------------------------
def hci_parse(ghost, cls, packet):
    k = fresh_int()
    if k == 1:
        raise struct.error('short')
    if k == 2:
        raise IndexError('short')
    if k == 3:
        raise ValueError('bad value')
    if k == 4:
        raise core.InvalidPacketError('bad packet')
    if k == 5:
        raise KeyError('unknown')
    if k == 6:
        raise AssertionError()
    ghost.parsed_ok = True
    return ghost.packet


def host_dispatch(ghost, packet):
    assert packet is ghost.packet and ghost.parsed_ok
    ghost.dispatched = ghost.dispatched + 1


model('bumble.hci:HCI_Command_Complete_Event#17', fields=dict(command_opcode=IntRange(0, 0xFFFF)))
model('bumble.hci:HCI_Event#17', fields={})
model('bumble.hci:HCI_AclDataPacket#17', fields={})
model('bumble.host:Host#17', fields=dict(ready=Bool), methods={'on_hci_packet': Callback('on_hci_packet', effect=host_dispatch)})
PARSE_ERRORS = (struct.error, IndexError, ValueError, core.InvalidPacketError, KeyError, AssertionError)


def is_reset_complete(p):
    return isinstance(p, hci.HCI_Command_Complete_Event) and p.command_opcode == hci.HCI_RESET_COMMAND


contract(
    'bumble.host:Host.on_packet',
    prop=PROP,
    params=dict(self=Inst('bumble.host:Host#17'), packet=Bytes),
    ghost=dict(parsed_ok=Const(False), dispatched=Int,
               packet=OneOf(Inst('bumble.hci:HCI_Command_Complete_Event#17'), Inst('bumble.hci:HCI_Event#17'), Inst('bumble.hci:HCI_AclDataPacket#17'))),
    ensures=lambda self, old, ghost: [
        ghost.dispatched == old.ghost.dispatched + (1 if ghost.parsed_ok and (self.ready or is_reset_complete(ghost.packet)) else 0),
    ],
    ensures_names=['dispatched-iff-parsed-and-ready'],
    raises={},
    modifies=['ghost.parsed_ok', 'ghost.dispatched'],
    stubs={hci.HCI_Packet.from_bytes.__func__: Callback('from_bytes', effect=hci_parse, raises=PARSE_ERRORS)},
    note='E: no parsing exception escapes (except Exception); packets are ignored until the controller reset completed',
)


def ev_handler(ghost, event):
    ghost.named = ghost.named + 1
    if fresh_int() == 1:
        raise HandlerFailure()


def ev_default(ghost, event):
    ghost.default = ghost.default + 1


def event_of(name):
    i = Inst('bumble.hci:HCI_Event#n')
    i.overrides['name'] = Const(name)
    return i


model('bumble.hci:HCI_Event#n', fields=dict(name=Str))
model('bumble.host:Host#ev', fields={}, methods={'on_hci_disconnection_complete_event': Callback('handler', effect=ev_handler, raises=(HandlerFailure,)),
                                                 'on_hci_event': Callback('on_hci_event', effect=ev_default)})
contract(
    'bumble.host:Host.on_hci_event_packet',
    prop=PROP,
    params=dict(self=Inst('bumble.host:Host#ev'), event=OneOf(event_of('HCI_DISCONNECTION_COMPLETE_EVENT'), event_of('HCI_EVENT[0x77]'))),
    ghost=dict(named=Int, default=Int),
    ensures=lambda event, old, ghost: [
        ghost.named + ghost.default == old.ghost.named + old.ghost.default + 1,
        implies(event.name == 'HCI_EVENT[0x77]', ghost.default == old.ghost.default + 1),
    ],
    ensures_names=['exactly-one-handler', 'event-without-handler-goes-to-the-default-handler'],
    raises={HandlerFailure: lambda event, old, ghost: [event.name == 'HCI_DISCONNECTION_COMPLETE_EVENT', ghost.named == old.ghost.named + 1]},
    modifies=['ghost.named', 'ghost.default'],
    fstrings='eval',
    note='an event without a handler method (unknown event code included) never raises; an exception of a handler escapes to '
         'Host.on_packet and from there to the transport (feed_data: try/except Exception, parser reset)',
)
