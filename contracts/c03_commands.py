"""C03 -- one HCI command outstanding; every command is answered exactly once.

Controller side (bumble/controller.py), profile 'skeleton': for this property only *how many* Command Complete /
Command Status events leave through `Controller.send_hci_packet`, and for which opcode, matters, on every path of
every handler.  `send_hci_packet` is a recorded callback whose ghost effect maintains

    ghost.replies    -- number of Command Complete / Command Status events sent so far
    ghost.last_op    -- command_opcode of the last one;   ghost.last_kind -- Complete or Status

("exactly one reply, for this opcode" == replies grew by one and last_op is the command's op-code).
Everything is enumerated by reflection at import time, so a new command class or handler is picked up automatically:

* one contract per `Controller.on_hci_*_command` handler (91 today + the default `on_hci_command`, which is verified
  inlined into the dispatch): a handler of an `HCI_SyncCommand` class returns return-parameters and sends nothing
  itself, a handler of an `HCI_AsyncCommand` class returns None and sends exactly one Command Status with the
  command's opcode; no exception escapes.  Which kind a class is, is read from the real class hierarchy.
* `Controller.on_hci_command_packet` for every registered command class (204 today incl. vendor classes; a class with
  a handler uses the handler's contract, the others run the real default handler) and for a generic `HCI_Command`
  with any other op-code (143 of them have a name): exactly one reply, carrying the command's opcode, of the kind the
  host expects for the class.
* `Controller._send_hci_command_status`, `Controller.send_hci_packet`, `Controller.__init__` (link attached).
* the safety shadow of "every procedure accepted as pending is concluded" for the handlers of the named procedures.

Host side (bumble/host.py), profile 'value': see the second half of this file.
"""
import ast
import asyncio
import inspect
import textwrap

from bumble import controller as _controller
from bumble import hci
from bumble import host as _host
from bumble import lmp
from pyvc import ext_c03  # noqa: F401  (skeleton-profile extensions, see the module docstring)
from pyvc.ext_c03 import call_code
from pyvc.contracts import (Any, Bool, Callback, ConcList, Const, Inst, Int, IntRange, OneOf, Opaque, Opt, Str, contract, iff,
                            implies, lemma, model)

ENVIRONMENT = [
    'C03 controller side is proved in the skeleton profile: the reply count is exact on every path through the '
    'handlers, but an exception raised inside an unmodelled callee (link, LMP/LL sends, connection tables, '
    'AdvertisingSet.start/stop, on_classic_*/on_le_* completion helpers) is not a path of the proof',
    'C03 side condition checked mechanically at import (syntactic call-graph pass over bumble/controller.py): '
    'Command Complete / Command Status events are constructed only in Controller.on_hci_command_packet and '
    'Controller._send_hci_command_status, and _send_hci_command_status is called only from on_hci_*_command handlers, '
    'all of which are under contract; hence no unmodelled callee can emit a reply',
    'C03 representation invariants used as preconditions, with their syntactic justification checked at import over the '
    'whole bumble package: Controller.link is assigned only in Controller.__init__ (proved: never None afterwards); '
    'Host.pending_command / pending_response are assigned only in Host.__init__/_send_command and the command '
    'semaphore is used only by the functions under contract; ASSUMED, not proved: every entry of '
    'Controller.peripheral_cis_links carries its ACL connection (only on_le_cis_request inserts, with '
    'acl_connection=connection; acl_connection is reset to None only for central CIS links) -- this discharges the '
    '`assert pending_cis_link.acl_connection` in on_hci_le_accept_cis_request_command',
    'C03: a command handler is found by getattr on the class; instance attributes named on_hci_*_command added at run '
    'time are not considered',
    'C03: for an op-code without registered class the packet is a generic HCI_Command whose name is '
    'HCI_Command.command_name(op) (a name from command_names, else "[OGF=0x.., OCF=0x....]"); that no such string '
    '(lower-cased, prefixed with on_) is an attribute of Controller is checked by exhaustive native evaluation over all '
    '65536 op-codes at import (a violated check is a checker error), not by the prover; the contract then uses a '
    'representative name string',
    'C03: delivery between controller and host (asyncio call_soon FIFO order, transports) and the re-entrancy of '
    'host.on_packet are environment; Controller.send_hci_packet with no host attached drops the packet (nobody waits)',
    'C03 not reachable by contracts: FIFO fairness of asyncio.Semaphore among concurrent callers of Host._send_command '
    '(that the waiter woken by release() is the oldest one) and liveness of procedures the controller accepted as '
    'pending (completion events come from the link / peer / timers); only per-call safety is proved',
]

Controller = _controller.Controller
REPLY_CLASSES = (hci.HCI_Command_Complete_Event, hci.HCI_Command_Status_Event)


# ---------------------------------------------------------------------------
# reflection: handlers, command classes, side conditions
# ---------------------------------------------------------------------------
def is_handler_name(n):
    return n.startswith('on_hci_') and n.endswith('_command')


HANDLERS = sorted(n for n in dir(Controller) if is_handler_name(n) and inspect.isfunction(getattr(Controller, n)))
COMMAND_CLASSES = dict(sorted(hci.HCI_Command.command_classes.items()))
COMMAND_NAMES = dict(sorted(hci.HCI_Command.command_names.items()))
HANDLER_CLASS = {}  # handler name -> command class it serves
for _op, _cls in COMMAND_CLASSES.items():
    HANDLER_CLASS['on_' + _cls.name.lower()] = _cls
NAMED_WITHOUT_CLASS = {op: n for op, n in COMMAND_NAMES.items() if op not in COMMAND_CLASSES}
CLASS_OPCODES = tuple(sorted(COMMAND_CLASSES))


def kind_of_class(cls):
    """'sync' / 'async' from the real class hierarchy; a plain HCI_Command (unknown op-code) has no declared kind"""
    if issubclass(cls, hci.HCI_SyncCommand):
        return 'sync'
    if issubclass(cls, hci.HCI_AsyncCommand):
        return 'async'
    return 'generic'


def _side_conditions():
    """the soundness side condition of the skeleton profile (DESIGN 1.8c) for the effect 'a reply is emitted'"""
    src = inspect.getsource(_controller)
    tree = ast.parse(src)
    allowed_ctor = {'Controller.on_hci_command_packet', 'Controller._send_hci_command_status'}
    problems = []

    def visit(node, qual):
        for child in ast.iter_child_nodes(node):
            q = qual
            if isinstance(child, (ast.FunctionDef, ast.AsyncFunctionDef, ast.ClassDef)):
                q = (qual + '.' if qual else '') + child.name
            if isinstance(child, ast.Call):
                f = child.func
                name = f.attr if isinstance(f, ast.Attribute) else getattr(f, 'id', None)
                top2 = '.'.join(qual.split('.')[:2])
                if name in ('HCI_Command_Complete_Event', 'HCI_Command_Status_Event') and top2 not in allowed_ctor:
                    problems.append(f'{qual}: constructs {name}')
                if name == '_send_hci_command_status':
                    parts = qual.split('.')
                    if not (len(parts) >= 2 and parts[0] == 'Controller' and is_handler_name(parts[1])):
                        problems.append(f'{qual}: calls _send_hci_command_status outside a command handler')
                if name is not None and is_handler_name(name) and qual.split('.')[:2] != ['Controller', 'on_hci_command_packet']:
                    problems.append(f'{qual}: calls the handler {name} directly')
            # references that could alias the reply primitives
            if isinstance(child, ast.Attribute) and child.attr == '_send_hci_command_status' and not isinstance(getattr(child, 'ctx', None), ast.Load):
                problems.append(f'{qual}: rebinds _send_hci_command_status')
            visit(child, q)

    visit(tree, '')
    # every handler is a plain method of Controller defined in controller.py (so it is one of the contracts below)
    for h in HANDLERS:
        owner = next(k for k in Controller.__mro__ if h in k.__dict__)
        if owner is not Controller:
            problems.append(f'handler {h} is inherited from {owner.__name__}')
    # op-codes without registered class (a generic HCI_Command is built for them): the handler name computed from
    # HCI_Command.command_name(op) -- a name from command_names or '[OGF=0x.., OCF=0x....]' -- is never an attribute
    # of Controller, so dispatch takes the getattr default
    for op in range(0x10000):
        if op in COMMAND_CLASSES:
            continue
        if hasattr(Controller, 'on_' + hci.HCI_Command.command_name(op).lower()):
            problems.append(f'op-code {op:#06x} without class resolves to the Controller attribute on_{hci.HCI_Command.command_name(op).lower()}')
    problems.extend(_state_writers())
    if problems:
        raise AssertionError('C03 side conditions violated:\n  ' + '\n  '.join(problems))


def _walk_with_qualname(tree):
    """(node, qualified name of the enclosing def/class) for every node of a module"""

    def visit(node, qual):
        for child in ast.iter_child_nodes(node):
            q = qual
            if isinstance(child, (ast.FunctionDef, ast.AsyncFunctionDef, ast.ClassDef)):
                q = (qual + '.' if qual else '') + child.name
            yield child, qual
            yield from visit(child, q)

    yield from visit(tree, '')


def _state_writers():
    """who writes the state the representation invariants talk about (syntactic, whole bumble package)"""
    import glob
    import os

    problems = []
    root = os.path.dirname(_controller.__file__)
    host_writers = {'Host.__init__', 'Host._send_command'}
    sem_users = {'Host.__init__', 'Host._send_command', 'Host.flush', 'Host.on_command_processed', 'Host.on_hci_command_complete_event'}
    for fn in sorted(glob.glob(os.path.join(root, '**', '*.py'), recursive=True)):
        rel = os.path.relpath(fn, root)
        tree = ast.parse(open(fn).read())
        for node, qual in _walk_with_qualname(tree):
            if not isinstance(node, ast.Attribute):
                continue
            store = isinstance(node.ctx, (ast.Store, ast.Del))
            cls = qual.split('.')[0] if qual else ''
            on_self = isinstance(node.value, ast.Name) and node.value.id == 'self'
            # Controller.link: assigned in Controller.__init__ only (so `link is not None` is an invariant)
            if node.attr == 'link' and store:
                if (rel, qual) == ('controller.py', 'Controller.__init__'):
                    continue
                if not (on_self and cls != 'Controller'):
                    problems.append(f'{rel}:{node.lineno} {qual}: assigns .link of an object that may be a Controller')
            # CisLink.acl_connection: reset only for central CIS links, set when a request is accepted/created
            if node.attr == 'acl_connection' and store and (rel, qual) not in (('controller.py', 'Controller.on_le_cis_disconnected'), ('controller.py', 'Controller.on_hci_le_create_cis_command')):
                problems.append(f'{rel}:{node.lineno} {qual}: assigns .acl_connection')
            if node.attr == 'peripheral_cis_links' and rel != 'controller.py':
                problems.append(f'{rel}:{node.lineno} {qual}: touches peripheral_cis_links')
            # Host command state
            if rel == 'host.py' and cls == 'Host' and node.attr in ('pending_command', 'pending_response') and store and '.'.join(qual.split('.')[:2]) not in host_writers:
                problems.append(f'{rel}:{node.lineno} {qual}: assigns Host.{node.attr}')
            if node.attr == 'command_semaphore':
                if rel != 'host.py' or '.'.join(qual.split('.')[:2]) not in sem_users:
                    problems.append(f'{rel}:{node.lineno} {qual}: uses the host command semaphore')
                elif store and qual != 'Host.__init__':
                    problems.append(f'{rel}:{node.lineno} {qual}: re-assigns the host command semaphore')
    # the only insertion into peripheral_cis_links stores a CisLink built with its ACL connection
    ctree = ast.parse(inspect.getsource(_controller))
    for node, qual in _walk_with_qualname(ctree):
        if isinstance(node, ast.Subscript) and isinstance(node.ctx, ast.Store) and isinstance(node.value, ast.Attribute) and node.value.attr == 'peripheral_cis_links':
            if qual != 'Controller.on_le_cis_request':
                problems.append(f'controller.py:{node.lineno} {qual}: inserts into peripheral_cis_links')
        if isinstance(node, ast.Call) and getattr(node.func, 'id', None) == 'CisLink' and qual == 'Controller.on_le_cis_request':
            if not any(kw.arg == 'acl_connection' and not (isinstance(kw.value, ast.Constant) and kw.value.value is None) for kw in node.keywords):
                problems.append(f'controller.py:{node.lineno} on_le_cis_request builds a CisLink without acl_connection')
    return problems


_side_conditions()


# ---------------------------------------------------------------------------
# models
# ---------------------------------------------------------------------------
def is_reply(packet):
    return isinstance(packet, REPLY_CLASSES)


def ctl_send(ghost, packet):
    """ghost effect of Controller.send_hci_packet: count the Command Complete / Command Status events that leave the
    controller and remember the opcode the last one answers"""
    r = is_reply(packet)
    ghost.replies = ghost.replies + (1 if r else 0)
    ghost.last_op = packet.command_opcode if r else ghost.last_op
    ghost.last_kind = (KIND_COMPLETE if isinstance(packet, hci.HCI_Command_Complete_Event) else KIND_STATUS) if r else ghost.last_kind


KIND_COMPLETE, KIND_STATUS = 1, 2
CTL_GHOST = dict(replies=Int, last_op=Int, last_kind=Int)
CTL_MOD = ['ghost.replies', 'ghost.last_op', 'ghost.last_kind']


def class_data_attributes(cls):
    """names of class-level data attributes (defaults such as `pending_le_connection = None`): an instance attribute
    of the same name shadows them at run time, so in the pre-state they are arbitrary, not the class default"""
    out = []
    for k in cls.__mro__:
        if k is object:
            continue
        for n, v in k.__dict__.items():
            if n.startswith('__') or callable(v) or isinstance(v, (property, classmethod, staticmethod)) or hasattr(v, '__get__'):
                continue
            out.append(n)
    return sorted(set(out))


# every CIS link the controller created for an incoming request carries its ACL connection (see ENVIRONMENT)
model('bumble.controller:CisLink#peripheral', fields=dict(acl_connection=Inst('ghost:AclConnection'), cig_id=Any, cis_id=Any, handle=Any))
model('ghost:AclConnection', fields={}, methods={'send_ll_control_pdu': Callback('send_ll_control_pdu')})
model('ghost:PeripheralCisTable', fields={}, methods={'get': Callback('get', returns=Opt(Inst('bumble.controller:CisLink#peripheral')))})

CTRL_FIELDS = {n: Any for n in class_data_attributes(Controller)}
CTRL_FIELDS['link'] = Opt(Opaque('link'))
CTRL_FIELDS['peripheral_cis_links'] = Inst('ghost:PeripheralCisTable')
model(
    'bumble.controller:Controller',
    fields=CTRL_FIELDS,
    methods={'send_hci_packet': Callback('send_hci_packet', effect=ctl_send)},
)
CTRL = Inst('bumble.controller:Controller')


def int_range(size):
    if size in (1, 2, 3, 4):
        return IntRange(0, (1 << (8 * size)) - 1)
    if size in (-1, -2):
        return IntRange(-(1 << (-8 * size - 1)), (1 << (-8 * size - 1)) - 1)
    return None


def field_type(spec):
    """pre-state type of a command field from its HCI field spec (HCI_Object.parse_field): 1/2/3/4 are unsigned
    little-endian integers, -1/-2 signed; everything else (byte arrays, addresses, lists, enum-parsed values) is
    uninterpreted"""
    if isinstance(spec, dict) and 'size' in spec:
        spec = spec['size']
    if isinstance(spec, int) and not isinstance(spec, bool):
        return int_range(spec) or Any
    return Any


def command_model(cls):
    name = f'{cls.__module__}:{cls.__qualname__}#c03'  # vendor commands of bumble.drivers.* register themselves too
    fields = {}
    for f in cls.fields:
        if isinstance(f, tuple) and len(f) == 2 and isinstance(f[0], str):
            fields[f[0]] = field_type(f[1])
        elif isinstance(f, list):
            for sub in f:
                fields[sub[0]] = Any  # array fields: uninterpreted lists
    model(name, fields=fields)
    return Inst(name)


COMMAND_INST = {cls: command_model(cls) for cls in COMMAND_CLASSES.values()}

# a generic HCI_Command instance (no registered class)
model('bumble.hci:HCI_Command#named', fields=dict(op_code=Int, name=Str))


def generic_command(op_code, name):
    """a plain HCI_Command instance (Inst(...) cannot take a field called `name` as keyword)"""
    inst = Inst('bumble.hci:HCI_Command#named')
    inst.overrides = dict(op_code=op_code, name=name)
    return inst


def loops_of(fn):
    node = ast.parse(textwrap.dedent(inspect.getsource(fn))).body[0]
    return sum(1 for x in ast.walk(node) if isinstance(x, (ast.For, ast.While, ast.AsyncFor)))


def unchanged_inv(ghost, old):
    return [ghost.replies == old.ghost.replies, ghost.last_op == old.ghost.last_op]


def link_attached(self):
    """representation invariant of Controller: `link` is set by __init__ (`link or LocalLink()`), never reassigned"""
    return [self.link is not None]


# ---------------------------------------------------------------------------
# handlers
# ---------------------------------------------------------------------------
def sync_post(res, ghost, old):
    """handler of an HCI_SyncCommand class: hands return parameters to on_hci_command_packet, sends no reply itself"""
    return [res is not None, ghost.replies == old.ghost.replies]


def async_post_for(op):
    """handler of an HCI_AsyncCommand class: exactly one Command Status, for this command's opcode"""
    return lambda res, ghost, old: [res is None, ghost.replies == old.ghost.replies + 1, ghost.last_op == op, ghost.last_kind == KIND_STATUS]


SYNC_NAMES = ['returns-parameters', 'no-reply-by-handler']
ASYNC_NAMES = ['returns-none', 'exactly-one-status', 'status-carries-the-opcode', 'reply-is-a-command-status']
# local containers mutated inside a loop need a declared type (uninterpreted here)
HANDLER_LOOP_LOCALS = {'on_hci_le_set_cig_parameters_command': {1: {'handles': Any}}}

HANDLER_KEY = {}
for _h in HANDLERS:
    if _h == 'on_hci_command':
        continue
    _cls = HANDLER_CLASS.get(_h)
    if _cls is None:
        raise AssertionError(f'C03: handler {_h} serves no registered command class')
    _kind = kind_of_class(_cls)
    _fn = getattr(Controller, _h)
    _pname = list(inspect.signature(_fn).parameters)[1]
    _key = f'bumble.controller:Controller.{_h}'
    HANDLER_KEY[_h] = _key
    contract(
        _key,
        prop='C03',
        profile='skeleton',
        params={'self': CTRL, _pname: COMMAND_INST[_cls]},
        ghost=CTL_GHOST,
        requires=link_attached,
        ensures=sync_post if _kind == 'sync' else async_post_for(_cls.op_code),
        ensures_names=SYNC_NAMES if _kind == 'sync' else ASYNC_NAMES,
        modifies=CTL_MOD,
        returns=Opt(Opaque('rp')),
        # no reply is emitted inside a loop that goes on (a loop that replies returns right after)
        invariants={i: unchanged_inv for i in range(loops_of(_fn))},
        loop_locals=HANDLER_LOOP_LOCALS.get(_h, {}),
        inline=['Controller._send_hci_command_status'],
        note=f'{_kind} command class {_cls.__name__}',
        solver_procs=1,
    )

contract(
    'bumble.controller:Controller._send_hci_command_status',
    prop='C03',
    profile='skeleton',
    params=dict(self=CTRL, status=IntRange(0, 255), op_code=IntRange(0, 0xFFFF)),
    ghost=CTL_GHOST,
    ensures=lambda op_code, ghost, old: [ghost.replies == old.ghost.replies + 1, ghost.last_op == op_code, ghost.last_kind == KIND_STATUS],
    ensures_names=['one-status', 'for-the-given-opcode', 'is-a-command-status'],
    modifies=CTL_MOD,
    solver_procs=1,
)


# ---------------------------------------------------------------------------
# Controller.__init__ establishes the invariant the handlers rely on
# ---------------------------------------------------------------------------
model('bumble.controller:Controller#new', fields={})
model('ghost:LocalLink', fields={}, methods={'add_controller': Callback('add_controller')})
contract(
    'bumble.controller:Controller.__init__',
    prop='C03',
    profile='skeleton',
    params=dict(self=Inst('bumble.controller:Controller#new'), name=Str, host_source=Any, host_sink=Any, link=Opt(Inst('ghost:LocalLink')), public_address=Any),
    ensures=lambda self: [self.link is not None],
    ensures_names=['link-attached'],
    modifies=['self.*'],
    solver_procs=1,
)


# ---------------------------------------------------------------------------
# Controller.send_hci_packet: one delivery to the host per packet
# ---------------------------------------------------------------------------
def loop_call_soon(ghost, callback, data):
    ghost.scheduled = ghost.scheduled + 1


model('ghost:Loop#c03', fields={}, methods={'call_soon': Callback('call_soon', effect=loop_call_soon)})
model('ghost:HostSink', fields={}, methods={'on_packet': Callback('on_packet')})
model('bumble.controller:Controller#tx', fields=dict(host=Opt(Inst('ghost:HostSink')), name=Str))

contract(
    'bumble.controller:Controller.send_hci_packet',
    prop='C03',
    profile='skeleton',
    params=dict(self=Inst('bumble.controller:Controller#tx'), packet=Any),
    ghost=dict(scheduled=Int, loop=Inst('ghost:Loop#c03')),
    ensures=lambda self, ghost, old: [ghost.scheduled == old.ghost.scheduled + (1 if self.host is not None else 0)],
    ensures_names=['one-delivery-scheduled-iff-host-attached'],
    modifies=['ghost.scheduled'],
    solver_procs=1,
    stubs={asyncio.get_running_loop: Callback('get_running_loop', effect=lambda ghost: ghost.loop)},
)


# ---------------------------------------------------------------------------
# Controller.on_hci_command_packet: every registered command class, every named op-code, any other op-code
# ---------------------------------------------------------------------------
def packet_post(command, ghost, old):
    """exactly one Command Complete / Command Status leaves the controller and it carries the command's opcode"""
    return [
        ghost.replies == old.ghost.replies + 1,
        ghost.last_op == command.op_code,
        # the kind of reply the host waits for (Host.send_sync_command_raw asserts a Command Complete for a sync class
        # unless the status is "unknown command"; send_async_command expects a Command Status)
        implies(isinstance(command, hci.HCI_SyncCommand), ghost.last_kind == KIND_COMPLETE),
        implies(isinstance(command, hci.HCI_AsyncCommand), ghost.last_kind == KIND_STATUS),
    ]


PACKET_NAMES = ['exactly-one-reply', 'reply-carries-the-opcode', 'sync-class-gets-command-complete', 'async-class-gets-command-status']
PACKET_TARGET = 'bumble.controller:Controller.on_hci_command_packet'
PACKET_COMMON = dict(
    prop='C03',
    profile='skeleton',
    ghost=CTL_GHOST,
    requires=link_attached,
    ensures=packet_post,
    ensures_names=PACKET_NAMES,
    modifies=CTL_MOD,
    fstrings='eval',
    solver_procs=1,
)

for _kind in ('sync', 'async'):
    _with = [c for c in COMMAND_CLASSES.values() if kind_of_class(c) == _kind and 'on_' + c.name.lower() in HANDLER_KEY]
    _without = [c for c in COMMAND_CLASSES.values() if kind_of_class(c) == _kind and 'on_' + c.name.lower() not in HANDLER_KEY]
    contract(
        PACKET_TARGET,
        key=f'{PACKET_TARGET}@{_kind}-classes-with-handler',
        params=dict(self=CTRL, command=OneOf(*[COMMAND_INST[c] for c in _with])),
        uses=[HANDLER_KEY['on_' + c.name.lower()] for c in _with],
        note=f'{len(_with)} registered {_kind} command classes, each dispatched to its handler (used through its contract)',
        **PACKET_COMMON,
    )
    contract(
        PACKET_TARGET,
        key=f'{PACKET_TARGET}@{_kind}-classes-without-handler',
        params=dict(self=CTRL, command=OneOf(*[COMMAND_INST[c] for c in _without])),
        inline=['Controller.on_hci_command', 'Controller._send_hci_command_status'],
        note=f'{len(_without)} registered {_kind} command classes without handler: the real default handler, inlined',
        **PACKET_COMMON,
    )
if any(kind_of_class(c) == 'generic' for c in COMMAND_CLASSES.values()):
    raise AssertionError('C03: a registered command class is neither sync nor async')

contract(
    PACKET_TARGET,
    key=f'{PACKET_TARGET}@opcode-without-class',
    params=dict(self=CTRL, command=generic_command(IntRange(0, 0xFFFF), Const('<name of an op-code without class>'))),
    inline=['Controller.on_hci_command', 'Controller._send_hci_command_status'],
    note=f'generic HCI_Command: any op-code without registered class ({len(NAMED_WITHOUT_CLASS)} of them have a name); name string: see ENVIRONMENT',
    **dict(PACKET_COMMON, requires=lambda self, command: [self.link is not None, command.op_code not in CLASS_OPCODES]),
)



# ---------------------------------------------------------------------------
# procedures accepted as pending: safety shadow of "eventually concluded"
# ---------------------------------------------------------------------------
# Liveness (the completion event eventually arrives) is not reachable with contracts.  Its safety shadow is: on every
# path on which a handler of one of the procedures named in the statement answers with Command Status 0x00
# (pending / accepted), something that can produce the completion has been put in place before the handler returns:
# an LMP/LL PDU went to the peer (whose answer the controller turns into the completion event), a completion helper
# (on_classic_connection_complete, on_le_disconnected, ...) was called, or the pending object was stored for the
# function that consumes it (pending_le_connection -> create_le_connection when the peer advertises).
def proc_send(ghost, packet):
    r = is_reply(packet)
    ghost.replies = ghost.replies + (1 if r else 0)
    ghost.last_status = packet.status if isinstance(packet, hci.HCI_Command_Status_Event) else ghost.last_status


def continuation(ghost, *args):
    ghost.cont = ghost.cont + 1


model('ghost:LmpFuture', fields={}, methods={'add_done_callback': Callback('add_done_callback')})
model('ghost:Connection', fields=dict(peer_address=Any, role=Any, transport=Any, handle=Any),
      methods={'send_ll_control_pdu': Callback('send_ll_control_pdu', effect=continuation)})
model('bumble.controller:CisLink#any', fields=dict(acl_connection=Opt(Inst('ghost:Connection')), cig_id=Any, cis_id=Any, handle=Any))
model('bumble.controller:CisLink#peripheral-proc', fields=dict(acl_connection=Inst('ghost:Connection'), cig_id=Any, cis_id=Any, handle=Any))
model('bumble.controller:ScoLink#any', fields=dict(peer_address=Any, link_type=Any, handle=Any))
# the connection tables as seen through the look-ups for the handle of the command: what each table holds for that
# handle is fixed but arbitrary (ghost.le / classic / sco / central / peripheral), so repeated look-ups agree
LOOKUP_GHOST = dict(
    le=Opt(Inst('ghost:Connection')), classic=Opt(Inst('ghost:Connection')), sco=Opt(Inst('bumble.controller:ScoLink#any')),
    central=Opt(Inst('bumble.controller:CisLink#any')), peripheral=Opt(Inst('bumble.controller:CisLink#peripheral-proc')),
)
model('ghost:CisTable', fields={}, methods={'get': Callback('get', effect=lambda ghost, handle: ghost.central)})
model('ghost:PeripheralCisTable#proc', fields={}, methods={'get': Callback('get', effect=lambda ghost, handle: ghost.peripheral)})


def find_any(ghost, handle):
    return ghost.le if ghost.le is not None else ghost.classic


PROC_FIELDS = dict(CTRL_FIELDS)
PROC_FIELDS.update(
    pending_le_connection=Opt(Opaque('pending')),
    central_cis_links=Inst('ghost:CisTable'),
    peripheral_cis_links=Inst('ghost:PeripheralCisTable#proc'),
)
model(
    'bumble.controller:Controller#proc',
    fields=PROC_FIELDS,
    methods=dict(
        send_hci_packet=Callback('send_hci_packet', effect=proc_send),
        send_lmp_packet=Callback('send_lmp_packet', effect=continuation, returns=Inst('ghost:LmpFuture')),
        on_classic_connection_complete=Callback('on_classic_connection_complete', effect=continuation),
        on_classic_disconnected=Callback('on_classic_disconnected', effect=continuation),
        on_classic_sco_connection_complete=Callback('on_classic_sco_connection_complete', effect=continuation),
        on_classic_sco_disconnected=Callback('on_classic_sco_disconnected', effect=continuation),
        on_le_disconnected=Callback('on_le_disconnected', effect=continuation),
        on_le_cis_disconnected=Callback('on_le_cis_disconnected', effect=continuation),
        on_le_encrypted=Callback('on_le_encrypted', effect=continuation),
        find_connection_by_handle=Callback('find_connection_by_handle', effect=find_any),
        find_le_connection_by_handle=Callback('find_le_connection_by_handle', effect=lambda ghost, handle: ghost.le),
        find_classic_connection_by_handle=Callback('find_classic_connection_by_handle', effect=lambda ghost, handle: ghost.classic),
        find_classic_sco_link_by_handle=Callback('find_classic_sco_link_by_handle', effect=lambda ghost, handle: ghost.sco),
    ),
)
PROCEDURES = [
    'on_hci_create_connection_command', 'on_hci_le_create_connection_command', 'on_hci_le_extended_create_connection_command',
    'on_hci_disconnect_command', 'on_hci_remote_name_request_command', 'on_hci_read_remote_supported_features_command',
    'on_hci_read_remote_extended_features_command', 'on_hci_le_read_remote_features_command', 'on_hci_le_enable_encryption_command',
    'on_hci_le_create_cis_command', 'on_hci_le_accept_cis_request_command',
]


def pending_has_continuation(self, command, ghost, old):
    accepted = ghost.replies == old.ghost.replies + 1 and ghost.last_status == hci.HCI_COMMAND_STATUS_PENDING
    return [implies(accepted, ghost.cont > old.ghost.cont or self.pending_le_connection is command)]


LOOKUP_USES = {
    'find_le_connection_by_handle': ('le',), 'find_classic_connection_by_handle': ('classic',), 'find_connection_by_handle': ('le', 'classic'),
    'find_classic_sco_link_by_handle': ('sco',), 'central_cis_links': ('central',), 'peripheral_cis_links': ('peripheral',),
    'find_iso_link_by_handle': ('central', 'peripheral'),
}


def lookup_ghost(fn):
    """only the tables the handler consults are arbitrary (the others are never read: fixed to None to save paths)"""
    src = inspect.getsource(fn)
    used = {g for name, gs in LOOKUP_USES.items() if name in src for g in gs}
    return {k: (t if k in used else Const(None)) for k, t in LOOKUP_GHOST.items()}


def proc_contract(_h, command_inst, suffix='', note=''):
    _fn = getattr(Controller, _h)
    if list(inspect.signature(_fn).parameters)[1] != 'command':
        raise AssertionError(f'C03: {_h} does not call its parameter `command`')
    contract(
        f'bumble.controller:Controller.{_h}',
        key=f'bumble.controller:Controller.{_h}@procedure{suffix}',
        prop='C03',
        profile='skeleton',
        params=dict(self=Inst('bumble.controller:Controller#proc'), command=command_inst),
        ghost=dict(lookup_ghost(_fn), replies=Int, last_status=Int, cont=Int),
        requires=link_attached,
        ensures=pending_has_continuation,
        ensures_names=['accepted-as-pending-implies-completion-source'],
        modifies=['ghost.replies', 'ghost.last_status', 'ghost.cont'],
        invariants={i: (lambda ghost, old: [ghost.replies == old.ghost.replies, ghost.cont >= old.ghost.cont]) for i in range(loops_of(_fn))},
        inline=['Controller._send_hci_command_status', 'Controller.find_iso_link_by_handle'],
        note='safety shadow of "every procedure accepted as pending is eventually concluded"' + note,
        solver_procs=1,
    )


for _h in PROCEDURES:
    if _h == 'on_hci_le_create_cis_command':
        # the per-CIS loop runs over zip(two list fields): bounded stand-in, 1 and 2 CIS entries (CIS_Count >= 1 by the
        # HCI specification; with 0 entries the handler answers pending and does nothing)
        for _n in (1, 2):
            _m = f'bumble.hci:HCI_LE_Create_CIS_Command#n{_n}'
            model(_m, fields=dict(cis_connection_handle=ConcList(IntRange(0, 0xFFFF), _n), acl_connection_handle=ConcList(IntRange(0, 0xFFFF), _n)))
            proc_contract(_h, Inst(_m), suffix=f'-n{_n}', note=f'; bounded: {_n} CIS entr{"y" if _n == 1 else "ies"}')
        continue
    proc_contract(_h, COMMAND_INST[HANDLER_CLASS[_h]])


# ---------------------------------------------------------------------------
# the classic connection procedure, acceptor side: HCI_Accept_Connection_Request
# ---------------------------------------------------------------------------
# The initiator's Create Connection is "accepted as pending" on the other controller: it sent LMP_host_connection_req
# and waits for the answer in Controller.classic_pending_commands[peer][LMP_HOST_CONNECTION_REQ] (send_lmp_packet files
# the future under the opcode of the request, on_lmp_packet resolves the future filed under the opcode the answer NAMES
# -- response_opcode -- and only logs an answer that names anything else).  So the initiator's procedure is concluded
# only if the acceptor, on every path on which its host accepted the request, answers with exactly one
# LMP_accepted / LMP_not_accepted naming LMP_HOST_CONNECTION_REQ (Vol 2 Part C 4.1.2 / 4.3: the PDU carries the
# opcode of the PDU it answers) -- also when the role switch it tried first was refused.  The acceptor's own procedure
# (its host's Accept Connection Request, answered with Command Status 0x00) is concluded by exactly one
# on_classic_connection_complete whose status agrees with the answer it gave the peer.
# The done-callback registered on the future of the LMP_switch_req is run by the recorded add_done_callback with a
# future whose result is arbitrary (ghost.switch_status): the peer's answer to the role switch, whenever it arrives.
def lmp_send_recorded(ghost, address, packet):
    ghost.cont = ghost.cont + 1
    if isinstance(packet, lmp.LmpAccepted):
        ghost.answers = ghost.answers + 1
        ghost.answer_names = packet.response_opcode
        ghost.answer_positive = True
        ghost.answer_address = address
    elif isinstance(packet, lmp.LmpNotAccepted):
        ghost.answers = ghost.answers + 1
        ghost.answer_names = packet.response_opcode
        ghost.answer_positive = False
        ghost.answer_error = packet.error_code
        ghost.answer_address = address
    elif isinstance(packet, lmp.LmpSwitchReq):
        ghost.switch_reqs = ghost.switch_reqs + 1
    elif isinstance(packet, lmp.LmpHostConnectionReq):
        ghost.requests = ghost.requests + 1
        ghost.request_opcode = packet.opcode
        ghost.request_address = address
    else:
        ghost.other_lmp = ghost.other_lmp + 1
    return ghost.lmp_future


def run_done_callback(ghost, callback):
    ghost.callbacks = ghost.callbacks + 1
    call_code(callback, ghost.lmp_future)


def connection_complete_recorded(ghost, address, status):
    ghost.completions = ghost.completions + 1
    ghost.completion_status = status
    ghost.completion_address = address


def role_change_recorded(ghost, connection):
    ghost.role_changes = ghost.role_changes + 1


model('ghost:LmpFuture#answered', fields={}, methods={'add_done_callback': Callback('add_done_callback', effect=run_done_callback),
                                                      'result': Callback('result', effect=lambda ghost: ghost.switch_status)})
model('ghost:ClassicTable', fields={}, methods={'get': Callback('get', effect=lambda ghost, address: ghost.classic)})
ACCEPT_FIELDS = dict(CTRL_FIELDS)
ACCEPT_FIELDS['classic_connections'] = Inst('ghost:ClassicTable')  # what the table holds for the address of the command: ghost.classic
C03_ACCEPT_METHODS = dict(
    send_hci_packet=Callback('send_hci_packet', effect=proc_send),
    send_lmp_packet=Callback('send_lmp_packet', effect=lmp_send_recorded),
    on_classic_connection_complete=Callback('on_classic_connection_complete', effect=connection_complete_recorded),
    classic_role_change=Callback('classic_role_change', effect=role_change_recorded),
)
model('bumble.controller:Controller#accept', fields=ACCEPT_FIELDS, methods=C03_ACCEPT_METHODS)
ACCEPT_MODIFIES = ['ghost.replies', 'ghost.last_status', 'ghost.cont', 'ghost.answers', 'ghost.answer_names', 'ghost.answer_positive', 'ghost.answer_error',
                   'ghost.answer_address', 'ghost.switch_reqs', 'ghost.other_lmp', 'ghost.callbacks', 'ghost.completions', 'ghost.completion_status',
                   'ghost.completion_address', 'ghost.role_changes']
HOST_CONNECTION_REQ = int(lmp.Opcode.LMP_HOST_CONNECTION_REQ)
ACCEPT_GHOST = dict(replies=Int, last_status=Int, cont=Int, answers=Int, answer_names=Int, answer_positive=Bool, answer_error=Int, answer_address=Opaque('address'),
                    switch_reqs=Int, other_lmp=Int, callbacks=Int, completions=Int, completion_status=Int, completion_address=Opaque('address'), role_changes=Int,
                    switch_status=IntRange(0, 255), lmp_future=Inst('ghost:LmpFuture#answered'), classic=Opt(Inst('ghost:Connection')),
                    requests=Int, request_opcode=Int, request_address=Opaque('address'))


def acceptor_post(self, command, ghost, old):
    accepted = ghost.replies == old.ghost.replies + 1 and ghost.last_status == hci.HCI_ErrorCode.SUCCESS
    as_central = command.role == hci.Role.CENTRAL
    return [
        ghost.replies == old.ghost.replies + 1,
        # a connection request from that peer is waiting for the host's decision <=> the command is accepted
        accepted == (ghost.classic is not None),
        # the answer to the peer's LMP_host_connection_req: exactly one, naming that request, on every accepting path
        implies(accepted, ghost.answers == old.ghost.answers + 1),
        implies(accepted, ghost.answer_names == HOST_CONNECTION_REQ),
        implies(accepted, ghost.answer_address is command.bd_addr and ghost.completion_address is command.bd_addr),
        # the acceptor's own procedure is concluded once, with the status it told the peer
        implies(accepted, ghost.completions == old.ghost.completions + 1),
        implies(accepted, ghost.completion_status == (hci.HCI_ErrorCode.SUCCESS if ghost.answer_positive else ghost.answer_error)),
        # accept as peripheral: plain LMP_accepted; accept as central: role switch first, the peer's answer to it decides
        implies(accepted and not as_central, ghost.answer_positive and ghost.switch_reqs == old.ghost.switch_reqs and ghost.role_changes == old.ghost.role_changes),
        implies(accepted and as_central, ghost.switch_reqs == old.ghost.switch_reqs + 1 and ghost.callbacks == old.ghost.callbacks + 1
                and ghost.answer_positive == (ghost.switch_status == hci.HCI_ErrorCode.SUCCESS)
                and ghost.role_changes == old.ghost.role_changes + (1 if ghost.answer_positive else 0)),
        implies(accepted and as_central and not ghost.answer_positive, ghost.answer_error == ghost.switch_status),
        implies(accepted, ghost.other_lmp == old.ghost.other_lmp and ghost.requests == old.ghost.requests),
        # request unknown (no such connection): error status, nothing goes to the peer, nothing is concluded
        implies(not accepted, ghost.cont == old.ghost.cont and ghost.completions == old.ghost.completions and ghost.answers == old.ghost.answers),
    ]


contract(
    'bumble.controller:Controller.on_hci_accept_connection_request_command',
    key='bumble.controller:Controller.on_hci_accept_connection_request_command@procedure',
    prop='C03',
    profile='skeleton',
    params=dict(self=Inst('bumble.controller:Controller#accept'),
                command=Inst(COMMAND_INST[hci.HCI_Accept_Connection_Request_Command].name, bd_addr=Opaque('address'))),
    ghost=ACCEPT_GHOST,
    requires=link_attached,
    ensures=acceptor_post,
    ensures_names=['exactly-one-status', 'accepted-iff-a-request-is-waiting', 'accepted-exactly-one-answer-to-the-peer', 'answer-names-the-host-connection-request', 'answer-and-completion-for-the-requesting-peer',
                   'accepted-own-connection-complete-once', 'completion-status-is-the-answer-given', 'as-peripheral-plain-accept',
                   'as-central-role-switch-answer-decides', 'refused-switch-error-code-passed-on', 'no-other-lmp-pdu', 'unknown-request-nothing-sent'],
    modifies=ACCEPT_MODIFIES,
    inline=['Controller._send_hci_command_status'],
    note='classic connection procedure, acceptor side: the answer names the request it answers on every path (accepted, role switch refused)',
    solver_procs=1,
)


# -- initiator side: HCI_Create_Connection accepted as pending => exactly one LMP_host_connection_req went to the peer,
# and when the future send_lmp_packet returned for it is resolved (the recorded add_done_callback runs the callback with
# an arbitrary result, ghost.switch_status) the procedure is concluded by exactly one on_classic_connection_complete for
# that peer with that status
CREATE_FIELDS = dict(ACCEPT_FIELDS)
CREATE_FIELDS['classic_connections'] = Any  # only written (skeleton profile: a store into an uninterpreted table)
model('bumble.controller:Controller#create', fields=CREATE_FIELDS, methods=C03_ACCEPT_METHODS)


def initiator_post(self, command, ghost, old):
    pending = ghost.replies == old.ghost.replies + 1 and ghost.last_status == hci.HCI_COMMAND_STATUS_PENDING
    return [
        ghost.replies == old.ghost.replies + 1,
        implies(pending, ghost.requests == old.ghost.requests + 1 and ghost.request_opcode == HOST_CONNECTION_REQ and ghost.request_address is command.bd_addr),
        implies(pending, ghost.cont == old.ghost.cont + 1),
        implies(pending, ghost.callbacks == old.ghost.callbacks + 1 and ghost.completions == old.ghost.completions + 1
                and ghost.completion_status == ghost.switch_status and ghost.completion_address is command.bd_addr),
        implies(not pending, ghost.cont == old.ghost.cont and ghost.completions == old.ghost.completions),
    ]


contract(
    'bumble.controller:Controller.on_hci_create_connection_command',
    key='bumble.controller:Controller.on_hci_create_connection_command@procedure-answer',
    prop='C03',
    profile='skeleton',
    params=dict(self=Inst('bumble.controller:Controller#create'),
                command=Inst(COMMAND_INST[hci.HCI_Create_Connection_Command].name, bd_addr=Opaque('address'))),
    ghost=ACCEPT_GHOST,
    requires=link_attached,
    ensures=initiator_post,
    ensures_names=['exactly-one-status', 'pending-one-host-connection-request-to-the-peer', 'pending-no-other-lmp-pdu',
                   'answer-to-the-request-concludes-with-its-status', 'refused-nothing-sent'],
    modifies=ACCEPT_MODIFIES + ['ghost.requests', 'ghost.request_opcode', 'ghost.request_address'],
    inline=['Controller._send_hci_command_status'],
    note='classic connection procedure, initiator side: the completion is the done-callback of the future of the LMP_host_connection_req',
    solver_procs=1,
)


# -- why the opcode matters: the initiator's side of the exchange, real code, value profile --------------------
# The real send_lmp_packet (files the future of the request) and the real on_lmp_packet (delivers the peer's answer)
# in sequence: the future of the LMP_host_connection_req -- whose done-callback is the initiator's Connection Complete --
# is resolved, exactly once and with the status the answer carries, iff the answer names LMP_HOST_CONNECTION_REQ.
def lmp_future_resolved(ghost, value):
    ghost.resolved = ghost.resolved + 1
    ghost.resolved_with = value


model('ghost:Future#lmp', fields={}, methods={'set_result': Callback('set_result', effect=lmp_future_resolved)})
model('ghost:Loop#lmp', fields={}, methods={'create_future': Callback('create_future', effect=lambda ghost: ghost.fut)})
model('ghost:Link#lmp', fields={}, methods={'send_lmp_packet': Callback('send_lmp_packet')})
model('bumble.controller:Controller#lmp', fields=dict(link=Inst('ghost:Link#lmp'), classic_pending_commands=Const({})))


def lemma_answer_concludes_the_initiator(c, peer, names, error, positive, ghost):
    request = lmp.LmpHostConnectionReq()
    fut = c.send_lmp_packet(peer, request)
    assert fut is ghost.fut and ghost.resolved == 0, 'request-future-pending'
    if positive:
        c.on_lmp_packet(peer, lmp.LmpAccepted(names))
    else:
        c.on_lmp_packet(peer, lmp.LmpNotAccepted(names, error))
    assert ghost.resolved == (1 if names == HOST_CONNECTION_REQ else 0), 'resolved-iff-the-answer-names-the-request'
    assert implies(ghost.resolved == 1, ghost.resolved_with == (hci.HCI_ErrorCode.SUCCESS if positive else error)), 'resolved-with-the-answers-status'


lemma(
    'answer_concludes_the_initiator',
    lemma_answer_concludes_the_initiator,
    prop='C03',
    params=dict(c=Inst('bumble.controller:Controller#lmp'), peer=Opaque('address'), names=IntRange(0, 127), error=IntRange(0, 255), positive=Bool),
    ghost=dict(resolved=Int, resolved_with=Int, fut=Inst('ghost:Future#lmp'), loop=Inst('ghost:Loop#lmp')),
    requires=lambda ghost: [ghost.resolved == 0],
    inline=['Controller.send_lmp_packet', 'Controller.on_lmp_packet'],
    stubs={asyncio.get_running_loop: Callback('get_running_loop', effect=lambda ghost: ghost.loop)},
)


# ===========================================================================
# Host side (bumble/host.py), profile 'value'
# ===========================================================================
#
# State: Host.command_semaphore (asyncio.Semaphore(1)), Host.pending_command, Host.pending_response.
# The semaphore is a ghost counter: ghost.sem is its value, ghost.waiting says whether some task is queued on it
# (asyncio: locked() == (value == 0 or a live waiter exists); release() increments the value without upper bound, which
# is why the code tests locked() before releasing).
#
# Shared invariant (host_inv) -- holds whenever control is at an await:
#   0 <= sem <= 1;  pending_response is None  <=>  pending_command is None;  a command is outstanding  =>  sem == 0.
# Cooperative scheduling (A1): at an await every other operation of the host may run; they are assumed to preserve the
# invariant (rely) -- which is what their own contracts below prove (guarantee) under the environment assumption E:
#   E: a Command Complete / Command Status event reaches the host only as the answer to the outstanding command
#      (what the controller side above proves: exactly one reply per command, carrying its opcode), in particular no
#      Command Complete with opcode 0 (flow-control NOP) arrives while a command is outstanding, and no reply arrives
#      between the release of the semaphore and the resumption of the next queued caller.
TransportLostError = _host.TransportLostError


def host_send(ghost, packet):
    """Host.send_hci_packet: the command leaves for the controller only while the semaphore is held"""
    assert ghost.sem == 0
    if ghost.send_fails:
        raise RuntimeError('transport failure')
    ghost.sent = ghost.sent + 1


def host_emit(ghost, name):
    ghost.flushes = ghost.flushes + 1


def sem_release(ghost):
    ghost.sem = ghost.sem + 1


def sem_locked(ghost):
    return ghost.sem == 0 or ghost.waiting


def fut_set_result(ghost, value):
    ghost.results = ghost.results + 1
    ghost.result_opcode = value.command_opcode


def fut_set_exception(ghost, exc):
    assert isinstance(exc, TransportLostError)
    ghost.failures = ghost.failures + 1


model('ghost:Semaphore', fields={}, methods={
    'acquire': Callback('acquire', is_async=True),
    'release': Callback('release', effect=sem_release),
    'locked': Callback('locked', effect=sem_locked),
})
def fut_done(ghost):
    """Future.done() of the pending response (asked by on_transport_lost since notes/C16/fix-1.diff): ghost.fut_done says
    whether the response already arrived (set_result ran) while the waiter in _send_command has not resumed yet"""
    return ghost.fut_done


model('ghost:Future', fields={}, methods={
    'set_result': Callback('set_result', effect=fut_set_result),
    'set_exception': Callback('set_exception', effect=fut_set_exception),
    'done': Callback('done', effect=fut_done),
})
model('bumble.hci:HCI_Command#host', fields=dict(op_code=IntRange(1, 0xFFFF), name=Str))
model('bumble.hci:HCI_Command_Complete_Event#host', fields=dict(num_hci_command_packets=IntRange(0, 255), command_opcode=IntRange(0, 0xFFFF)))
model('bumble.hci:HCI_Command_Status_Event#host', fields=dict(num_hci_command_packets=IntRange(0, 255), command_opcode=IntRange(0, 0xFFFF), status=IntRange(0, 255)))
H_COMMAND = Inst('bumble.hci:HCI_Command#host')
H_COMPLETE = Inst('bumble.hci:HCI_Command_Complete_Event#host')
H_STATUS = Inst('bumble.hci:HCI_Command_Status_Event#host')
H_FUTURE = Inst('ghost:Future')

model(
    'bumble.host:Host',
    fields=dict(pending_command=Opt(H_COMMAND), pending_response=Opt(H_FUTURE), command_semaphore=Inst('ghost:Semaphore')),
    methods={
        'send_hci_packet': Callback('send_hci_packet', effect=host_send, raises=(RuntimeError,)),
        'emit': Callback('emit', effect=host_emit),
        # Host._forget_links (notes/C16/fix-2.diff): drops the link tables and data queues, touches no command state
        # (what it does is C16: contracts/c16_teardown.py)
        '_forget_links': Callback('_forget_links'),
    },
)
HOST = Inst('bumble.host:Host')
SEM_GHOST = dict(sem=Int, waiting=Bool)
HOST_STATE = ['self.pending_command', 'self.pending_response', 'ghost.sem', 'ghost.waiting']


def host_inv(self, ghost):
    return [
        ghost.sem >= 0,
        ghost.sem <= 1,
        (self.pending_response is None) == (self.pending_command is None),
        implies(self.pending_response is not None, ghost.sem == 0),
    ]


def take_semaphore(ghost):
    """acquire() returns: the value was positive and is decremented (atomically with the resumption)"""
    ghost.sem = ghost.sem - 1


def acquired(ghost):
    return [ghost.sem >= 1]


def still_ours(self, ghost):
    """while this caller holds the semaphore nobody else passes acquire() and (E) no handler releases it, and only
    _send_command assigns pending_command / pending_response (checked syntactically at import)"""
    return host_inv(self, ghost) + [ghost.sem == 0, self.pending_response is not None, self.pending_command is not None]


def published(self, command, ghost):
    """guarantee at the wait: the future and the command this caller registered are the pending ones"""
    return host_inv(self, ghost) + [self.pending_response is ghost.fut, self.pending_command is command, ghost.sem == 0]


TASK_LOCAL_GHOST = ('sent', 'waits', 'flushes')


def make_await_hook(guarantee_wait=None, rely_wait=None):
    """rely/guarantee at the awaits of a function that first acquires the command semaphore.
    `await semaphore.acquire()`: guarantee host_inv; others run; rely host_inv and value >= 1, then take it.
    any later await: guarantee `guarantee_wait`; others run; rely `rely_wait`."""
    from pyvc.vcgen import OldView

    def hook(path, v, node):
        cfg = path.cfg
        env = dict(path.entry_env)
        for fr in reversed(path.scope):
            env.update(path.obj(fr).vars)
        env['old'] = OldView(path.entry_env, 'old')
        acquiring = 'command_semaphore.acquire' in ast.unparse(node.value)
        guar = host_inv if acquiring else guarantee_wait
        for i, cl in enumerate(cfg.clauses(path, guar, env)):
            path.oblige(cfg.obl_name(path, 'await-guarantee', f'L{node.lineno}#{i}'), 'await-guarantee', cl)
        g = path.wobj(path.ghost).fields
        local = {n: g[n] for n in TASK_LOCAL_GHOST if n in g}  # per-activation ghost counters: no other task writes them
        cfg.havoc_modifies(path, cfg.top, path.entry_env, 'await')
        path.wobj(path.ghost).fields.update(local)
        path.abstraction_used = True
        for cl in cfg.clauses(path, host_inv if acquiring else rely_wait, env):
            path.assume(cl)
        if acquiring:
            for cl in cfg.clauses(path, acquired, env):
                path.assume(cl)
            cfg.spec_eval(path, take_semaphore, env)
        return v

    return hook


def wait_for_response(ghost, fut, timeout):
    """asyncio.wait_for(self.pending_response, timeout): the caller waits on the future it registered, after the
    command went out; outcomes: the response the future was resolved with, timeout, the exception set on the future
    (transport lost), cancellation of the caller"""
    assert fut is ghost.fut
    assert ghost.sent == ghost.sent0 + 1
    ghost.waits = ghost.waits + 1
    if ghost.outcome == 1:
        raise asyncio.TimeoutError()
    if ghost.outcome == 2:
        raise TransportLostError('transport lost')
    if ghost.outcome == 3:
        raise asyncio.CancelledError()
    return ghost.resp


model('ghost:Loop#host', fields={}, methods={'create_future': Callback('create_future', effect=lambda ghost: ghost.fut)})
HOST_STUBS = {
    asyncio.get_running_loop: Callback('get_running_loop', effect=lambda ghost: ghost.loop),
    asyncio.wait_for: Callback('wait_for', effect=wait_for_response, is_async=True, raises=(asyncio.TimeoutError, RuntimeError, asyncio.CancelledError)),
}
SEND_GHOST = dict(SEM_GHOST, sent=Int, sent0=Int, send_fails=Bool, waits=Int, outcome=IntRange(0, 3), resp=OneOf(H_COMPLETE, H_STATUS),
                  fut=H_FUTURE, loop=Inst('ghost:Loop#host'))


def cleared_and_released(self, ghost, old):
    """every abnormal exit: nothing pending any more, the semaphore is free again, the command went out at most once"""
    return [self.pending_command is None, self.pending_response is None, ghost.sem == 1, ghost.sent <= old.ghost.sent + 1] + host_inv(self, ghost)


contract(
    'bumble.host:Host._send_command',
    prop='C03',
    params=dict(self=HOST, command=H_COMMAND, response_timeout=Opt(Int)),
    ghost=SEND_GHOST,
    requires=lambda self, ghost: host_inv(self, ghost) + [ghost.sent0 == ghost.sent],
    ensures=lambda self, command, res, ghost, old: [
        res is ghost.resp,  # the caller gets the event its own future was resolved with
        self.pending_command is None,
        self.pending_response is None,
        # released unless the controller granted no further command credit
        ghost.sem == (0 if res.num_hci_command_packets == 0 else 1),
        ghost.sent == old.ghost.sent + 1,  # the command went out exactly once
        ghost.waits == old.ghost.waits + 1,
    ] + host_inv(self, ghost),
    ensures_names=['returns-the-response-of-its-own-future', 'pending-command-cleared', 'pending-response-cleared', 'released-unless-no-credit',
                   'sent-exactly-once', 'waited-once', 'inv-sem>=0', 'inv-sem<=1', 'inv-pending-pair', 'inv-outstanding-implies-locked'],
    raises={asyncio.TimeoutError: cleared_and_released, asyncio.CancelledError: cleared_and_released, RuntimeError: cleared_and_released},
    modifies=HOST_STATE + ['ghost.sent', 'ghost.waits'],
    stubs=HOST_STUBS,
    await_hook=make_await_hook(guarantee_wait=published, rely_wait=still_ours),
    native_run_for=0.5,
    note='semaphore = ghost counter; awaits havoc the shared state under the host invariant (rely) and the invariant is an obligation before each await (guarantee)',
    assumes=['E (see contract file): replies reach the host only as answers to the outstanding command; FIFO wake-up order of asyncio.Semaphore is not modelled'],
)

contract(
    'bumble.host:Host.flush',
    prop='C03',
    params=dict(self=HOST),
    ghost=dict(SEM_GHOST, flushes=Int),
    requires=host_inv,
    ensures=lambda self, ghost, old: [ghost.sem == 1, self.pending_command is None, self.pending_response is None, ghost.flushes == old.ghost.flushes + 1] + host_inv(self, ghost),
    ensures_names=['released', 'nothing-pending', 'nothing-pending-response', 'flushed-once', 'inv-sem>=0', 'inv-sem<=1', 'inv-pending-pair', 'inv-outstanding-implies-locked'],
    modifies=HOST_STATE + ['ghost.flushes'],
    await_hook=make_await_hook(),
    native_run_for=0.5,
    note='the second user of the command semaphore: takes it (so no command is outstanding), emits flush, releases it, with no await in between',
)


# -- event handlers -----------------------------------------------------------
EVENT_GHOST = dict(SEM_GHOST, results=Int, result_opcode=Int, failures=Int, flushes=Int, fut_done=Bool)
EVENT_MOD = ['ghost.sem', 'ghost.results', 'ghost.result_opcode']


def no_early_wakeup(self, ghost):
    """E, last clause: no event without an outstanding command while a released waiter has not resumed yet"""
    return implies(self.pending_response is None, not (ghost.sem == 1 and ghost.waiting))


def processed_post(self, event, ghost, old):
    answered = old.self.pending_response is not None
    credit = event.num_hci_command_packets != 0 and (old.ghost.sem == 0 or ghost.waiting)
    return host_inv(self, ghost) + [
        # an outstanding command: its future gets exactly this event, the semaphore stays with the caller
        implies(answered, ghost.results == old.ghost.results + 1 and ghost.result_opcode == event.command_opcode and ghost.sem == old.ghost.sem),
        # nothing outstanding: a pure credit update; frees a semaphore that stayed locked after a response with 0 credits
        implies(not answered, ghost.results == old.ghost.results and ghost.sem == old.ghost.sem + (1 if credit else 0)),
    ]


PROCESSED_NAMES = ['inv-sem>=0', 'inv-sem<=1', 'inv-pending-pair', 'inv-outstanding-implies-locked', 'answer-resolves-the-pending-future-once', 'credit-only-when-nothing-outstanding']

contract(
    'bumble.host:Host.on_command_processed',
    prop='C03',
    params=dict(self=HOST, event=OneOf(H_COMPLETE, H_STATUS)),
    ghost=EVENT_GHOST,
    requires=lambda self, ghost: host_inv(self, ghost) + [no_early_wakeup(self, ghost)],
    ensures=processed_post,
    ensures_names=PROCESSED_NAMES,
    modifies=EVENT_MOD,
)
contract('bumble.host:Host.on_command_processed', key='bumble.host:Host.on_command_processed@callee', params=dict(self=HOST, event=OneOf(H_COMPLETE, H_STATUS)),
         ghost=EVENT_GHOST, requires=lambda self, ghost: host_inv(self, ghost) + [no_early_wakeup(self, ghost)], ensures=processed_post, modifies=EVENT_MOD)

contract(
    'bumble.host:Host.on_hci_command_complete_event',
    prop='C03',
    params=dict(self=HOST, event=H_COMPLETE),
    ghost=EVENT_GHOST,
    # E: a flow-control NOP (opcode 0) does not arrive while a command is outstanding
    requires=lambda self, event, ghost: host_inv(self, ghost) + [no_early_wakeup(self, ghost), implies(event.command_opcode == 0, self.pending_response is None)],
    ensures=processed_post,
    ensures_names=PROCESSED_NAMES,
    modifies=EVENT_MOD,
    uses=['bumble.host:Host.on_command_processed@callee'],
)

contract(
    'bumble.host:Host.on_hci_command_status_event',
    prop='C03',
    params=dict(self=HOST, event=H_STATUS),
    ghost=EVENT_GHOST,
    requires=lambda self, ghost: host_inv(self, ghost) + [no_early_wakeup(self, ghost)],
    ensures=processed_post,
    ensures_names=PROCESSED_NAMES,
    modifies=EVENT_MOD,
    uses=['bumble.host:Host.on_command_processed@callee'],
)

contract(
    'bumble.host:Host.on_transport_lost',
    prop='C03',
    params=dict(self=HOST),
    ghost=EVENT_GHOST,
    # the pending response is still pending (C03's view: one outstanding command, not yet answered); the states in which it
    # is already finished are C16 (contracts/c16_teardown.py, notes/C16 defect 1)
    requires=lambda self, ghost: host_inv(self, ghost) + [not ghost.fut_done],
    ensures=lambda self, ghost, old: host_inv(self, ghost) + [
        # the waiting caller (if any) is woken with an exception: it then clears the pending state and releases
        ghost.failures == old.ghost.failures + (1 if self.pending_response is not None else 0),
        ghost.flushes == old.ghost.flushes + 1,
    ],
    ensures_names=['inv-sem>=0', 'inv-sem<=1', 'inv-pending-pair', 'inv-outstanding-implies-locked', 'waiting-caller-gets-the-exception', 'flush-emitted'],
    modifies=['ghost.failures', 'ghost.flushes'],
    solver_procs=1,
)


# -- Host.send_hci_packet: one hand-over to the transport sink per packet ---------------
def sink_on_packet(ghost, data):
    ghost.delivered = ghost.delivered + 1


model('ghost:Sink', fields={}, methods={'on_packet': Callback('on_packet', effect=sink_on_packet)})
model('bumble.host:Host#tx', fields=dict(snooper=Const(None), hci_sink=Opt(Inst('ghost:Sink'))))
contract(
    'bumble.host:Host.send_hci_packet',
    prop='C03',
    profile='skeleton',
    params=dict(self=Inst('bumble.host:Host#tx'), packet=Any),
    ghost=dict(delivered=Int),
    ensures=lambda self, ghost, old: [ghost.delivered == old.ghost.delivered + (1 if self.hci_sink is not None else 0)],
    ensures_names=['handed-to-the-sink-once'],
    modifies=['ghost.delivered'],
    solver_procs=1,
)
