"""C03 -- one HCI command outstanding; every command is answered exactly once.

Controller side (bumble/controller.py), profile 'skeleton': for this property only *how many* Command Complete /
Command Status events carrying the command's opcode leave through `Controller.send_hci_packet` matters, on every
path of every handler.  `send_hci_packet` is a recorded callback whose ghost effect counts

    ghost.replies  -- Command Complete/Status events whose command_opcode == ghost.op (the command being processed)
    ghost.stray    -- Command Complete/Status events with any other opcode (must never happen)

Everything is enumerated by reflection at import time, so a new command class or handler is picked up automatically:

* one contract per `Controller.on_hci_*_command` handler (92 today, incl. the default `on_hci_command`): a handler of
  an `HCI_SyncCommand` class returns return-parameters and sends nothing itself, a handler of an `HCI_AsyncCommand`
  class returns None and sends exactly one Command Status with the command's opcode; no exception escapes.
  Which kind a class is, is read from the real class hierarchy.
* one contract on `Controller.on_hci_command_packet` per registered command class (197 today; its handler is used
  through the handler contract above, classes without handler fall into the real default handler), per op-code that
  has a name but no class (142 today) and one for every other op-code (generic `HCI_Command`): exactly one reply with
  the command's opcode, no stray reply.
* `Controller._send_hci_command_status` and `Controller.send_hci_packet` themselves.

Host side (bumble/host.py), profile 'value': see the second half of this file.
"""
import ast
import asyncio
import inspect
import textwrap

from bumble import controller as _controller
from bumble import hci
from bumble import host as _host
from pyvc import ext_c03  # noqa: F401  (skeleton-profile extensions, see the module docstring)
from pyvc.contracts import (Any, Bool, Callback, Const, Inst, Int, IntRange, OneOf, Opaque, Opt, Str, contract, iff,
                            implies, lemma, model)

ENVIRONMENT = [
    'C03 controller side is proved in the skeleton profile: the reply count is exact on every path through the '
    'handlers, but an exception raised inside an unmodelled callee (link, LMP/LL sends, connection tables, '
    'AdvertisingSet.start/stop, on_classic_*/on_le_* completion helpers) is not a path of the proof',
    'C03 side condition checked mechanically at import (syntactic call-graph pass over bumble/controller.py): '
    'Command Complete / Command Status events are constructed only in Controller.on_hci_command_packet and '
    'Controller._send_hci_command_status, and _send_hci_command_status is called only from on_hci_*_command handlers, '
    'all of which are under contract; hence no unmodelled callee can emit a reply',
    'C03: a command handler is found by getattr on the class; instance attributes named on_hci_*_command added at run '
    'time are not considered',
    'C03: for an op-code with neither a registered class nor a name, HCI_Command.command_name() returns '
    '"[OGF=0x.., OCF=0x....]"; that no such string (lower-cased, prefixed with on_) is an attribute of Controller is '
    'checked by exhaustive native evaluation over all 65536 op-codes at import, not by the prover',
    'C03: delivery between controller and host (asyncio call_soon FIFO order, transports) and the re-entrancy of '
    'host.on_packet are environment; Controller.send_hci_packet with no host attached drops the packet (nobody waits)',
    'C03 not reachable by contracts: FIFO fairness of asyncio.Semaphore among concurrent callers of Host._send_command '
    '(that the waiter woken by release() is the oldest one) and liveness of procedures the controller accepted as '
    'pending (completion events come from the link / peer / timers); only per-call safety is proved',
]

Controller = _controller.Controller
REPLY_CLASSES = (hci.HCI_Command_Complete_Event, hci.HCI_Command_Status_Event)


# ---------------------------------------------------------------------------
# reflection: handlers, command classes, side conditions
# ---------------------------------------------------------------------------
def is_handler_name(n):
    return n.startswith('on_hci_') and n.endswith('_command')


HANDLERS = sorted(n for n in dir(Controller) if is_handler_name(n) and inspect.isfunction(getattr(Controller, n)))
COMMAND_CLASSES = dict(sorted(hci.HCI_Command.command_classes.items()))
COMMAND_NAMES = dict(sorted(hci.HCI_Command.command_names.items()))
HANDLER_CLASS = {}  # handler name -> command class it serves
for _op, _cls in COMMAND_CLASSES.items():
    HANDLER_CLASS['on_' + _cls.name.lower()] = _cls
NAMED_WITHOUT_CLASS = {op: n for op, n in COMMAND_NAMES.items() if op not in COMMAND_CLASSES}
KNOWN_OPCODES = tuple(sorted(set(COMMAND_CLASSES) | set(COMMAND_NAMES)))


def kind_of_class(cls):
    """'sync' / 'async' from the real class hierarchy; a plain HCI_Command (unknown op-code) has no declared kind"""
    if issubclass(cls, hci.HCI_SyncCommand):
        return 'sync'
    if issubclass(cls, hci.HCI_AsyncCommand):
        return 'async'
    return 'generic'


def _side_conditions():
    """the soundness side condition of the skeleton profile (DESIGN 1.8c) for the effect 'a reply is emitted'"""
    src = inspect.getsource(_controller)
    tree = ast.parse(src)
    allowed_ctor = {'Controller.on_hci_command_packet', 'Controller._send_hci_command_status'}
    problems = []

    def visit(node, qual):
        for child in ast.iter_child_nodes(node):
            q = qual
            if isinstance(child, (ast.FunctionDef, ast.AsyncFunctionDef, ast.ClassDef)):
                q = (qual + '.' if qual else '') + child.name
            if isinstance(child, ast.Call):
                f = child.func
                name = f.attr if isinstance(f, ast.Attribute) else getattr(f, 'id', None)
                top2 = '.'.join(qual.split('.')[:2])
                if name in ('HCI_Command_Complete_Event', 'HCI_Command_Status_Event') and top2 not in allowed_ctor:
                    problems.append(f'{qual}: constructs {name}')
                if name == '_send_hci_command_status':
                    parts = qual.split('.')
                    if not (len(parts) >= 2 and parts[0] == 'Controller' and is_handler_name(parts[1])):
                        problems.append(f'{qual}: calls _send_hci_command_status outside a command handler')
                if name is not None and is_handler_name(name) and qual.split('.')[:2] != ['Controller', 'on_hci_command_packet']:
                    problems.append(f'{qual}: calls the handler {name} directly')
            # references that could alias the reply primitives
            if isinstance(child, ast.Attribute) and child.attr == '_send_hci_command_status' and not isinstance(getattr(child, 'ctx', None), ast.Load):
                problems.append(f'{qual}: rebinds _send_hci_command_status')
            visit(child, q)

    visit(tree, '')
    # every handler is a plain method of Controller defined in controller.py (so it is one of the contracts below)
    for h in HANDLERS:
        owner = next(k for k in Controller.__mro__ if h in k.__dict__)
        if owner is not Controller:
            problems.append(f'handler {h} is inherited from {owner.__name__}')
    # op-codes without class and without name: the computed handler name is never an attribute of Controller
    for op in range(0x10000):
        if op in COMMAND_CLASSES or op in COMMAND_NAMES:
            continue
        if hasattr(Controller, 'on_' + hci.HCI_Command.command_name(op).lower()):
            problems.append(f'op-code {op:#06x} without class/name resolves to a Controller attribute')
    if problems:
        raise AssertionError('C03 side conditions violated:\n  ' + '\n  '.join(problems))


_side_conditions()


# ---------------------------------------------------------------------------
# models
# ---------------------------------------------------------------------------
def is_reply(packet):
    return isinstance(packet, REPLY_CLASSES)


def ctl_send(ghost, packet):
    """ghost effect of Controller.send_hci_packet: count the Command Complete / Command Status events that leave the
    controller and remember the opcode the last one answers"""
    r = is_reply(packet)
    ghost.replies = ghost.replies + (1 if r else 0)
    ghost.last_op = packet.command_opcode if r else ghost.last_op


CTL_GHOST = dict(replies=Int, last_op=Int)
CTL_MOD = ['ghost.replies', 'ghost.last_op']


def class_data_attributes(cls):
    """names of class-level data attributes (defaults such as `pending_le_connection = None`): an instance attribute
    of the same name shadows them at run time, so in the pre-state they are arbitrary, not the class default"""
    out = []
    for k in cls.__mro__:
        if k is object:
            continue
        for n, v in k.__dict__.items():
            if n.startswith('__') or callable(v) or isinstance(v, (property, classmethod, staticmethod)) or hasattr(v, '__get__'):
                continue
            out.append(n)
    return sorted(set(out))


# every CIS link the controller created for an incoming request carries its ACL connection (see ENVIRONMENT)
model('bumble.controller:CisLink#peripheral', fields=dict(acl_connection=Inst('ghost:AclConnection'), cig_id=Any, cis_id=Any, handle=Any))
model('ghost:AclConnection', fields={}, methods={'send_ll_control_pdu': Callback('send_ll_control_pdu')})
model('ghost:PeripheralCisTable', fields={}, methods={'get': Callback('get', returns=Opt(Inst('bumble.controller:CisLink#peripheral')))})

CTRL_FIELDS = {n: Any for n in class_data_attributes(Controller)}
CTRL_FIELDS['link'] = Opt(Opaque('link'))
CTRL_FIELDS['peripheral_cis_links'] = Inst('ghost:PeripheralCisTable')
model(
    'bumble.controller:Controller',
    fields=CTRL_FIELDS,
    methods={'send_hci_packet': Callback('send_hci_packet', effect=ctl_send)},
)
CTRL = Inst('bumble.controller:Controller')


def int_range(size):
    if size in (1, 2, 3, 4):
        return IntRange(0, (1 << (8 * size)) - 1)
    if size in (-1, -2):
        return IntRange(-(1 << (-8 * size - 1)), (1 << (-8 * size - 1)) - 1)
    return None


def field_type(spec):
    """pre-state type of a command field from its HCI field spec (HCI_Object.parse_field): 1/2/3/4 are unsigned
    little-endian integers, -1/-2 signed; everything else (byte arrays, addresses, lists, enum-parsed values) is
    uninterpreted"""
    if isinstance(spec, dict) and 'size' in spec:
        spec = spec['size']
    if isinstance(spec, int) and not isinstance(spec, bool):
        return int_range(spec) or Any
    return Any


def command_model(cls):
    name = f'{cls.__module__}:{cls.__qualname__}#c03'  # vendor commands of bumble.drivers.* register themselves too
    fields = {}
    for f in cls.fields:
        if isinstance(f, tuple) and len(f) == 2 and isinstance(f[0], str):
            fields[f[0]] = field_type(f[1])
        elif isinstance(f, list):
            for sub in f:
                fields[sub[0]] = Any  # array fields: uninterpreted lists
    model(name, fields=fields)
    return Inst(name)


COMMAND_INST = {cls: command_model(cls) for cls in COMMAND_CLASSES.values()}

# a generic HCI_Command instance (no registered class)
model('bumble.hci:HCI_Command#named', fields=dict(op_code=Int, name=Str))


def generic_command(op_code, name):
    """a plain HCI_Command instance (Inst(...) cannot take a field called `name` as keyword)"""
    inst = Inst('bumble.hci:HCI_Command#named')
    inst.overrides = dict(op_code=op_code, name=name)
    return inst


def loops_of(fn):
    node = ast.parse(textwrap.dedent(inspect.getsource(fn))).body[0]
    return sum(1 for x in ast.walk(node) if isinstance(x, (ast.For, ast.While, ast.AsyncFor)))


def unchanged_inv(ghost, old):
    return [ghost.replies == old.ghost.replies, ghost.last_op == old.ghost.last_op]


def link_attached(self):
    """representation invariant of Controller: `link` is set by __init__ (`link or LocalLink()`), never reassigned"""
    return [self.link is not None]


# ---------------------------------------------------------------------------
# handlers
# ---------------------------------------------------------------------------
def sync_post(res, ghost, old):
    """handler of an HCI_SyncCommand class: hands return parameters to on_hci_command_packet, sends no reply itself"""
    return [res is not None, ghost.replies == old.ghost.replies]


def async_post_for(op):
    """handler of an HCI_AsyncCommand class: exactly one Command Status, for this command's opcode"""
    return lambda res, ghost, old: [res is None, ghost.replies == old.ghost.replies + 1, ghost.last_op == op]


SYNC_NAMES = ['returns-parameters', 'no-reply-by-handler']
ASYNC_NAMES = ['returns-none', 'exactly-one-status', 'status-carries-the-opcode']
# local containers mutated inside a loop need a declared type (uninterpreted here)
HANDLER_LOOP_LOCALS = {'on_hci_le_set_cig_parameters_command': {1: {'handles': Any}}}

HANDLER_KEY = {}
for _h in HANDLERS:
    if _h == 'on_hci_command':
        continue
    _cls = HANDLER_CLASS.get(_h)
    if _cls is None:
        raise AssertionError(f'C03: handler {_h} serves no registered command class')
    _kind = kind_of_class(_cls)
    _fn = getattr(Controller, _h)
    _pname = list(inspect.signature(_fn).parameters)[1]
    _key = f'bumble.controller:Controller.{_h}'
    HANDLER_KEY[_h] = _key
    contract(
        _key,
        prop='C03',
        profile='skeleton',
        params={'self': CTRL, _pname: COMMAND_INST[_cls]},
        ghost=CTL_GHOST,
        requires=link_attached,
        ensures=sync_post if _kind == 'sync' else async_post_for(_cls.op_code),
        ensures_names=SYNC_NAMES if _kind == 'sync' else ASYNC_NAMES,
        modifies=CTL_MOD,
        returns=Opt(Opaque('rp')),
        # no reply is emitted inside a loop that goes on (a loop that replies returns right after)
        invariants={i: unchanged_inv for i in range(loops_of(_fn))},
        loop_locals=HANDLER_LOOP_LOCALS.get(_h, {}),
        inline=['Controller._send_hci_command_status'],
        note=f'{_kind} command class {_cls.__name__}',
    )

contract(
    'bumble.controller:Controller._send_hci_command_status',
    prop='C03',
    profile='skeleton',
    params=dict(self=CTRL, status=IntRange(0, 255), op_code=IntRange(0, 0xFFFF)),
    ghost=CTL_GHOST,
    ensures=lambda op_code, ghost, old: [ghost.replies == old.ghost.replies + 1, ghost.last_op == op_code],
    ensures_names=['one-status', 'for-the-given-opcode'],
    modifies=CTL_MOD,
)


# ---------------------------------------------------------------------------
# Controller.__init__ establishes the invariant the handlers rely on
# ---------------------------------------------------------------------------
model('bumble.controller:Controller#new', fields={})
contract(
    'bumble.controller:Controller.__init__',
    prop='C03',
    profile='skeleton',
    params=dict(self=Inst('bumble.controller:Controller#new'), name=Str, host_source=Any, host_sink=Any, link=Opt(Opaque('link')), public_address=Any),
    ensures=lambda self: [self.link is not None],
    ensures_names=['link-attached'],
    modifies=['self.*'],
)


# ---------------------------------------------------------------------------
# Controller.send_hci_packet: one delivery to the host per packet
# ---------------------------------------------------------------------------
def loop_call_soon(ghost, callback, data):
    ghost.scheduled = ghost.scheduled + 1


model('ghost:Loop#c03', fields={}, methods={'call_soon': Callback('call_soon', effect=loop_call_soon)})
model('ghost:HostSink', fields={}, methods={'on_packet': Callback('on_packet')})
model('bumble.controller:Controller#tx', fields=dict(host=Opt(Inst('ghost:HostSink')), name=Str))

contract(
    'bumble.controller:Controller.send_hci_packet',
    prop='C03',
    profile='skeleton',
    params=dict(self=Inst('bumble.controller:Controller#tx'), packet=Any),
    ghost=dict(scheduled=Int, loop=Inst('ghost:Loop#c03')),
    ensures=lambda self, ghost, old: [ghost.scheduled == old.ghost.scheduled + (1 if self.host is not None else 0)],
    ensures_names=['one-delivery-scheduled-iff-host-attached'],
    modifies=['ghost.scheduled'],
    stubs={asyncio.get_running_loop: Callback('get_running_loop', effect=lambda ghost: ghost.loop)},
)


# ---------------------------------------------------------------------------
# Controller.on_hci_command_packet: every registered command class, every named op-code, any other op-code
# ---------------------------------------------------------------------------
def packet_post(command, ghost, old):
    """exactly one Command Complete / Command Status leaves the controller and it carries the command's opcode"""
    return [ghost.replies == old.ghost.replies + 1, ghost.last_op == command.op_code]


PACKET_NAMES = ['exactly-one-reply', 'reply-carries-the-opcode']
PACKET_TARGET = 'bumble.controller:Controller.on_hci_command_packet'
PACKET_COMMON = dict(
    prop='C03',
    profile='skeleton',
    ghost=CTL_GHOST,
    requires=link_attached,
    ensures=packet_post,
    ensures_names=PACKET_NAMES,
    modifies=CTL_MOD,
    fstrings='eval',
)

for _kind in ('sync', 'async'):
    _with = [c for c in COMMAND_CLASSES.values() if kind_of_class(c) == _kind and 'on_' + c.name.lower() in HANDLER_KEY]
    _without = [c for c in COMMAND_CLASSES.values() if kind_of_class(c) == _kind and 'on_' + c.name.lower() not in HANDLER_KEY]
    contract(
        PACKET_TARGET,
        key=f'{PACKET_TARGET}@{_kind}-classes-with-handler',
        params=dict(self=CTRL, command=OneOf(*[COMMAND_INST[c] for c in _with])),
        uses=[HANDLER_KEY['on_' + c.name.lower()] for c in _with],
        note=f'{len(_with)} registered {_kind} command classes, each dispatched to its handler (used through its contract)',
        **PACKET_COMMON,
    )
    contract(
        PACKET_TARGET,
        key=f'{PACKET_TARGET}@{_kind}-classes-without-handler',
        params=dict(self=CTRL, command=OneOf(*[COMMAND_INST[c] for c in _without])),
        inline=['Controller.on_hci_command', 'Controller._send_hci_command_status'],
        note=f'{len(_without)} registered {_kind} command classes without handler: the real default handler, inlined',
        **PACKET_COMMON,
    )
if any(kind_of_class(c) == 'generic' for c in COMMAND_CLASSES.values()):
    raise AssertionError('C03: a registered command class is neither sync nor async')

contract(
    PACKET_TARGET,
    key=f'{PACKET_TARGET}@named-opcodes-without-class',
    params=dict(self=CTRL, command=OneOf(*[generic_command(Const(op), Const(n)) for op, n in NAMED_WITHOUT_CLASS.items()])),
    inline=['Controller.on_hci_command', 'Controller._send_hci_command_status'],
    note=f'generic HCI_Command for each of the {len(NAMED_WITHOUT_CLASS)} op-codes that have a name but no registered class',
    **PACKET_COMMON,
)

contract(
    PACKET_TARGET,
    key=f'{PACKET_TARGET}@unknown-opcode',
    params=dict(self=CTRL, command=generic_command(IntRange(0, 0xFFFF), Const('[OGF=0x??, OCF=0x????]'))),
    inline=['Controller.on_hci_command', 'Controller._send_hci_command_status'],
    note='generic HCI_Command, any op-code with neither class nor name (name string: see ENVIRONMENT)',
    **dict(PACKET_COMMON, requires=lambda self, command: [self.link is not None, command.op_code not in KNOWN_OPCODES]),
)
