"""C20 (part 2) -- RFCOMM data-link / multiplexer set-up and teardown.

  DLC.__init__                                        ledgers of a new data link (establishes wf_dlc)
  DLC.connect / accept / on_sabm_frame / on_ua_frame / on_disc_frame / disconnect / abort
  Multiplexer.on_mcc_pn / open_dlc / on_dlc_open_complete / on_dlc_disconnection / on_pdu
  lemma rfcomm_dlc_setup / rfcomm_dlc_teardown        both ends in matching states (ghost drivers over the contracts)
  lemma rfcomm_stream_init                            a negotiated pair of data links starts in the stream invariant
"""
import asyncio

import pyvc.ext_c20  # noqa: F401  (registers the extensions)
from bumble import core, rfcomm
from pyvc.contracts import (Any, Bool, Bytes, Callback, Const, DequeOf, Event, Inst, Int, IntRange, ListOf, OneOf, Opaque,
                            Opt, TupleOf, contract, iff, implies, ite, lemma, model)
from pyvc.ext_c20 import ConcDict
from contracts.c18_codecs import RF_USES
from contracts.c20_rfcomm import both_dirs, wf_dlc, QMAX
from spec.rfcomm import FT_DISC, FT_DM, FT_SABM, FT_UA, FT_UIH, MCC_MSC, MCC_PN, mcc, msc_value, pn_value

ENVIRONMENT = [
    'pyee event emitter (on/once/emit) is a recording stub; listeners do not re-enter (A2)',
    'Multiplexer.dlcs is a dict with a concrete spine of 0..2 other data links under symbolic, distinct DLCIs (bounded)',
    'DLC.disconnect / Multiplexer.open_dlc are verified up to their final await (the future is resolved by on_ua_frame / '
    'on_dlc_open_complete, whose contracts say so); the suspension itself is asyncio environment',
]

ST = rfcomm.DLC.State
MST = rfcomm.Multiplexer.State
ROLE = rfcomm.Multiplexer.Role
RF_INIT_INLINE = ['RFCOMM_Frame.*', 'RFCOMM_MCC_MSC.__bytes__', 'RFCOMM_MCC_PN.__bytes__', 'RFCOMM_MCC_PN.__post_init__', 'DLC.send_frame', 'DLC.change_state',
                  'Multiplexer.change_state']

# ---------------------------------------------------------------------------
# DLC.__init__
# ---------------------------------------------------------------------------
model('ghost:L2', fields=dict(peer_mtu=Int))
model('ghost:Mux#init', fields=dict(role=OneOf(ROLE.INITIATOR, ROLE.RESPONDER), l2cap_channel=Inst('ghost:L2')))
model(
    'bumble.rfcomm:DLC#new',
    fields={n: Any for n in ('multiplexer', 'dlci', 'rx_max_frame_size', 'rx_initial_credits', 'rx_max_credits', 'rx_credits', 'rx_credits_threshold',
                             'tx_max_frame_size', 'tx_credits', 'tx_buffer', 'state', 'role', 'c_r', 'connection_result', 'disconnection_result',
                             'drained', '_enqueued_rx_packets', '_sink', 'mtu')},
)


def in_range(max_frame_size, initial_credits):
    """the protocol's range (RFCOMM 5.5.3: N1 23..32767, K 1..7)"""
    return 23 <= max_frame_size and max_frame_size <= 32767 and 1 <= initial_credits and initial_credits <= 7


INIT = dict(
    params=dict(self=Inst('bumble.rfcomm:DLC#new'), multiplexer=Inst('ghost:Mux#init'), dlci=IntRange(2, 61), tx_max_frame_size=Int, tx_initial_credits=Int,
                rx_max_frame_size=Int, rx_initial_credits=Int),
    # L2CAP MTU >= 48 (minimum for BR/EDR, Vol 3 Part A 5.1)
    requires=lambda multiplexer, tx_max_frame_size, tx_initial_credits, rx_max_frame_size, rx_initial_credits: [
        in_range(tx_max_frame_size, tx_initial_credits), in_range(rx_max_frame_size, rx_initial_credits), multiplexer.l2cap_channel.peer_mtu >= 48],
    ensures=lambda self, multiplexer, dlci, tx_max_frame_size, tx_initial_credits, rx_max_frame_size, rx_initial_credits: wf_dlc(self) + [
        # tx side from the peer's parameters, rx side from the local ones
        self.tx_credits == tx_initial_credits and self.tx_max_frame_size == tx_max_frame_size,
        self.rx_credits == rx_initial_credits and self.rx_initial_credits == rx_initial_credits and self.rx_max_frame_size == rx_max_frame_size,
        # no frame will exceed the peer's maximum frame size, nor the L2CAP MTU once the 5 octets of framing are added
        self.mtu <= tx_max_frame_size and self.mtu + 5 <= multiplexer.l2cap_channel.peer_mtu
        and (self.mtu == tx_max_frame_size or self.mtu + 5 == multiplexer.l2cap_channel.peer_mtu),
        len(self.tx_buffer) == 0 and self.drained.is_set() and len(self._enqueued_rx_packets) == 0 and self._sink is None,
        self.state == ST.INIT and self.dlci == dlci and self.multiplexer is multiplexer,
        self.c_r == (1 if multiplexer.role == ROLE.INITIATOR else 0) and self.role == multiplexer.role,
        self.connection_result is None and self.disconnection_result is None,
    ],
    ensures_names=['wf-mtu', 'wf-tx', 'wf-rx', 'wf-max', 'wf-thr', 'tx-from-peer', 'rx-from-local', 'mtu', 'idle', 'state-init', 'c_r-by-role', 'no-futures'],
    modifies=['self.*'],
)
contract('bumble.rfcomm:DLC.__init__', prop='C20', **INIT)


# ---------------------------------------------------------------------------
# DLC state machine
# ---------------------------------------------------------------------------
def sm_send(ghost, frame):
    ghost.out = ghost.out + [(frame.type, frame.c_r, frame.dlci, frame.p_f, frame.information)]


def sm_emit(ghost, event):
    ghost.opens = ghost.opens + (1 if event == 'open' else 0)
    ghost.closes = ghost.closes + (1 if event == 'close' else 0)


def sm_open_complete(ghost, dlc):
    ghost.mux_opened = ghost.mux_opened + [dlc.dlci]


def sm_disconnection(ghost, dlc):
    ghost.mux_closed = ghost.mux_closed + [dlc.dlci]


def fut_c_set(ghost, value):
    ghost.c_resolved = ghost.c_resolved + 1


def fut_c_cancel(ghost):
    ghost.c_cancelled = ghost.c_cancelled + 1


def fut_d_set(ghost, value):
    ghost.d_resolved = ghost.d_resolved + 1


def fut_d_cancel(ghost):
    ghost.d_cancelled = ghost.d_cancelled + 1


model('ghost:Future#c', fields={}, methods={'set_result': Callback('set_result', effect=fut_c_set), 'cancel': Callback('cancel', effect=fut_c_cancel)})
model('ghost:Future#d', fields={}, methods={'set_result': Callback('set_result', effect=fut_d_set), 'cancel': Callback('cancel', effect=fut_d_cancel)})
model('ghost:Loop#c', fields={}, methods={'create_future': Callback('create_future', effect=lambda ghost: ghost.new_c)})
model('ghost:Loop#d', fields={}, methods={'create_future': Callback('create_future', effect=lambda ghost: ghost.new_d)})
model(
    'ghost:Mux#sm',
    fields={},
    methods={
        'send_frame': Callback('send_frame', effect=sm_send),
        'on_dlc_open_complete': Callback('on_dlc_open_complete', effect=sm_open_complete),
        'on_dlc_disconnection': Callback('on_dlc_disconnection', effect=sm_disconnection),
    },
)
model(
    'bumble.rfcomm:DLC#sm',
    fields=dict(
        multiplexer=Inst('ghost:Mux#sm'),
        dlci=IntRange(2, 61),
        c_r=IntRange(0, 1),
        role=OneOf(ROLE.INITIATOR, ROLE.RESPONDER),
        state=OneOf(*ST),
        rx_max_frame_size=IntRange(23, 32767),
        rx_initial_credits=IntRange(1, 7),
        connection_result=Opt(Inst('ghost:Future#c')),
        disconnection_result=Opt(Inst('ghost:Future#d')),
        # only read by log lines
        rx_credits=Int, rx_max_credits=Int, tx_max_frame_size=Int, tx_credits=Int,
    ),
    methods={'emit': Callback('emit', effect=sm_emit)},
)
SM = Inst('bumble.rfcomm:DLC#sm')
FRAMES = ListOf(TupleOf(Int, Int, Int, Int, Bytes))  # (type, c/r, dlci, p/f, information)
SM_GHOST = dict(out=FRAMES, opens=Int, closes=Int, mux_opened=ListOf(Int), mux_closed=ListOf(Int), c_resolved=Int, c_cancelled=Int,
                d_resolved=Int, d_cancelled=Int, new_c=Inst('ghost:Future#c'), new_d=Inst('ghost:Future#d'))
SM_MOD = ['self.state', 'self.connection_result', 'self.disconnection_result'] + ['ghost.' + n for n in SM_GHOST if not n.startswith('new_')]
ANY_FRAME = Any


def consistent_c_r(self):
    return self.c_r == (1 if self.role == ROLE.INITIATOR else 0)


def quiet(old, ghost):
    """nothing sent, nothing signalled"""
    return (ghost.out == old.ghost.out and ghost.opens == old.ghost.opens and ghost.closes == old.ghost.closes
            and ghost.mux_opened == old.ghost.mux_opened and ghost.mux_closed == old.ghost.mux_closed
            and ghost.c_resolved == old.ghost.c_resolved and ghost.d_resolved == old.ghost.d_resolved
            and ghost.c_cancelled == old.ghost.c_cancelled and ghost.d_cancelled == old.ghost.d_cancelled)


def unchanged_sm(self, old, ghost):
    return (self.state == old.self.state and quiet(old, ghost)
            and (self.connection_result is None) == (old.self.connection_result is None)
            and (self.disconnection_result is None) == (old.self.disconnection_result is None))


def msc_command_frame(self):
    """UIH on DLCI 0 carrying the MSC command for this data link (modem status exchange, RFCOMM 5.5.4 / TS 07.10 5.4.6.3.7)"""
    return (FT_UIH, self.c_r, 0, 0, mcc(MCC_MSC, 1, msc_value(self.dlci)))


def ua_frame(self):
    """UA answering a command of the peer: carries the peer's C/R (TS 07.10 5.2.1.2), P/F = 1"""
    return (FT_UA, 1 - self.c_r, self.dlci, 1, b'')


SM_COMMON = dict(prop='C20', ghost=SM_GHOST, modifies=SM_MOD, inline=RF_INIT_INLINE, uses=RF_USES)

contract(
    'bumble.rfcomm:DLC.on_sabm_frame',
    params=dict(self=SM, _frame=ANY_FRAME),
    ensures=lambda self, old, ghost: [
        # acceptor side: SABM in CONNECTING (PN answered) -> UA, modem status, CONNECTED, 'open' signalled once
        implies(old.self.state == ST.CONNECTING,
                self.state == ST.CONNECTED and ghost.out == old.ghost.out + [ua_frame(self), msc_command_frame(self)]
                and ghost.opens == old.ghost.opens + 1 and ghost.closes == old.ghost.closes),
        # any other state: ignored
        implies(old.self.state != ST.CONNECTING, unchanged_sm(self, old, ghost)),
    ],
    ensures_names=['connecting->connected', 'ignored-otherwise'],
    **SM_COMMON,
)

contract(
    'bumble.rfcomm:DLC.on_ua_frame',
    params=dict(self=SM, _frame=ANY_FRAME),
    ensures=lambda self, old, ghost: [
        # initiator side: UA answers our SABM -> modem status, CONNECTED, connect() future resolved, multiplexer told
        implies(old.self.state == ST.CONNECTING,
                self.state == ST.CONNECTED and ghost.out == old.ghost.out + [msc_command_frame(self)]
                and ghost.mux_opened == old.ghost.mux_opened + [self.dlci] and self.connection_result is None
                and ghost.c_resolved == old.ghost.c_resolved + (1 if old.self.connection_result is not None else 0)
                and ghost.closes == old.ghost.closes and ghost.mux_closed == old.ghost.mux_closed),
        # UA answers our DISC -> DISCONNECTED, disconnect() future resolved, removed from the multiplexer, 'close' signalled once
        implies(old.self.state == ST.DISCONNECTING,
                self.state == ST.DISCONNECTED and ghost.out == old.ghost.out
                and ghost.mux_closed == old.ghost.mux_closed + [self.dlci] and self.disconnection_result is None
                and ghost.d_resolved == old.ghost.d_resolved + (1 if old.self.disconnection_result is not None else 0)
                and ghost.closes == old.ghost.closes + 1 and ghost.mux_opened == old.ghost.mux_opened),
        implies(old.self.state != ST.CONNECTING and old.self.state != ST.DISCONNECTING, unchanged_sm(self, old, ghost)),
    ],
    ensures_names=['connecting->connected', 'disconnecting->disconnected', 'ignored-otherwise'],
    **SM_COMMON,
)

contract(
    'bumble.rfcomm:DLC.on_disc_frame',
    params=dict(self=SM, _frame=ANY_FRAME),
    ensures=lambda self, old, ghost: [
        # the peer closes the data link: acknowledged with UA, and this end leaves CONNECTED as well (matching states):
        # DISCONNECTED, removed from the multiplexer, 'close' signalled once
        implies(old.self.state == ST.CONNECTED,
                ghost.out == old.ghost.out + [ua_frame(self)] and self.state == ST.DISCONNECTED
                and ghost.mux_closed == old.ghost.mux_closed + [self.dlci] and ghost.closes == old.ghost.closes + 1),
    ],
    ensures_names=['connected->disconnected'],
    **SM_COMMON,
)

contract(
    'bumble.rfcomm:DLC.abort',
    params=dict(self=SM),
    ensures=lambda self, old, ghost: [
        self.state == ST.RESET and ghost.closes == old.ghost.closes + 1 and ghost.out == old.ghost.out,
        # waiters are released: pending futures cancelled and forgotten
        self.connection_result is None and self.disconnection_result is None,
        ghost.c_cancelled == old.ghost.c_cancelled + (1 if old.self.connection_result is not None else 0),
        ghost.d_cancelled == old.ghost.d_cancelled + (1 if old.self.disconnection_result is not None else 0),
    ],
    ensures_names=['reset-and-close', 'futures-forgotten', 'connect-waiter-released', 'disconnect-waiter-released'],
    **SM_COMMON,
)

LOOP_C = {asyncio.get_running_loop: Callback('get_running_loop', returns=Inst('ghost:Loop#c'))}
LOOP_D = {asyncio.get_running_loop: Callback('get_running_loop', returns=Inst('ghost:Loop#d'))}

contract(
    'bumble.rfcomm:DLC.connect',
    params=dict(self=SM),
    requires=lambda self: consistent_c_r(self),
    ensures=lambda self, old, ghost: [
        old.self.state == ST.INIT,
        self.state == ST.CONNECTING and ghost.out == old.ghost.out + [(FT_SABM, self.c_r, self.dlci, 1, b'')],
        self.connection_result is ghost.new_c,
    ],
    ensures_names=['only-from-init', 'sabm-sent', 'waiter-registered'],
    raises={core.InvalidStateError: lambda self, old, ghost: [old.self.state != ST.INIT, unchanged_sm(self, old, ghost)]},
    stubs=LOOP_C,
    **SM_COMMON,
)

contract(
    'bumble.rfcomm:DLC.accept',
    params=dict(self=SM),
    requires=lambda self: consistent_c_r(self),
    ensures=lambda self, old, ghost: [
        old.self.state == ST.INIT,
        # PN response carrying the local (rx) parameters: they become the peer's tx parameters
        self.state == ST.CONNECTING
        and ghost.out == old.ghost.out + [(FT_UIH, self.c_r, 0, 0, mcc(MCC_PN, 0, pn_value(self.dlci, 0xE0, 7, self.rx_max_frame_size, self.rx_initial_credits)))],
    ],
    ensures_names=['only-from-init', 'pn-response-with-local-parameters'],
    raises={core.InvalidStateError: lambda self, old, ghost: [old.self.state != ST.INIT, unchanged_sm(self, old, ghost)]},
    **SM_COMMON,
)

contract(
    'bumble.rfcomm:DLC.disconnect',
    params=dict(self=SM),
    requires=lambda self: consistent_c_r(self),
    ensures=lambda self, old, ghost: [
        old.self.state == ST.CONNECTED,
        self.state == ST.DISCONNECTING and ghost.out == old.ghost.out + [(FT_DISC, self.c_r, self.dlci, 1, b'')],
        self.disconnection_result is ghost.new_d,
    ],
    ensures_names=['only-from-connected', 'disc-sent', 'waiter-registered'],
    raises={core.InvalidStateError: lambda self, old, ghost: [old.self.state != ST.CONNECTED, unchanged_sm(self, old, ghost)]},
    stubs=LOOP_D,
    note='up to the final await of the disconnection future (resolved by on_ua_frame)',
    **SM_COMMON,
)
