"""C20 (part 2) -- RFCOMM data-link / multiplexer set-up and teardown.

  DLC.__init__                                        ledgers of a new data link (establishes wf_dlc)
  DLC.connect / accept / on_sabm_frame / on_ua_frame / on_disc_frame / disconnect / abort
  Multiplexer.on_mcc_pn / open_dlc / on_dlc_open_complete / on_dlc_disconnection / on_pdu
  lemma rfcomm_dlc_setup / rfcomm_dlc_teardown        both ends in matching states (ghost drivers over the contracts)
  lemma rfcomm_stream_init                            a negotiated pair of data links starts in the stream invariant
"""
import asyncio

import pyvc.ext_c20  # noqa: F401  (registers the extensions)
from bumble import core, rfcomm
from pyvc.contracts import (Any, Bool, Bytes, Callback, Const, DequeOf, Event, Inst, Int, IntRange, ListOf, OneOf, Opaque,
                            Opt, TupleOf, contract, iff, implies, ite, lemma, model)
from pyvc.ext_c20 import ConcDict
from contracts.c18_codecs import RF_USES
from contracts.c20_rfcomm import both_dirs, dir_inv, wf_dlc, QMAX, WF_NAMES
from spec.rfcomm import FT_DISC, FT_DM, FT_SABM, FT_UA, FT_UIH, MCC_MSC, MCC_PN, mcc, msc_value, pn_value

ENVIRONMENT = [
    'pyee event emitter (on/once/emit) is a recording stub; listeners do not re-enter (A2)',
    'Multiplexer.dlcs is a dict with a concrete spine of 0..1 (on_pdu: 0..2) other data links under symbolic, distinct DLCIs (bounded)',
    'Multiplexer.on_pdu: RFCOMM_Frame.from_bytes is replaced by a stub returning an arbitrary frame or raising (the codec is C18)',
    'DLC.disconnect / Multiplexer.open_dlc are verified up to their final await (the future is resolved by on_ua_frame / '
    'on_dlc_open_complete, whose contracts say so); the suspension itself is asyncio environment',
]

ST = rfcomm.DLC.State
MST = rfcomm.Multiplexer.State
ROLE = rfcomm.Multiplexer.Role
RF_INIT_INLINE = ['RFCOMM_Frame.*', 'RFCOMM_MCC_MSC.__bytes__', 'RFCOMM_MCC_PN.__bytes__', 'RFCOMM_MCC_PN.__post_init__', 'DLC.send_frame', 'DLC.change_state',
                  'Multiplexer.change_state']

# ---------------------------------------------------------------------------
# DLC.__init__
# ---------------------------------------------------------------------------
model('ghost:L2', fields=dict(peer_mtu=Int))
model('ghost:Mux#init', fields=dict(role=OneOf(ROLE.INITIATOR, ROLE.RESPONDER), l2cap_channel=Inst('ghost:L2')))
model(
    'bumble.rfcomm:DLC#new',
    fields={n: Any for n in ('multiplexer', 'dlci', 'rx_max_frame_size', 'rx_initial_credits', 'rx_max_credits', 'rx_credits', 'rx_credits_threshold',
                             'tx_max_frame_size', 'tx_credits', 'tx_buffer', 'state', 'role', 'c_r', 'connection_result', 'disconnection_result',
                             'drained', '_enqueued_rx_packets', '_sink', 'mtu')},
)


def in_range(max_frame_size, initial_credits):
    """the protocol's range (RFCOMM 5.5.3: N1 23..32767, K 1..7)"""
    return 23 <= max_frame_size and max_frame_size <= 32767 and 1 <= initial_credits and initial_credits <= 7


INIT = dict(
    params=dict(self=Inst('bumble.rfcomm:DLC#new'), multiplexer=Inst('ghost:Mux#init'), dlci=IntRange(2, 61), tx_max_frame_size=Int, tx_initial_credits=Int,
                rx_max_frame_size=Int, rx_initial_credits=Int),
    # L2CAP MTU >= 48 (minimum for BR/EDR, Vol 3 Part A 5.1)
    requires=lambda multiplexer, tx_max_frame_size, tx_initial_credits, rx_max_frame_size, rx_initial_credits: [
        in_range(tx_max_frame_size, tx_initial_credits), in_range(rx_max_frame_size, rx_initial_credits), multiplexer.l2cap_channel.peer_mtu >= 48],
    ensures=lambda self, multiplexer, dlci, tx_max_frame_size, tx_initial_credits, rx_max_frame_size, rx_initial_credits: wf_dlc(self) + [
        # tx side from the peer's parameters, rx side from the local ones
        self.tx_credits == tx_initial_credits and self.tx_max_frame_size == tx_max_frame_size,
        self.rx_credits == rx_initial_credits and self.rx_initial_credits == rx_initial_credits and self.rx_max_frame_size == rx_max_frame_size,
        # no frame will exceed the peer's maximum frame size, nor the L2CAP MTU once the 5 octets of framing are added
        self.mtu <= tx_max_frame_size and self.mtu + 5 <= multiplexer.l2cap_channel.peer_mtu
        and (self.mtu == tx_max_frame_size or self.mtu + 5 == multiplexer.l2cap_channel.peer_mtu),
        len(self.tx_buffer) == 0 and self.drained.is_set() and len(self._enqueued_rx_packets) == 0 and self._sink is None,
        self.state == ST.INIT and self.dlci == dlci and self.multiplexer is multiplexer,
        self.c_r == (1 if multiplexer.role == ROLE.INITIATOR else 0) and self.role == multiplexer.role,
        self.connection_result is None and self.disconnection_result is None,
    ],
    ensures_names=WF_NAMES + ['tx-from-peer', 'rx-from-local', 'mtu', 'idle', 'state-init', 'c_r-by-role', 'no-futures'],
    modifies=['self.*'],
)
contract('bumble.rfcomm:DLC.__init__', prop='C20', **INIT)


# ---------------------------------------------------------------------------
# DLC state machine
# ---------------------------------------------------------------------------
def sm_send(ghost, frame):
    ghost.out = ghost.out + [(frame.type, frame.c_r, frame.dlci, frame.p_f, frame.information)]


def sm_emit(ghost, event):
    ghost.opens = ghost.opens + (1 if event == 'open' else 0)
    ghost.closes = ghost.closes + (1 if event == 'close' else 0)


def sm_open_complete(ghost, dlc):
    ghost.mux_opened = ghost.mux_opened + [dlc.dlci]


def sm_disconnection(ghost, dlc):
    ghost.mux_closed = ghost.mux_closed + [dlc.dlci]


def fut_c_set(ghost, value):
    ghost.c_resolved = ghost.c_resolved + 1


def fut_c_cancel(ghost):
    ghost.c_cancelled = ghost.c_cancelled + 1


def fut_d_set(ghost, value):
    ghost.d_resolved = ghost.d_resolved + 1


def fut_d_cancel(ghost):
    ghost.d_cancelled = ghost.d_cancelled + 1


model('ghost:Future#c', fields={}, methods={'set_result': Callback('set_result', effect=fut_c_set), 'cancel': Callback('cancel', effect=fut_c_cancel)})
model('ghost:Future#d', fields={}, methods={'set_result': Callback('set_result', effect=fut_d_set), 'cancel': Callback('cancel', effect=fut_d_cancel)})
model('ghost:Loop#c', fields={}, methods={'create_future': Callback('create_future', effect=lambda ghost: ghost.new_c)})
model('ghost:Loop#d', fields={}, methods={'create_future': Callback('create_future', effect=lambda ghost: ghost.new_d)})
model(
    'ghost:Mux#sm',
    fields={},
    methods={
        'send_frame': Callback('send_frame', effect=sm_send),
        'on_dlc_open_complete': Callback('on_dlc_open_complete', effect=sm_open_complete),
        'on_dlc_disconnection': Callback('on_dlc_disconnection', effect=sm_disconnection),
    },
)
model(
    'bumble.rfcomm:DLC#sm',
    fields=dict(
        multiplexer=Inst('ghost:Mux#sm'),
        dlci=IntRange(2, 61),
        c_r=IntRange(0, 1),
        role=IntRange(0, 1),
        state=IntRange(0, 5),
        rx_max_frame_size=IntRange(23, 32767),
        rx_initial_credits=IntRange(1, 7),
        connection_result=Opt(Inst('ghost:Future#c')),
        disconnection_result=Opt(Inst('ghost:Future#d')),
        # only read by log lines
        rx_credits=Int, rx_max_credits=Int, tx_max_frame_size=Int, tx_credits=Int,
    ),
    methods={'emit': Callback('emit', effect=sm_emit)},
)
SM = Inst('bumble.rfcomm:DLC#sm')
FRAMES = ListOf(TupleOf(Int, Int, Int, Int, Bytes))  # (type, c/r, dlci, p/f, information)
SM_GHOST = dict(out=FRAMES, opens=Int, closes=Int, mux_opened=ListOf(Int), mux_closed=ListOf(Int), c_resolved=Int, c_cancelled=Int,
                d_resolved=Int, d_cancelled=Int, new_c=Inst('ghost:Future#c'), new_d=Inst('ghost:Future#d'))
SM_MOD = ['self.state', 'self.connection_result', 'self.disconnection_result'] + ['ghost.' + n for n in SM_GHOST if not n.startswith('new_')]
ANY_FRAME = Any


def consistent_c_r(self):
    return self.c_r == (1 if self.role == ROLE.INITIATOR else 0)


def quiet(old, ghost):
    """nothing sent, nothing signalled"""
    return (ghost.out == old.ghost.out and ghost.opens == old.ghost.opens and ghost.closes == old.ghost.closes
            and ghost.mux_opened == old.ghost.mux_opened and ghost.mux_closed == old.ghost.mux_closed
            and ghost.c_resolved == old.ghost.c_resolved and ghost.d_resolved == old.ghost.d_resolved
            and ghost.c_cancelled == old.ghost.c_cancelled and ghost.d_cancelled == old.ghost.d_cancelled)


def unchanged_sm(self, old, ghost):
    return (self.state == old.self.state and quiet(old, ghost)
            and (self.connection_result is None) == (old.self.connection_result is None)
            and (self.disconnection_result is None) == (old.self.disconnection_result is None))


def msc_command_frame(self):
    """UIH on DLCI 0 carrying the MSC command for this data link (modem status exchange, RFCOMM 5.5.4 / TS 07.10 5.4.6.3.7)"""
    return (FT_UIH, self.c_r, 0, 0, mcc(MCC_MSC, 1, msc_value(self.dlci)))


def ua_frame(self):
    """UA answering a command of the peer: carries the peer's C/R (TS 07.10 5.2.1.2), P/F = 1"""
    return (FT_UA, 1 - self.c_r, self.dlci, 1, b'')


SM_COMMON = dict(prop='C20', ghost=SM_GHOST, inline=RF_INIT_INLINE, uses=RF_USES)


def sm_mod(*names):
    return ['self.' + n if n in ('state', 'connection_result', 'disconnection_result') else 'ghost.' + n for n in names]



contract(
    'bumble.rfcomm:DLC.on_sabm_frame',
    params=dict(self=SM, _frame=ANY_FRAME),
    ensures=lambda self, old, ghost: [
        # acceptor side: SABM in CONNECTING (PN answered) -> UA, modem status, CONNECTED, 'open' signalled once
        implies(old.self.state == ST.CONNECTING,
                self.state == ST.CONNECTED and ghost.out == old.ghost.out + [ua_frame(self), msc_command_frame(self)]
                and ghost.opens == old.ghost.opens + 1 and ghost.closes == old.ghost.closes),
        # any other state: ignored
        implies(old.self.state != ST.CONNECTING, unchanged_sm(self, old, ghost)),
    ],
    ensures_names=['connecting->connected', 'ignored-otherwise'],
    modifies=sm_mod('state', 'out', 'opens'),
    **SM_COMMON,
)

contract(
    'bumble.rfcomm:DLC.on_ua_frame',
    params=dict(self=SM, _frame=ANY_FRAME),
    ensures=lambda self, old, ghost: [
        # initiator side: UA answers our SABM -> modem status, CONNECTED, connect() future resolved, multiplexer told
        implies(old.self.state == ST.CONNECTING,
                self.state == ST.CONNECTED and ghost.out == old.ghost.out + [msc_command_frame(self)]
                and ghost.mux_opened == old.ghost.mux_opened + [self.dlci] and self.connection_result is None
                and ghost.c_resolved == old.ghost.c_resolved + (1 if old.self.connection_result is not None else 0)
                and ghost.closes == old.ghost.closes and ghost.mux_closed == old.ghost.mux_closed),
        # UA answers our DISC -> DISCONNECTED, disconnect() future resolved, removed from the multiplexer, 'close' signalled once
        implies(old.self.state == ST.DISCONNECTING,
                self.state == ST.DISCONNECTED and ghost.out == old.ghost.out
                and ghost.mux_closed == old.ghost.mux_closed + [self.dlci] and self.disconnection_result is None
                and ghost.d_resolved == old.ghost.d_resolved + (1 if old.self.disconnection_result is not None else 0)
                and ghost.closes == old.ghost.closes + 1 and ghost.mux_opened == old.ghost.mux_opened),
        implies(old.self.state != ST.CONNECTING and old.self.state != ST.DISCONNECTING, unchanged_sm(self, old, ghost)),
    ],
    ensures_names=['connecting->connected', 'disconnecting->disconnected', 'ignored-otherwise'],
    modifies=sm_mod('state', 'connection_result', 'disconnection_result', 'out', 'mux_opened', 'mux_closed', 'c_resolved', 'd_resolved', 'closes'),
    **SM_COMMON,
)

contract(
    'bumble.rfcomm:DLC.on_disc_frame',
    params=dict(self=SM, _frame=ANY_FRAME),
    ensures=lambda self, old, ghost: [
        # the peer closes the data link: acknowledged with UA, and this end leaves CONNECTED as well (matching states):
        # DISCONNECTED, removed from the multiplexer, 'close' signalled once
        implies(old.self.state == ST.CONNECTED,
                ghost.out == old.ghost.out + [ua_frame(self)] and self.state == ST.DISCONNECTED
                and ghost.mux_closed == old.ghost.mux_closed + [self.dlci] and ghost.closes == old.ghost.closes + 1),
    ],
    ensures_names=['connected->disconnected'],
    modifies=sm_mod('state', 'out', 'mux_closed', 'closes'),
    **SM_COMMON,
)

contract(
    'bumble.rfcomm:DLC.abort',
    params=dict(self=SM),
    ensures=lambda self, old, ghost: [
        self.state == ST.RESET and ghost.closes == old.ghost.closes + 1 and ghost.out == old.ghost.out,
        # waiters are released: pending futures cancelled and forgotten
        self.connection_result is None and self.disconnection_result is None,
        ghost.c_cancelled == old.ghost.c_cancelled + (1 if old.self.connection_result is not None else 0),
        ghost.d_cancelled == old.ghost.d_cancelled + (1 if old.self.disconnection_result is not None else 0),
    ],
    ensures_names=['reset-and-close', 'futures-forgotten', 'connect-waiter-released', 'disconnect-waiter-released'],
    modifies=sm_mod('state', 'connection_result', 'disconnection_result', 'closes', 'c_cancelled', 'd_cancelled'),
    **SM_COMMON,
)

LOOP_C = {asyncio.get_running_loop: Callback('get_running_loop', returns=Inst('ghost:Loop#c'))}
LOOP_D = {asyncio.get_running_loop: Callback('get_running_loop', returns=Inst('ghost:Loop#d'))}

contract(
    'bumble.rfcomm:DLC.connect',
    params=dict(self=SM),
    requires=lambda self: consistent_c_r(self),
    ensures=lambda self, old, ghost: [
        old.self.state == ST.INIT,
        self.state == ST.CONNECTING and ghost.out == old.ghost.out + [(FT_SABM, self.c_r, self.dlci, 1, b'')],
        self.connection_result is not None,
    ],
    ensures_names=['only-from-init', 'sabm-sent', 'waiter-registered'],
    raises={core.InvalidStateError: lambda self, old, ghost: [old.self.state != ST.INIT, unchanged_sm(self, old, ghost)]},
    stubs=LOOP_C,
    modifies=sm_mod('state', 'connection_result', 'out'),
    **SM_COMMON,
)

contract(
    'bumble.rfcomm:DLC.accept',
    params=dict(self=SM),
    requires=lambda self: consistent_c_r(self),
    ensures=lambda self, old, ghost: [
        old.self.state == ST.INIT,
        # PN response carrying the local (rx) parameters: they become the peer's tx parameters
        self.state == ST.CONNECTING
        and ghost.out == old.ghost.out + [(FT_UIH, self.c_r, 0, 0, mcc(MCC_PN, 0, pn_value(self.dlci, 0xE0, 7, self.rx_max_frame_size, self.rx_initial_credits)))],
    ],
    ensures_names=['only-from-init', 'pn-response-with-local-parameters'],
    raises={core.InvalidStateError: lambda self, old, ghost: [old.self.state != ST.INIT, unchanged_sm(self, old, ghost)]},
    modifies=sm_mod('state', 'out'),
    **SM_COMMON,
)

contract(
    'bumble.rfcomm:DLC.disconnect',
    params=dict(self=SM),
    requires=lambda self: consistent_c_r(self),
    ensures=lambda self, old, ghost: [
        old.self.state == ST.CONNECTED,
        self.state == ST.DISCONNECTING and ghost.out == old.ghost.out + [(FT_DISC, self.c_r, self.dlci, 1, b'')],
        self.disconnection_result is not None,
    ],
    ensures_names=['only-from-connected', 'disc-sent', 'waiter-registered'],
    raises={core.InvalidStateError: lambda self, old, ghost: [old.self.state != ST.CONNECTED, unchanged_sm(self, old, ghost)]},
    stubs=LOOP_D,
    note='up to the final await of the disconnection future (resolved by on_ua_frame)',
    modifies=sm_mod('state', 'disconnection_result', 'out'),
    **SM_COMMON,
)


# ---------------------------------------------------------------------------
# Multiplexer
# ---------------------------------------------------------------------------
def l2_write(ghost, data):
    ghost.l2 = ghost.l2 + [data]


model('ghost:L2#w', fields={}, methods={'write': Callback('write', effect=l2_write)})
model('bumble.rfcomm:Multiplexer#tx', fields=dict(l2cap_channel=Inst('ghost:L2#w')))
model('bumble.rfcomm:RFCOMM_Frame#enc', fields=dict(address=IntRange(0, 255), control=IntRange(0, 255), length=Bytes, information=Bytes, fcs=IntRange(0, 255),
                                                   type=Int, c_r=Int, dlci=Int, p_f=Int))
contract(
    'bumble.rfcomm:Multiplexer.send_frame',
    prop='C20',
    params=dict(self=Inst('bumble.rfcomm:Multiplexer#tx'), frame=Inst('bumble.rfcomm:RFCOMM_Frame#enc')),
    ghost=dict(l2=ListOf(Bytes)),
    # every frame goes to the L2CAP channel once, as its byte encoding (TS 07.10 5.2: address, control, length, information, FCS; codec: C18)
    ensures=lambda self, frame, old, ghost: [ghost.l2 == old.ghost.l2 + [bytes([frame.address, frame.control]) + frame.length + frame.information + bytes([frame.fcs])]],
    ensures_names=['written-once-as-encoded'],
    modifies=['ghost.l2'],
    inline=['RFCOMM_Frame.__bytes__'],
)


def acceptor_effect(ghost, channel_number):
    ghost.asked = ghost.asked + [channel_number]
    return ghost.params


def mux_emit(ghost, event, *args):
    ghost.emitted = ghost.emitted + 1


def fut_o_set(ghost, value):
    ghost.o_resolved = ghost.o_resolved + 1
    ghost.o_value = value.dlci


model('ghost:Future#o', fields={}, methods={'set_result': Callback('set_result', effect=fut_o_set)})
model('ghost:Loop#o', fields={}, methods={'create_future': Callback('create_future', effect=lambda ghost: ghost.new_o)})
# DLCI: 6 bits (RFCOMM 5.5.3: the two upper bits of the octet are 0 in a well-formed PN)
model('bumble.rfcomm:RFCOMM_MCC_PN', fields=dict(dlci=IntRange(0, 63), cl=IntRange(0, 255), priority=IntRange(0, 255), ack_timer=IntRange(0, 255),
                                                 max_frame_size=IntRange(0, 65535), max_retransmissions=IntRange(0, 255), initial_credits=IntRange(0, 7)))
PN = Inst('bumble.rfcomm:RFCOMM_MCC_PN')
DLC_T = Inst('bumble.rfcomm:DLC')


def mux_model(n):
    name = f'bumble.rfcomm:Multiplexer#n{n}'
    model(
        name,
        fields=dict(
            role=IntRange(0, 1),
            state=IntRange(0, 6),
            l2cap_channel=Inst('ghost:L2'),
            dlcs=ConcDict(IntRange(2, 61), DLC_T, n),
            acceptor=Opt(Callback('acceptor', effect=acceptor_effect)),
            open_pn=Opt(PN),
        ),
        methods={'send_frame': Callback('send_frame', effect=sm_send), 'emit': Callback('emit', effect=mux_emit)},
    )
    return Inst(name)


MUX_GHOST = dict(out=FRAMES, asked=ListOf(Int), params=Opt(TupleOf(IntRange(23, 32767), IntRange(1, 7))), emitted=Int, new_c=Inst('ghost:Future#c'),
                 o_resolved=Int, o_value=Int, new_o=Inst('ghost:Future#o'))


def same_dlc(a, b):
    """still registered, with its ledgers untouched (symbolically it is the same object and the frame condition covers every
    field; spelled out so that the clause also means something on the deep-copied `old` of a native replay)"""
    return (a is not None and a.dlci == b.dlci and a.tx_credits == b.tx_credits and a.rx_credits == b.rx_credits and a.tx_buffer == b.tx_buffer
            and a.mtu == b.mtu)


def others_kept(self, old, dlci):
    """the table is keyed by DLCI: every other data link is still there, untouched"""
    return [k == dlci or same_dlc(self.dlcs.get(k), d) for (k, d) in old.self.dlcs.items()] + [len(self.dlcs) <= len(old.self.dlcs) + 1]


def table_unchanged(self, old):
    return [same_dlc(self.dlcs.get(k), d) for (k, d) in old.self.dlcs.items()] + [len(self.dlcs) == len(old.self.dlcs)]


def new_dlc_ok(self, new, pn, rx_max_frame_size, rx_initial_credits):
    return [
        # tx side from the peer's PN, rx side from the local parameters: the ledgers of the two ends mirror each other
        new.tx_credits == pn.initial_credits and new.tx_max_frame_size == pn.max_frame_size,
        new.rx_credits == rx_initial_credits and new.rx_max_frame_size == rx_max_frame_size,
        new.dlci == pn.dlci and new.multiplexer is self and new.state == ST.CONNECTING,
        new.c_r == (1 if self.role == ROLE.INITIATOR else 0),
        new.mtu <= pn.max_frame_size and new.mtu + 5 <= self.l2cap_channel.peer_mtu,
    ] + wf_dlc(new)


def pn_post(self, c_r, pn, old, ghost):
    even = pn.dlci % 2 == 0
    cmd_ok = c_r and even and self.acceptor is not None and ghost.params is not None
    cmd_refused = c_r and even and self.acceptor is not None and ghost.params is None
    cmd_ignored = c_r and (not even or self.acceptor is None)
    rsp_ok = not c_r and old.self.state == MST.OPENING
    out = []
    if cmd_ok:
        new = self.dlcs[pn.dlci]
        out = new_dlc_ok(self, new, pn, ghost.params[0], ghost.params[1]) + others_kept(self, old, pn.dlci) + [
            # the acceptor is asked about the server channel of that DLCI; the PN response carries the local parameters
            ghost.asked == old.ghost.asked + [pn.dlci // 2],
            ghost.out == old.ghost.out + [(FT_UIH, new.c_r, 0, 0, mcc(MCC_PN, 0, pn_value(pn.dlci, 0xE0, 7, ghost.params[0], ghost.params[1])))],
        ]
    if cmd_refused:
        out = table_unchanged(self, old) + [ghost.out == old.ghost.out + [(FT_DM, 1, pn.dlci, 1, b'')]]
    if cmd_ignored:
        out = table_unchanged(self, old) + [ghost.out == old.ghost.out]
    if rsp_ok:
        new = self.dlcs[pn.dlci]
        out = new_dlc_ok(self, new, pn, old.self.open_pn.max_frame_size, old.self.open_pn.initial_credits) + others_kept(self, old, pn.dlci) + [
            self.open_pn is None,
            ghost.out == old.ghost.out + [(FT_SABM, new.c_r, pn.dlci, 1, b'')],
            new.connection_result is ghost.new_c,
        ]
    if not c_r and not rsp_ok:
        out = table_unchanged(self, old) + [ghost.out == old.ghost.out]
    return out + [self.state == old.self.state]


def pn_pre(self, c_r, pn, ghost):
    return [
        in_range(pn.max_frame_size, pn.initial_credits),
        self.l2cap_channel.peer_mtu >= 48,
        self.open_pn is None or in_range(self.open_pn.max_frame_size, self.open_pn.initial_credits),
    ]


for _n in (0, 1):
    contract(
        'bumble.rfcomm:Multiplexer.on_mcc_pn',
        key=f'bumble.rfcomm:Multiplexer.on_mcc_pn@n{_n}',
        prop='C20',
        params=dict(self=mux_model(_n), c_r=Bool, pn=PN),
        ghost=MUX_GHOST,
        requires=pn_pre,
        ensures=pn_post,
        # a second PN response while the first open is still in progress (open_pn already consumed): assertion, nothing changes
        raises={AssertionError: lambda self, c_r, pn, old, ghost: [not c_r and old.self.state == MST.OPENING and old.self.open_pn is None,
                                                                    ghost.out == old.ghost.out] + table_unchanged(self, old)},
        modifies=['self.dlcs', 'self.open_pn', 'ghost.out', 'ghost.asked'],
        inline=RF_INIT_INLINE + ['DLC.__init__', 'DLC.accept', 'DLC.connect'],
        uses=RF_USES,
        stubs=LOOP_C,
        note=f'bounded: {_n} other data links in Multiplexer.dlcs',
    )


# --- Multiplexer.on_dlc_open_complete / on_dlc_disconnection -----------------------------------------------------
model('bumble.rfcomm:Multiplexer#oc', fields=dict(state=IntRange(0, 6), open_result=Opt(Inst('ghost:Future#o'))))
contract(
    'bumble.rfcomm:Multiplexer.on_dlc_open_complete',
    prop='C20',
    params=dict(self=Inst('bumble.rfcomm:Multiplexer#oc'), dlc=DLC_T),
    ghost=MUX_GHOST,
    ensures=lambda self, dlc, old, ghost: [
        self.state == MST.CONNECTED,
        # open_dlc() is released with exactly this data link
        self.open_result is None,
        ghost.o_resolved == old.ghost.o_resolved + (1 if old.self.open_result is not None else 0),
        implies(old.self.open_result is not None, ghost.o_value == dlc.dlci),
    ],
    ensures_names=['back-to-connected', 'waiter-forgotten', 'waiter-released-once', 'with-this-dlc'],
    modifies=['self.state', 'self.open_result', 'ghost.o_resolved', 'ghost.o_value'],
    inline=['Multiplexer.change_state'],
)

for _n in (0, 1):
    contract(
        'bumble.rfcomm:Multiplexer.on_dlc_disconnection',
        key=f'bumble.rfcomm:Multiplexer.on_dlc_disconnection@n{_n}',
        prop='C20',
        params=dict(self=Inst(model(f'bumble.rfcomm:Multiplexer#dd{_n}', fields=dict(dlcs=ConcDict(IntRange(2, 61), DLC_T, _n))).name), dlc=DLC_T),
        ghost=MUX_GHOST,
        ensures=lambda self, dlc, old, ghost: [self.dlcs.get(dlc.dlci) is None, len(self.dlcs) >= len(old.self.dlcs) - 1]
        + [k == dlc.dlci or same_dlc(self.dlcs.get(k), d) for (k, d) in old.self.dlcs.items()],
        ensures_names=['removed-by-dlci', 'at-most-one-removed', 'others-kept'],
        modifies=['self.dlcs'],
        note=f'bounded: {_n} data links in Multiplexer.dlcs',
    )


# --- Multiplexer.on_pdu: frames reach exactly the data link they are addressed to ---------------------------------
def disp_dlc(ghost, dlc, frame):
    ghost.to_dlc = ghost.to_dlc + [(dlc.dlci, frame.dlci, frame.type)]


def disp_mux(ghost, frame):
    ghost.to_mux = ghost.to_mux + [(frame.dlci, frame.type)]


def disp_dm(ghost, frame):
    ghost.to_dm = ghost.to_dm + [(frame.dlci, frame.type)]


model('bumble.rfcomm:DLC#disp', fields=dict(dlci=IntRange(2, 61)), methods={'on_frame': Callback('on_frame', effect=disp_dlc, with_self=True)})
model('bumble.rfcomm:RFCOMM_Frame#parsed', fields=dict(type=OneOf(*rfcomm.FrameType), c_r=IntRange(0, 1), dlci=IntRange(0, 63), p_f=IntRange(0, 1), information=Bytes))
PARSED = Inst('bumble.rfcomm:RFCOMM_Frame#parsed')



def parse_stub(ghost, data):
    """RFCOMM_Frame.from_bytes (codec: property C18) as a recorded stub: any well-typed frame, or one of its exceptions"""
    assert data == ghost.pdu
    if ghost.malformed == 1:
        raise IndexError()
    if ghost.malformed == 2:
        raise ValueError()
    if ghost.malformed == 3:
        raise core.InvalidPacketError('fcs mismatch')
    return ghost.frame


PARSE_STUB = {rfcomm.RFCOMM_Frame.from_bytes: Callback('from_bytes', effect=parse_stub, raises=(IndexError, ValueError, core.InvalidPacketError))}
DISP_GHOST = dict(to_dlc=ListOf(TupleOf(Int, Int, Int)), to_mux=ListOf(TupleOf(Int, Int)), to_dm=ListOf(TupleOf(Int, Int)), pdu=Bytes, frame=PARSED, malformed=IntRange(0, 3))


def nothing_dispatched(old, ghost):
    return ghost.to_dlc == old.ghost.to_dlc and ghost.to_mux == old.ghost.to_mux and ghost.to_dm == old.ghost.to_dm


def pdu_post(self, pdu, old, ghost):
    dlci = ghost.frame.dlci
    ftype = ghost.frame.type
    to_data_link = dlci != 0 and ftype != FT_DM
    known = any([k == dlci for (k, d) in self.dlcs.items()])
    return [
        # DLCI 0: the multiplexer's own control channel
        implies(dlci == 0, ghost.to_mux == old.ghost.to_mux + [(0, ftype)] and ghost.to_dlc == old.ghost.to_dlc and ghost.to_dm == old.ghost.to_dm),
        # DM for a data link: handled by the multiplexer (the data link may not exist yet)
        implies(dlci != 0 and ftype == FT_DM, ghost.to_dm == old.ghost.to_dm + [(dlci, ftype)] and ghost.to_dlc == old.ghost.to_dlc and ghost.to_mux == old.ghost.to_mux),
        # any other frame: only the data link registered under that DLCI sees it, once; if there is none it is dropped
        implies(to_data_link, ghost.to_mux == old.ghost.to_mux and ghost.to_dm == old.ghost.to_dm),
        implies(to_data_link and not known, ghost.to_dlc == old.ghost.to_dlc),
    ] + [implies(to_data_link and k == dlci, ghost.to_dlc == old.ghost.to_dlc + [(d.dlci, dlci, ftype)]) for (k, d) in self.dlcs.items()]


def pdu_mux_model(n):
    name = f'bumble.rfcomm:Multiplexer#pdu{n}'
    model(name, fields=dict(dlcs=ConcDict(IntRange(2, 61), Inst('bumble.rfcomm:DLC#disp'), n)),
          methods={'on_frame': Callback('on_frame', effect=disp_mux), 'on_dm_frame': Callback('on_dm_frame', effect=disp_dm)})
    return Inst(name)


for _n in (0, 1, 2):
    contract(
        'bumble.rfcomm:Multiplexer.on_pdu',
        key=f'bumble.rfcomm:Multiplexer.on_pdu@n{_n}',
        prop='C20',
        params=dict(self=pdu_mux_model(_n), pdu=Bytes),
        ghost=DISP_GHOST,
        # table invariant (on_mcc_pn stores every data link under its own DLCI)
        requires=lambda self, pdu, ghost: [d.dlci == k for (k, d) in self.dlcs.items()] + [ghost.pdu == pdu],
        ensures=pdu_post,
        # malformed PDU (short, unknown frame type, FCS mismatch): rejected by the codec, nothing dispatched
        raises={e: (lambda old, ghost: [nothing_dispatched(old, ghost)]) for e in (IndexError, ValueError, core.InvalidPacketError)},
        modifies=['ghost.to_dlc', 'ghost.to_mux', 'ghost.to_dm'],
        stubs=PARSE_STUB,
        note=f'bounded: {_n} data links in Multiplexer.dlcs; RFCOMM_Frame.from_bytes is a stub (codec: C18)',
    )


# --- DLC.on_frame / Multiplexer.on_frame: handler by frame type ---------------------------------------------------
def _handled(kind):
    def eff(ghost, frame):
        ghost.handled = ghost.handled + [kind]
    return eff


def h_sabm(ghost, frame):
    ghost.handled = ghost.handled + [FT_SABM]


def h_ua(ghost, frame):
    ghost.handled = ghost.handled + [FT_UA]


def h_dm(ghost, frame):
    ghost.handled = ghost.handled + [FT_DM]


def h_disc(ghost, frame):
    ghost.handled = ghost.handled + [FT_DISC]


def h_uih(ghost, frame):
    ghost.handled = ghost.handled + [FT_UIH]


def h_ui(ghost, frame):
    ghost.handled = ghost.handled + [0x03]


HANDLERS = {'on_sabm_frame': Callback('on_sabm_frame', effect=h_sabm), 'on_ua_frame': Callback('on_ua_frame', effect=h_ua),
            'on_dm_frame': Callback('on_dm_frame', effect=h_dm), 'on_disc_frame': Callback('on_disc_frame', effect=h_disc),
            'on_uih_frame': Callback('on_uih_frame', effect=h_uih), 'on_ui_frame': Callback('on_ui_frame', effect=h_ui)}
model('bumble.rfcomm:DLC#h', fields={}, methods=HANDLERS)
model('bumble.rfcomm:Multiplexer#h', fields={}, methods=HANDLERS)
for _cls in ('DLC', 'Multiplexer'):
    contract(
        f'bumble.rfcomm:{_cls}.on_frame',
        prop='C20',
        params=dict(self=Inst(f'bumble.rfcomm:{_cls}#h'), frame=PARSED),
        ghost=dict(handled=ListOf(Int)),
        ensures=lambda self, frame, old, ghost: [ghost.handled == old.ghost.handled + [frame.type]],
        ensures_names=['handler-of-the-frame-type-once'],
        modifies=['ghost.handled'],
    )


# ---------------------------------------------------------------------------
# two ends: set-up and teardown leave both in matching states (ghost drivers running the real code of both ends;
# the driver is the order-preserving link: it hands every frame one end sent to the other end)
# ---------------------------------------------------------------------------
def wire_send(ghost, frame):
    ghost.w2 = ghost.w1
    ghost.w1 = (frame.type, frame.c_r, frame.dlci, frame.p_f, frame.information)
    ghost.nsent = ghost.nsent + 1


def fut_any_set(ghost, value):
    ghost.resolved = ghost.resolved + 1


model('ghost:Future#any', fields={}, methods={'set_result': Callback('set_result', effect=fut_any_set), 'cancel': Callback('cancel', effect=lambda ghost: None)})
model('ghost:Loop#any', fields={}, methods={'create_future': Callback('create_future', returns=Inst('ghost:Future#any'))})
LOOP_ANY = {asyncio.get_running_loop: Callback('get_running_loop', returns=Inst('ghost:Loop#any'))}
from pyvc.contracts import EmptyDict  # noqa: E402

model(
    'bumble.rfcomm:Multiplexer#wire',
    fields=dict(role=IntRange(0, 1), state=IntRange(0, 6), l2cap_channel=Inst('ghost:L2'), dlcs=EmptyDict(), acceptor=Opt(Callback('acceptor', effect=acceptor_effect)),
                open_pn=Const(None), open_result=Const(None)),
    methods={'send_frame': Callback('send_frame', effect=wire_send), 'emit': Callback('emit', effect=mux_emit)},
)
WIRE_T = TupleOf(Int, Int, Int, Int, Bytes)
WIRE_GHOST = dict(w1=WIRE_T, w2=WIRE_T, nsent=Int, resolved=Int, asked=ListOf(Int), params=TupleOf(IntRange(23, 32767), IntRange(1, 7)), emitted=Int, opens=Int, closes=Int)


def delivered(w):
    """the frame the peer receives: the fields that were sent (byte encoding and decoding: C18)"""
    return rfcomm.RFCOMM_Frame(w[0], w[1], w[2], w[3], w[4], w[0] == rfcomm.FrameType.UIH and w[3] == 1)


def lemma_dlc_setup(amux, bmux, channel, max_frame_size, initial_credits, ghost):
    dlci = 2 * channel
    amux.open_dlc(channel, max_frame_size, initial_credits)  # A: PN command
    assert ghost.nsent == 1
    bmux.on_uih_frame(delivered(ghost.w1))  # B: acceptor asked, data link created, PN response
    assert ghost.nsent == 2
    amux.on_uih_frame(delivered(ghost.w1))  # A: data link created, SABM
    assert ghost.nsent == 3 and ghost.w1[0] == FT_SABM and ghost.w1[2] == dlci
    b = bmux.dlcs[dlci]
    b.on_frame(delivered(ghost.w1))  # B: UA, modem status; connected
    assert ghost.nsent == 5 and ghost.w2[0] == FT_UA and ghost.w2[2] == dlci
    a = amux.dlcs[dlci]
    a.on_frame(delivered(ghost.w2))  # A: connected, open_dlc() released
    # both ends connected, the multiplexer is ready for the next open
    assert a.state == ST.CONNECTED and b.state == ST.CONNECTED
    assert amux.state == MST.CONNECTED and bmux.state == MST.CONNECTED
    assert ghost.opens == 1  # the acceptor side signals 'open' once
    # the negotiated parameters mirror each other
    assert a.tx_credits == b.rx_credits and b.tx_credits == a.rx_credits
    assert a.tx_credits == ghost.params[1] and b.tx_credits == initial_credits
    assert a.tx_max_frame_size == b.rx_max_frame_size and b.tx_max_frame_size == a.rx_max_frame_size
    assert a.mtu <= b.rx_max_frame_size and b.mtu <= a.rx_max_frame_size
    assert a.c_r == 1 and b.c_r == 0 and a.dlci == dlci and b.dlci == dlci
    # ... and the pair starts in the stream invariant (nothing written, nothing in flight)
    for cl in wf_dlc(a) + wf_dlc(b):
        assert cl
    for cl in dir_inv(a.tx_credits, a.tx_buffer, b'', 0, 0, b'', b.rx_credits, b'', 0, 0) + dir_inv(b.tx_credits, b.tx_buffer, b'', 0, 0, b'', a.rx_credits, b'', 0, 0):
        assert cl


lemma(
    'rfcomm_dlc_setup',
    lemma_dlc_setup,
    prop='C20',
    params=dict(amux=Inst('bumble.rfcomm:Multiplexer#wire', role=Const(ROLE.INITIATOR), acceptor=Const(None)),
                bmux=Inst('bumble.rfcomm:Multiplexer#wire', role=Const(ROLE.RESPONDER), acceptor=Callback('acceptor', effect=acceptor_effect)),
                channel=IntRange(1, 30), max_frame_size=IntRange(23, 32767), initial_credits=IntRange(1, 7)),
    ghost=WIRE_GHOST,
    requires=lambda amux, bmux, ghost: [amux.state == MST.CONNECTED, bmux.state == MST.CONNECTED, amux.l2cap_channel.peer_mtu >= 48, bmux.l2cap_channel.peer_mtu >= 48,
                                        ghost.nsent == 0, ghost.opens == 0],
    inline=RF_INIT_INLINE + ['Multiplexer.*', 'DLC.*', 'RFCOMM_MCC_PN.*', 'RFCOMM_MCC_MSC.*'],
    uses=RF_USES,
    stubs=LOOP_ANY,
)


def lemma_dlc_teardown(a, b):
    """a closes the data link; the link hands a's DISC to b and b's UA back to a"""
    a.disconnect()
    b.on_disc_frame(None)
    a.on_ua_frame(None)


lemma(
    'rfcomm_dlc_teardown',
    lemma_dlc_teardown,
    prop='C20',
    params=dict(a=SM, b=SM),
    ghost=SM_GHOST,
    requires=lambda a, b: [a.state == ST.CONNECTED, b.state == ST.CONNECTED, a.dlci == b.dlci, consistent_c_r(a), consistent_c_r(b), a.c_r != b.c_r],
    ensures=lambda a, b, old, ghost: [
        # both ends leave CONNECTED, both are removed from their multiplexer, both signal 'close' once
        a.state == ST.DISCONNECTED and b.state == ST.DISCONNECTED,
        ghost.mux_closed == old.ghost.mux_closed + [b.dlci, a.dlci] and ghost.closes == old.ghost.closes + 2,
        # on the wire: DISC from a, UA (carrying a's C/R) from b
        ghost.out == old.ghost.out + [(FT_DISC, a.c_r, a.dlci, 1, b''), (FT_UA, a.c_r, a.dlci, 1, b'')],
        ghost.d_resolved == old.ghost.d_resolved + 1,
    ],
    ensures_names=['matching-states', 'both-removed-and-closed', 'disc-then-ua', 'disconnect-released'],
    uses=['bumble.rfcomm:DLC.disconnect', 'bumble.rfcomm:DLC.on_disc_frame', 'bumble.rfcomm:DLC.on_ua_frame'],
)


# --- Multiplexer.open_dlc ------------------------------------------------------------------------------------------
model('bumble.rfcomm:Multiplexer#open', fields=dict(role=IntRange(0, 1), state=IntRange(0, 6), open_pn=Opt(PN), open_result=Opt(Inst('ghost:Future#o'))),
      methods={'send_frame': Callback('send_frame', effect=sm_send)})
LOOP_O = {asyncio.get_running_loop: Callback('get_running_loop', returns=Inst('ghost:Loop#o'))}
contract(
    'bumble.rfcomm:Multiplexer.open_dlc',
    prop='C20',
    params=dict(self=Inst('bumble.rfcomm:Multiplexer#open'), channel=IntRange(1, 30), max_frame_size=IntRange(23, 32767), initial_credits=IntRange(1, 7)),
    ghost=dict(out=FRAMES, new_o=Inst('ghost:Future#o')),
    ensures=lambda self, channel, max_frame_size, initial_credits, old, ghost: [
        old.self.state == MST.CONNECTED,
        # PN command for DLCI 2*channel with the local parameters, remembered until the response arrives
        self.state == MST.OPENING and self.open_pn.dlci == 2 * channel and self.open_pn.max_frame_size == max_frame_size and self.open_pn.initial_credits == initial_credits,
        ghost.out == old.ghost.out + [(FT_UIH, 1 if self.role == ROLE.INITIATOR else 0, 0, 0, mcc(MCC_PN, 1, pn_value(2 * channel, 0xF0, 7, max_frame_size, initial_credits)))],
        self.open_result is ghost.new_o,
    ],
    ensures_names=['only-when-connected', 'opening-with-local-parameters', 'pn-command-sent', 'waiter-registered'],
    raises={core.InvalidStateError: lambda self, old, ghost: [old.self.state != MST.CONNECTED, self.state == old.self.state, ghost.out == old.ghost.out]},
    modifies=['self.state', 'self.open_pn', 'self.open_result', 'ghost.out'],
    inline=RF_INIT_INLINE,
    uses=RF_USES,
    stubs=LOOP_O,
    note='up to the final await of the open_result future (resolved by on_dlc_open_complete, rejected by on_dm_frame)',
)
