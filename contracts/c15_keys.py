"""C15 (part 1) -- key (de)serialisation: PairingKeys / PairingKeys.Key  <->  JSON dict, and the round trip.

The dict images are *dynamic values* (pyvc/ext_c15.py): None | bool | int | str | bytes | dict, so that an optional key
("absent or present") is one term and not a path split.  Spec functions below are plain Python: the replay runs them on
real objects / real dicts.
"""
from bumble import hci
from bumble.keys import PairingKeys

from pyvc.contracts import Bool, Bytes, Const, Inst, Int, Opt, contract, lemma, model
from pyvc.ext_c15 import (AnyDyn, DynDict, OptDyn, SymStr, forall_items, hexs, is_bool, is_dict, is_hexstr, is_int, put, put_opt, unhex)

# what surrounds the kernel and is NOT verified (both contract files of C15)
ENVIRONMENT = [
    'pyvc/ext_c15.py (value domain added for this property): str as identities (== exact, content uninterpreted; bytes.hex / bytes.fromhex / + as uninterpreted functions with fromhex(hex(b)) == b), JSON documents as an algebraic datatype, mutable dicts of symbolic size as (root term, path) views; spec-level == on JSON values is structural (it does not identify True/1, False/0)',
    'file system: open / json.load / json.dump / os.replace / pathlib exists, mkdir, with_name are recorded ghost callbacks over (exists, content, tmp_state, tmp_content, dir_exists, trace); os.replace is atomic (POSIX rename)',
    'json: the file text is json.dumps(content); json.load(json.dump(v)) == v for JSON-representable v (str keys; None/bool/int/str/dict values); sort_keys/indent do not change the value',
    'the writes json.dump performs on the temporary file are one WRITE effect (they only touch the temporary file)',
    'pathlib: p.with_name(p.name + ".tmp") is a path different from p in the same directory',
    'power-loss durability (no fsync) and concurrent processes writing the same file are outside the property',
    'update(name, keys): `keys` is any object whose to_dict() returns a well-formed entry (ghost.kd); PairingKeys.to_dict has its own contract (c15_keys.py)',
    'declared field types of PairingKeys / PairingKeys.Key (bytes, bool, Optional[int], Optional[bytes]) are assumed for the objects handed in',
]

KEY_NAMES = ('ltk', 'ltk_central', 'ltk_peripheral', 'irk', 'csrk', 'link_key')

# ---------------------------------------------------------------------------
# models of the two dataclasses (Optional scalar fields are dynamic values: None or a value of the declared type)
# ---------------------------------------------------------------------------
model('bumble.keys:PairingKeys.Key', fields=dict(value=Bytes, authenticated=Bool, ediv=OptDyn(Int), rand=OptDyn(Bytes)))
KEY = Inst('bumble.keys:PairingKeys.Key')
model(
    'bumble.keys:PairingKeys',
    fields=dict(address_type=OptDyn(Int), ltk=Opt(KEY), ltk_central=Opt(KEY), ltk_peripheral=Opt(KEY), irk=Opt(KEY), csrk=Opt(KEY), link_key=Opt(KEY),
                link_key_type=OptDyn(Int)),
)
KEYS = Inst('bumble.keys:PairingKeys')


# ---------------------------------------------------------------------------
# the JSON object model of the class docstring, as predicates
# ---------------------------------------------------------------------------
def wf_key(kd):
    """{"value": hex, "authenticated"?: bool, "ediv"?: int, "rand"?: hex}"""
    return (is_dict(kd) and 'value' in kd and is_hexstr(kd['value'])
            and ('authenticated' not in kd or is_bool(kd['authenticated']))
            and ('ediv' not in kd or is_int(kd['ediv']))
            and ('rand' not in kd or is_hexstr(kd['rand'])))


def wf_entry(e):
    """one peer: {"address_type"?: int, "<key name>"?: key dict, "link_key_type"?: int}"""
    return (is_dict(e)
            and ('address_type' not in e or is_int(e['address_type']))
            and ('link_key_type' not in e or is_int(e['link_key_type']))
            and ('ltk' not in e or wf_key(e['ltk']))
            and ('ltk_central' not in e or wf_key(e['ltk_central']))
            and ('ltk_peripheral' not in e or wf_key(e['ltk_peripheral']))
            and ('irk' not in e or wf_key(e['irk']))
            and ('csrk' not in e or wf_key(e['csrk']))
            and ('link_key' not in e or wf_key(e['link_key'])))


def wf_map(m):
    return is_dict(m) and forall_items(m, lambda name, e: wf_entry(e))


def wf_db(db):
    """{"<namespace>": {"<peer>": entry}}"""
    return is_dict(db) and forall_items(db, lambda ns, m: wf_map(m))


# ---------------------------------------------------------------------------
# what the dict image of a key set is (written from the class docstring / field list, not from the code)
# ---------------------------------------------------------------------------
def spec_key_dict(k):
    d = {'value': hexs(k.value), 'authenticated': k.authenticated}
    d = put_opt(d, 'ediv', k.ediv)
    d = put_opt(d, 'rand', hexs(k.rand) if k.rand is not None else None)
    return d


def spec_keys_dict(p):
    d = {}
    d = put_opt(d, 'address_type', p.address_type)
    if p.ltk is not None:
        d = put(d, 'ltk', spec_key_dict(p.ltk))
    if p.ltk_central is not None:
        d = put(d, 'ltk_central', spec_key_dict(p.ltk_central))
    if p.ltk_peripheral is not None:
        d = put(d, 'ltk_peripheral', spec_key_dict(p.ltk_peripheral))
    if p.irk is not None:
        d = put(d, 'irk', spec_key_dict(p.irk))
    if p.csrk is not None:
        d = put(d, 'csrk', spec_key_dict(p.csrk))
    if p.link_key is not None:
        d = put(d, 'link_key', spec_key_dict(p.link_key))
    d = put_opt(d, 'link_key_type', p.link_key_type)
    return d


def spec_key_of(kd):
    return PairingKeys.Key(unhex(kd['value']), kd.get('authenticated', False), kd.get('ediv'), unhex(kd['rand']) if 'rand' in kd else None)


def spec_key_from(keys_dict, key_name):
    kd = keys_dict.get(key_name)
    if kd is None:
        return None
    return spec_key_of(kd)


def spec_keys_of(e):
    at = e.get('address_type')
    return PairingKeys(
        address_type=(hci.AddressType(at) if at is not None else None),
        ltk=spec_key_from(e, 'ltk'),
        ltk_central=spec_key_from(e, 'ltk_central'),
        ltk_peripheral=spec_key_from(e, 'ltk_peripheral'),
        irk=spec_key_from(e, 'irk'),
        csrk=spec_key_from(e, 'csrk'),
        link_key=spec_key_from(e, 'link_key'),
        link_key_type=e.get('link_key_type'),
    )


# ---------------------------------------------------------------------------
# contracts
# ---------------------------------------------------------------------------
contract(
    'bumble.keys:PairingKeys.Key.to_dict',
    prop='C15',
    params=dict(self=KEY),
    result=lambda self: spec_key_dict(self),
    ensures=lambda res: [wf_key(res)],
    ensures_names=['image-is-a-well-formed-key-dict'],
    modifies=[],
)

contract(
    'bumble.keys:PairingKeys.Key.from_dict',
    prop='C15',
    params=dict(cls=Const(PairingKeys.Key), key_dict=DynDict),
    requires=lambda key_dict: [wf_key(key_dict)],
    result=lambda key_dict: spec_key_of(key_dict),
    modifies=[],
)


def lemma_key_roundtrip(k):
    d = k.to_dict()
    assert wf_key(d)
    k2 = PairingKeys.Key.from_dict(d)
    assert k2 == k


lemma('key_roundtrip', lemma_key_roundtrip, prop='C15', params=dict(k=KEY), inline=['PairingKeys.Key.to_dict', 'PairingKeys.Key.from_dict'])

K_TO = 'bumble.keys:PairingKeys.Key.to_dict'
K_FROM = 'bumble.keys:PairingKeys.Key.from_dict'

contract(
    'bumble.keys:PairingKeys.key_from_dict',
    prop='C15',
    params=dict(cls=Const(PairingKeys), keys_dict=DynDict, key_name=SymStr),
    requires=lambda keys_dict, key_name: [key_name not in keys_dict or wf_key(keys_dict[key_name])],
    result=lambda keys_dict, key_name: spec_key_from(keys_dict, key_name),
    modifies=[],
    uses=[K_FROM],
)
KFD = 'bumble.keys:PairingKeys.key_from_dict'

contract(
    'bumble.keys:PairingKeys.to_dict',
    prop='C15',
    params=dict(self=KEYS),
    result=lambda self: spec_keys_dict(self),
    ensures=lambda res: [wf_entry(res)],
    ensures_names=['image-is-a-well-formed-entry'],
    modifies=[],
    uses=[K_TO],
)

contract(
    'bumble.keys:PairingKeys.from_dict',
    prop='C15',
    params=dict(cls=Const(PairingKeys), keys_dict=DynDict),
    requires=lambda keys_dict: [wf_entry(keys_dict)],
    result=lambda keys_dict: spec_keys_of(keys_dict),
    modifies=[],
    uses=[KFD],
)
P_TO = 'bumble.keys:PairingKeys.to_dict'
P_FROM = 'bumble.keys:PairingKeys.from_dict'


def lemma_keys_roundtrip(p):
    """from_dict(to_dict(p)) == p for every combination of present / absent fields"""
    d = p.to_dict()
    p2 = PairingKeys.from_dict(d)
    assert p2 == p


lemma('keys_roundtrip', lemma_keys_roundtrip, prop='C15', params=dict(p=KEYS), uses=[P_TO, P_FROM])
