"""C06 -- the virtual link connects the right peers and delivers only between them.

Kernel: bumble/controller.py (connection tables, handle allocation, CONNECT_IND acceptance, ACL delivery, advertising
reports, BR/EDR twins), bumble/link.py (routing on the LocalLink bus), bumble/device.py (which connection event
resolves a pending connect).

Representation
--------------
* An `hci.Address` *value* is abstracted to its equality class: `Opaque('addr')` (an integer identity; `==` on two such
  values is equality of the identities).  What that relies on is proved on the real class by the lemma
  `address_eq_is_an_equivalence` below (Address.__eq__ compares (address_bytes, is_public), is reflexive, symmetric and
  transitive, and agrees with __hash__), i.e. a dict keyed by Address objects behaves like a map keyed by the class.
* The controller's connection tables (`le_connections`, `classic_connections`, `sco_links`, `central_cis_links`,
  `peripheral_cis_links`) are *symbolic maps of any size* from keys to records (struct of arrays); the record columns
  are the scalar fields of the real classes (handle, role, self_address, peer_address, transport, ...).
"""
import asyncio

from bumble import controller as _controller
from bumble import core, hci, ll
from pyvc import ext_c06
from pyvc.contracts import (Any, Bool, ByteArray, Bytes, Callback, ConcList, Const, Inst, Int, IntRange, OneOf, Opaque, Opt, Str, MapOf,
                            contract, forall, iff, implies, lemma, mget, mhas, model, same)
from pyvc.ext_c06 import all_keys, any_key, holds

_lemma = lemma


def lemma(name, fn, native_setup=None, **kw):  # noqa: F811
    """pyvc.contracts.lemma + native_setup (replay.run_native reads it as an attribute of the entry)"""
    l = _lemma(name, fn, **kw)
    l.native_setup = native_setup
    return l
from pyvc.ext_c11 import AnyListOf

ENVIRONMENT = [
    'C06: asyncio call_soon scheduling (what runs between two scheduled callbacks, in which order deliveries of '
    'different senders interleave, that a scheduled callback runs exactly once) is environment; the contracts state what '
    'is scheduled, for whom, with which arguments (the callback is observed by running it at scheduling time: the '
    'callbacks of link.py read only their own captured locals)',
    'C06: n-device configurations and schedules are outside contracts: every contract is per call on one controller / '
    'one link; LocalLink.find_*_controller is proved for any number of controllers only in the direction "whoever is '
    'returned owns such a connection" (the set of controllers is abstracted to arbitrary controllers), the direction '
    '"None only if nobody does" and send_advertising_pdu are bounded stand-ins for 1..3 controllers',
    'C06: hci.Address values are abstracted to their equality class (Opaque identity); lemma '
    'address_eq_is_an_equivalence proves on the real class that __eq__ is the equality of (address_bytes, is_public), an '
    'equivalence, and agrees with __hash__; the address_type octet read from such a value is unspecified (0..3)',
    'C06: own addresses are unique on the link (no two controllers use the same own address on their connections) is a '
    'precondition of the routing lemmas, not proved (it is a property of how devices are configured)',
    'C06: Controller.link is never None after __init__ (representation invariant proved under C03) and every '
    'controller.Connection is created with link=self.link: preconditions of on_hci_disconnect_command@le',
    'C06: the look-ups by handle are used by on_hci_disconnect_command through callee views that hand the entry out as a '
    'detached Connection object with the entry\'s columns (the handler only reads it)',
    'C06: Controller.send_hci_packet (scheduling host.on_packet(bytes(packet))), the HCI event classes, '
    'LegacyAdvertiser/AdvertisingSet timers, Controller.send_lmp_packet / on_lmp_packet dispatch, '
    'on_hci_create_connection_command, on_hci_le_set_cig_parameters_command, role switch, SCO/CIS data paths, '
    'Device.on_le_connection / on_classic_connection, pyee dispatch and listener (de)registration in connect_le / '
    'connect_classic are environment',
    'C06: hand-written models in pyvc/ext_c06.py (dict with object values as symbolic map incl. record store, values() '
    'enumeration in arbitrary order, itertools.chain, set()/next()/any() over generator expressions, typing.cast) are '
    'validated only by the CPython cross-check; next() returns SOME matching element (minimality / dict order not modelled)',
]

ADDR = Opaque('addr')


def LOpt(t):
    """Optional[t] whose alternative is chosen when the field is first read (no path split for paths that never read it)"""
    return OneOf(Const(None), t)


LE = core.PhysicalTransport.LE
BR_EDR = core.PhysicalTransport.BR_EDR
CENTRAL = hci.Role.CENTRAL
PERIPHERAL = hci.Role.PERIPHERAL
MAX_HANDLE = 0xEFF

# ---------------------------------------------------------------------------
# native side: abstract address identities become real hci.Address objects (replay, CPython cross-check)
# ---------------------------------------------------------------------------
ADDR_KEYED = ('le_connections', 'classic_connections', 'sco_links')


def nat_addr(n):
    """injective on the integers a counter-model uses: distinct identities -> distinct (unequal) addresses"""
    n = int(n)
    v = (abs(n) * 2 + (1 if n < 0 else 0)) % (1 << 48)
    return hci.Address(v.to_bytes(6, 'little'), hci.Address.RANDOM_DEVICE_ADDRESS)


def _is_tok(x):
    return type(x).__name__ == 'OpaqueToken' and getattr(x, 'tag', None) == 'addr'


def _conv(x, memo, depth=0):
    if _is_tok(x):
        return nat_addr(x.n)
    if isinstance(x, dict) and '__opq__' in x:
        return nat_addr(x['__opq__'][1]) if x['__opq__'][0] == 'addr' else x
    if depth > 8 or id(x) in memo:
        return x
    if isinstance(x, (list, dict)) or (hasattr(x, '__dict__') and not isinstance(x, type) and not callable(x) and type(x).__module__.split('.')[0] in ('bumble', 'types', 'pyvc')):
        memo[id(x)] = x  # (keeps x alive: ids of dead objects are reused)
    if isinstance(x, list):
        for i, y in enumerate(x):
            x[i] = _conv(y, memo, depth + 1)
        return x
    if isinstance(x, tuple):
        return tuple(_conv(y, memo, depth + 1) for y in x)
    if isinstance(x, dict):
        for k in list(x.keys()):
            x[k] = _conv(x[k], memo, depth + 1)
        return x
    if hasattr(x, '__dict__') and not isinstance(x, type) and not callable(x) and type(x).__module__.split('.')[0] in ('bumble', 'types', 'pyvc'):
        for n, y in list(vars(x).items()):
            y = _conv(y, memo, depth + 1)
            if n in ADDR_KEYED and isinstance(y, dict):
                y = {(nat_addr(k) if isinstance(k, int) else k): v for k, v in y.items()}
            try:
                object.__setattr__(x, n, y)
            except Exception:  # noqa: BLE001
                pass
    return x


def nat_fix(env):
    memo = {}
    for n in list(env):
        env[n] = _conv(env[n], memo)


# ---------------------------------------------------------------------------
# records of the connection tables
# ---------------------------------------------------------------------------
CONN = 'bumble.controller:Connection#rec'
SCO = 'bumble.controller:ScoLink#rec'
CIS = 'bumble.controller:CisLink#rec'
model(CONN, fields=dict(handle=Int, role=Int, self_address=ADDR, peer_address=ADDR, transport=Int, link_type=Int, classic_allow_role_switch=Bool))
model(SCO, fields=dict(handle=Int, link_type=Int, peer_address=ADDR))
model(CIS, fields=dict(handle=Int, cis_id=Int, cig_id=Int))
ext_c06.key_kind(CONN, ('opq', 'addr'))
ext_c06.key_kind(SCO, ('opq', 'addr'))

TABLES = ('le_connections', 'classic_connections', 'sco_links', 'central_cis_links', 'peripheral_cis_links')


def table_fields():
    return dict(
        le_connections=MapOf(CONN),
        classic_connections=MapOf(CONN),
        sco_links=MapOf(SCO),
        central_cis_links=MapOf(CIS),
        peripheral_cis_links=MapOf(CIS),
    )


# ---------------------------------------------------------------------------
# handle allocation
# ---------------------------------------------------------------------------
def unused(self, h):
    """h is the handle of no entry of any of the five tables"""
    return [
        all_keys(self.le_connections, lambda k: mget(self.le_connections, k, 'handle') != h),
        all_keys(self.classic_connections, lambda k: mget(self.classic_connections, k, 'handle') != h),
        all_keys(self.sco_links, lambda k: mget(self.sco_links, k, 'handle') != h),
        all_keys(self.central_cis_links, lambda k: mget(self.central_cis_links, k, 'handle') != h),
        all_keys(self.peripheral_cis_links, lambda k: mget(self.peripheral_cis_links, k, 'handle') != h),
    ]


model('bumble.controller:Controller#tables', fields=table_fields())
CTRL_T = Inst('bumble.controller:Controller#tables')

UNUSED_NAMES = ['not-an-le-handle', 'not-a-classic-handle', 'not-a-sco-handle', 'not-a-central-cis-handle', 'not-a-peripheral-cis-handle']

ALLOC = dict(
    params=dict(self=CTRL_T),
    ensures=lambda self, res: [1 <= res, res <= MAX_HANDLE] + unused(self, res),
    ensures_names=['handle>=1', 'handle<=0xEFF'] + UNUSED_NAMES,
    raises={StopIteration: None},
    modifies=[],
    returns=Int,
    native_setup=nat_fix,
    # the controller's own look-ups by handle are followed when the allocation goes through them: the two loops over
    # the ACL tables by their contract proved below (callee view: None only if no LE / classic entry has the handle),
    # the dict look-up of the CIS tables in place.  Whatever look-ups are used, the post stays "in none of the five tables".
    uses=['bumble.controller:Controller.find_connection_by_handle@callee'],
    inline=['Controller.find_iso_link_by_handle'],
)
contract('bumble.controller:Controller.allocate_connection_handle', prop='C06', **ALLOC)


# ---------------------------------------------------------------------------
# table invariant
# ---------------------------------------------------------------------------
def h_of(t, k):
    return mget(t, k, 'handle')


def distinct_in(t):
    """two entries of one table never share a live (non-zero) handle"""
    return all_keys(t, lambda a: all_keys(t, lambda b: implies(a != b and h_of(t, a) != 0, h_of(t, a) != h_of(t, b))))


def distinct_x(t, u):
    """entries of two different tables never share a live (non-zero) handle"""
    return all_keys(t, lambda a: all_keys(u, lambda b: implies(h_of(t, a) != 0, h_of(t, a) != h_of(u, b))))


def tables_inv(self):
    le, cl, sco, cc, pc = self.le_connections, self.classic_connections, self.sco_links, self.central_cis_links, self.peripheral_cis_links
    return [
        # every record is stored under its peer address / its handle
        all_keys(le, lambda k: mget(le, k, 'peer_address') == k),
        all_keys(cl, lambda k: mget(cl, k, 'peer_address') == k),
        all_keys(sco, lambda k: mget(sco, k, 'peer_address') == k),
        all_keys(cc, lambda k: h_of(cc, k) == k),
        all_keys(pc, lambda k: h_of(pc, k) == k),
        # handles are in range; 0 is the placeholder of a BR/EDR ACL or SCO link that is not complete yet
        all_keys(le, lambda k: 1 <= h_of(le, k) and h_of(le, k) <= MAX_HANDLE),
        all_keys(cl, lambda k: 0 <= h_of(cl, k) and h_of(cl, k) <= MAX_HANDLE),
        all_keys(sco, lambda k: 0 <= h_of(sco, k) and h_of(sco, k) <= MAX_HANDLE),
        all_keys(cc, lambda k: 1 <= h_of(cc, k) and h_of(cc, k) <= MAX_HANDLE),
        all_keys(pc, lambda k: 1 <= h_of(pc, k) and h_of(pc, k) <= MAX_HANDLE),
        # live handles are distinct within and across the five tables
        distinct_in(le), distinct_in(cl), distinct_in(sco),
        distinct_x(le, cl), distinct_x(le, sco), distinct_x(le, cc), distinct_x(le, pc),
        distinct_x(cl, le), distinct_x(cl, sco), distinct_x(cl, cc), distinct_x(cl, pc),
        distinct_x(sco, le), distinct_x(sco, cl), distinct_x(sco, cc), distinct_x(sco, pc),
        distinct_x(cc, pc),
    ]


def conj(cs):
    """conjunction of a list of clauses as one clause (one proof obligation instead of len(cs))"""
    r = True
    for c in cs:
        r = r and c
    return r


def tables_inv_post(self, self0):
    """preservation of the table invariant: if it held at entry (self0 = old.self) it holds now; stated as three
    obligations (keys+ranges, distinct within a table, distinct across tables).  The invariant is a hypothesis of these
    clauses only, so the other clauses are proved without it (they do not depend on it)"""
    before = conj(tables_inv(self0))
    cs = tables_inv(self)
    return [implies(before, conj(cs[:10])), implies(before, conj(cs[10:13])), implies(before, conj(cs[13:]))]


INV_POST_NAMES = ['inv-preserved-keys-and-handle-ranges', 'inv-preserved-handles-distinct-within-each-table', 'inv-preserved-handles-distinct-across-tables']
INV_NAMES = [
    'inv-le-keyed-by-peer', 'inv-classic-keyed-by-peer', 'inv-sco-keyed-by-peer', 'inv-central-cis-keyed-by-handle', 'inv-peripheral-cis-keyed-by-handle',
    'inv-le-handle-range', 'inv-classic-handle-range', 'inv-sco-handle-range', 'inv-central-cis-handle-range', 'inv-peripheral-cis-handle-range',
    'inv-le-distinct', 'inv-classic-distinct', 'inv-sco-distinct',
    'inv-le/classic', 'inv-le/sco', 'inv-le/central-cis', 'inv-le/peripheral-cis',
    'inv-classic/le', 'inv-classic/sco', 'inv-classic/central-cis', 'inv-classic/peripheral-cis',
    'inv-sco/le', 'inv-sco/classic', 'inv-sco/central-cis', 'inv-sco/peripheral-cis',
    'inv-central-cis/peripheral-cis',
]


# ---------------------------------------------------------------------------
# the controller as seen by the link-level functions
# ---------------------------------------------------------------------------
def ctl_send(ghost, packet):
    """Controller.send_hci_packet (schedules host.on_packet(bytes(packet))): what goes to the host, last of each kind"""
    ghost.sent = ghost.sent + 1
    if isinstance(packet, hci.HCI_LE_Connection_Complete_Event):
        ghost.cc = ghost.cc + 1
        ghost.cc_status = packet.status
        ghost.cc_handle = packet.connection_handle
        ghost.cc_role = packet.role
        ghost.cc_peer = packet.peer_address
    if isinstance(packet, hci.HCI_Disconnection_Complete_Event):
        ghost.dc = ghost.dc + 1
        ghost.dc_status = packet.status
        ghost.dc_handle = packet.connection_handle
        ghost.dc_reason = packet.reason
    if isinstance(packet, hci.HCI_Connection_Request_Event):
        ghost.creq = ghost.creq + 1
        ghost.creq_peer = packet.bd_addr
        ghost.creq_link_type = packet.link_type
    if isinstance(packet, hci.HCI_Connection_Complete_Event):
        ghost.ccl = ghost.ccl + 1
        ghost.ccl_status = packet.status
        ghost.ccl_handle = packet.connection_handle
        ghost.ccl_peer = packet.bd_addr
    if isinstance(packet, hci.HCI_Synchronous_Connection_Complete_Event):
        ghost.sync = ghost.sync + 1
        ghost.sync_status = packet.status
        ghost.sync_handle = packet.connection_handle
        ghost.sync_peer = packet.bd_addr
    if isinstance(packet, hci.HCI_LE_CIS_Request_Event):
        ghost.cisreq = ghost.cisreq + 1
        ghost.cisreq_acl_handle = packet.acl_connection_handle
        ghost.cisreq_handle = packet.cis_connection_handle
    if isinstance(packet, hci.HCI_AclDataPacket):
        ghost.acl = ghost.acl + 1
        ghost.acl_handle = packet.connection_handle
        ghost.acl_pb = packet.pb_flag
        ghost.acl_len = packet.data_total_length
        ghost.acl_data = packet.data


SEND_GHOST = dict(
    sent=Int,
    cc=Int, cc_status=Int, cc_handle=Int, cc_role=Int, cc_peer=ADDR,
    dc=Int, dc_status=Int, dc_handle=Int, dc_reason=Int,
    acl=Int, acl_handle=Int, acl_pb=Int, acl_len=Int, acl_data=Bytes,
    creq=Int, creq_peer=ADDR, creq_link_type=Int,
    ccl=Int, ccl_status=Int, ccl_handle=Int, ccl_peer=ADDR,
    sync=Int, sync_status=Int, sync_handle=Int, sync_peer=ADDR,
    cisreq=Int, cisreq_acl_handle=Int, cisreq_handle=Int,
)
SEND_MOD = ['ghost.' + n for n in SEND_GHOST]

def timer_cancel(ghost):
    ghost.cancelled = ghost.cancelled + 1


def link_send_adv(ghost, sender, packet):
    """LocalLink.send_advertising_pdu(sender_controller, packet): what is put on the air"""
    ghost.adv_sent = ghost.adv_sent + 1
    if isinstance(packet, ll.ConnectInd):
        ghost.ci = ghost.ci + 1
        ghost.ci_initiator = packet.initiator_address
        ghost.ci_advertiser = packet.advertiser_address


LINK_GHOST = dict(adv_sent=Int, ci=Int, ci_initiator=ADDR, ci_advertiser=ADDR)

model('ghost:TimerHandle', fields={}, methods={'cancel': Callback('cancel', effect=timer_cancel)})
model('ghost:Link', fields={}, methods={'send_advertising_pdu': Callback('send_advertising_pdu', effect=link_send_adv)})
# the advertiser's back-reference to its controller: only the two own addresses are read through it
CTRL_ADDR = 'bumble.controller:Controller#addr'


def adv_tx(ghost, packet):
    """Controller.send_advertising_pdu(packet): what an advertiser puts on the air"""
    ghost.pdus = ghost.pdus + 1
    ghost.pdu_is_adv_ind = isinstance(packet, ll.AdvInd)
    ghost.pdu_address = packet.advertiser_address
    ghost.pdu_data = packet.data
    ghost.pdu_scan_rsp = getattr(packet, 'scan_response_data', None)


ADV_TX_GHOST = dict(pdus=Int, pdu_is_adv_ind=Bool, pdu_address=ADDR, pdu_data=Bytes, pdu_scan_rsp=Opt(Bytes))
model(CTRL_ADDR, fields=dict(_public_address=ADDR, _random_address=ADDR, link=LOpt(Inst('ghost:Link'))), methods={'send_advertising_pdu': Callback('send_advertising_pdu', effect=adv_tx)})
LEGACY = 'bumble.controller:LegacyAdvertiser'
model(LEGACY, fields=dict(controller=Inst(CTRL_ADDR), own_address_type=IntRange(0, 3), enabled=Bool, timer_handle=LOpt(Inst('ghost:TimerHandle')),
                          advertising_type=IntRange(0, 4), advertising_data=Bytes, scan_response_data=Bytes))
ADV_PARAMS = 'bumble.hci:HCI_LE_Set_Extended_Advertising_Parameters_Command#c06'
model(ADV_PARAMS, fields=dict(own_address_type=IntRange(0, 3)))
ADVSET = 'bumble.controller:AdvertisingSet'
model(ADVSET, fields=dict(controller=Inst(CTRL_ADDR), handle=IntRange(0, 0xEF), parameters=LOpt(Inst(ADV_PARAMS)), enabled=Bool,
                          timer_handle=LOpt(Inst('ghost:TimerHandle')), random_address=LOpt(ADDR), data=ByteArray, scan_response_data=ByteArray))
CREATE = 'bumble.hci:HCI_LE_Create_Connection_Command#c06'
model(CREATE, fields=dict(peer_address=ADDR, own_address_type=IntRange(0, 3), connection_interval_min=Int, max_latency=Int, supervision_timeout=Int))
EXT_CREATE = 'bumble.hci:HCI_LE_Extended_Create_Connection_Command#c06'
model(EXT_CREATE, fields=dict(peer_address=ADDR, own_address_type=IntRange(0, 3), connection_interval_mins=ConcList(Int, 1), max_latencies=ConcList(Int, 1),
                              supervision_timeouts=ConcList(Int, 1)))

CTRL = 'bumble.controller:Controller#c06'
_BASE_FIELDS = dict(table_fields(), _public_address=ADDR, _random_address=ADDR, name=Str)


def ctrl_model(suffix, **extra):
    """a view of Controller: the tables, the two own addresses and the fields one group of functions reads"""
    name = CTRL + suffix
    model(name, fields=dict(_BASE_FIELDS, **extra), methods={'send_hci_packet': Callback('send_hci_packet', effect=ctl_send)})
    return name


C = Inst(ctrl_model(''))
CTRL_ADV = ctrl_model('-adv', link=LOpt(Inst('ghost:Link')), le_legacy_advertiser=Inst(LEGACY), advertising_sets=ext_c06.ConcDictOf(Inst(ADVSET), 0))
CTRL_INIT = ctrl_model('-init', link=LOpt(Inst('ghost:Link')), pending_le_connection=Opt(OneOf(Inst(CREATE), Inst(EXT_CREATE))))
PUBLIC_ADDRESS_TYPE = int(hci.Address.PUBLIC_DEVICE_ADDRESS)
OWN_PUBLIC = int(hci.OwnAddressType.PUBLIC)


def own_addresses_linked(self):
    """the advertisers' `controller` is this controller (modelled as a view object with the same two addresses)"""
    return [
        self.le_legacy_advertiser.controller._public_address == self._public_address,
        self.le_legacy_advertiser.controller._random_address == self._random_address,
    ]


# ---------------------------------------------------------------------------
# on_link_acl_data: a PDU that arrives from `sender_address` goes to the host on the handle of the connection whose
# peer is that address (and nowhere else); a PDU from an address without connection is dropped
# ---------------------------------------------------------------------------
def table_of(self, transport):
    return self.le_connections if transport == LE else self.classic_connections


for _t, _tname in ((LE, 'le'), (BR_EDR, 'classic')):
    contract(
        'bumble.controller:Controller.on_link_acl_data',
        key=f'bumble.controller:Controller.on_link_acl_data@{_tname}',
        prop='C06',
        params=dict(self=C, sender_address=ADDR, transport=Const(_t), data=Bytes),
        ghost=SEND_GHOST,
        ensures=lambda self, sender_address, transport, data, ghost, old: [
            # exactly one ACL packet for a known sender, none for an unknown one
            ghost.acl == old.ghost.acl + (1 if mhas(table_of(self, transport), sender_address) else 0),
            ghost.sent == old.ghost.sent + (1 if mhas(table_of(self, transport), sender_address) else 0),
            implies(mhas(table_of(self, transport), sender_address), ghost.acl_handle == mget(table_of(self, transport), sender_address, 'handle')),
            implies(mhas(table_of(self, transport), sender_address), ghost.acl_data == data and ghost.acl_len == len(data)),
        ],
        ensures_names=['one-packet-iff-connection-to-sender', 'nothing-else-sent', 'on-the-handle-of-the-senders-connection', 'payload-byte-for-byte'],
        modifies=['ghost.sent', 'ghost.acl', 'ghost.acl_handle', 'ghost.acl_pb', 'ghost.acl_len', 'ghost.acl_data'],
        native_setup=nat_fix,
    )


# ---------------------------------------------------------------------------
# on_le_disconnected: the disconnection is reported on the connection's handle and exactly that entry is removed
# ---------------------------------------------------------------------------
def others_unchanged(t, t0, key):
    """every entry of the old table t0 except `key` is still there with the same record (columns of a connection)"""
    return all_keys(t0, lambda k: implies(k != key, mhas(t, k) and h_of(t, k) == h_of(t0, k) and mget(t, k, 'self_address') == mget(t0, k, 'self_address')
                                          and mget(t, k, 'peer_address') == mget(t0, k, 'peer_address') and mget(t, k, 'role') == mget(t0, k, 'role')))


def no_new_keys(t, t0, key):
    return all_keys(t, lambda k: k == key or mhas(t0, k))


CONN_OBJ = 'bumble.controller:Connection#obj'
model(CONN_OBJ, fields=dict(handle=Int, peer_address=ADDR, self_address=ADDR, role=IntRange(0, 1)))

contract(
    'bumble.controller:Controller.on_le_disconnected',
    prop='C06',
    params=dict(self=C, connection=Inst(CONN_OBJ), reason=IntRange(0, 255)),
    ghost=SEND_GHOST,
    # the connection is the table entry of its peer address (callers pass le_connections.get(sender) / the entry found by handle)
    requires=lambda self, connection: [mhas(self.le_connections, connection.peer_address), h_of(self.le_connections, connection.peer_address) == connection.handle],
    ensures=lambda self, connection, reason, ghost, old: [
        ghost.dc == old.ghost.dc + 1,
        ghost.sent == old.ghost.sent + 1,
        ghost.dc_handle == old.connection.handle and ghost.dc_reason == reason and ghost.dc_status == 0,
        not mhas(self.le_connections, old.connection.peer_address),
        others_unchanged(self.le_connections, old.self.le_connections, old.connection.peer_address),
        no_new_keys(self.le_connections, old.self.le_connections, old.connection.peer_address),
    ] + tables_inv_post(self, old.self),
    ensures_names=['one-disconnection-event', 'nothing-else-sent', 'event-names-the-connection', 'entry-removed', 'other-entries-untouched', 'no-entry-added'] + INV_POST_NAMES,
    modifies=['self.le_connections', 'ghost.sent', 'ghost.dc', 'ghost.dc_status', 'ghost.dc_handle', 'ghost.dc_reason'],
    native_setup=nat_fix,
)


# ---------------------------------------------------------------------------
# on_le_connect_ind: only the advertiser whose address is the CONNECT_IND's advertiser address accepts
# ---------------------------------------------------------------------------
CONNECT_IND = 'bumble.ll:ConnectInd'
model(CONNECT_IND, fields=dict(initiator_address=ADDR, advertiser_address=ADDR, interval=Int, latency=Int, timeout=Int))


def legacy_address(self):
    """address the legacy advertiser puts in its advertising PDUs"""
    adv = self.le_legacy_advertiser
    return self._public_address if adv.own_address_type == PUBLIC_ADDRESS_TYPE else self._random_address


def set_address_is(self, s, a):
    """the advertising set s advertises with address a (a set without parameters has no address)"""
    return s.parameters is not None and (
        (s.parameters.own_address_type == PUBLIC_ADDRESS_TYPE and self._public_address == a)
        or (s.parameters.own_address_type != PUBLIC_ADDRESS_TYPE and s.random_address is not None and s.random_address == a)
    )


def sets_linked(self, n):
    return [x for i in range(n) for x in (self.advertising_sets[i].controller._public_address == self._public_address,
                                           self.advertising_sets[i].controller._random_address == self._random_address)]


def connect_ind_contract(n):
    def legacy_hit(self, packet):
        return self.le_legacy_advertiser.enabled and legacy_address(self) == packet.advertiser_address

    def set_hit(self, packet, i):
        s = self.advertising_sets[i]
        return s.enabled and set_address_is(self, s, packet.advertiser_address)

    def any_hit(self, packet):
        r = legacy_hit(self, packet)
        for i in range(n):
            r = r or set_hit(self, packet, i)
        return r

    def requires(self, packet):
        return own_addresses_linked(self) + sets_linked(self, n) + [self.link is not None]

    def ensures(self, packet, ghost, old):
        le, le0 = self.le_connections, old.self.le_connections
        me, peer = packet.advertiser_address, packet.initiator_address
        hit = any_hit(old.self, packet)
        return [
            # a bystander (no enabled advertiser with that address) does nothing at all
            implies(not hit, ghost.sent == old.ghost.sent and ghost.cc == old.ghost.cc),
            implies(not hit, others_unchanged(le, le0, me) and iff(mhas(le, me), mhas(le0, me)) and no_new_keys(le, le0, me)),
            implies(not hit and mhas(le0, me), h_of(le, me) == h_of(le0, me)),
            # the addressed advertiser accepts: one connection complete event ...
            implies(hit, ghost.cc == old.ghost.cc + 1 and ghost.cc_status == 0 and ghost.cc_role == PERIPHERAL and ghost.cc_peer == peer),
            # ... for the new table entry of the initiator, whose own address is the advertiser address of the CONNECT_IND
            implies(hit, mhas(le, peer) and mget(le, peer, 'peer_address') == peer and mget(le, peer, 'self_address') == me),
            implies(hit, mget(le, peer, 'role') == PERIPHERAL and mget(le, peer, 'transport') == LE and h_of(le, peer) == ghost.cc_handle),
            # ... on a handle that no entry of any table had before
            implies(hit, unused(old.self, ghost.cc_handle)),
            implies(hit, others_unchanged(le, le0, peer) and no_new_keys(le, le0, peer)),
            # the advertiser that accepted stops advertising (legacy has priority, as in the code)
            implies(legacy_hit(old.self, packet), not self.le_legacy_advertiser.enabled),
        ] + tables_inv_post(self, old.self)

    names = ['bystander-sends-nothing', 'bystander-table-untouched', 'bystander-handle-untouched', 'one-connection-complete-for-the-initiator',
             'entry-for-the-initiator-with-advertiser-address', 'entry-role-transport-handle', 'handle-was-unused-in-every-table', 'other-entries-untouched',
             'legacy-advertiser-stopped'] + INV_POST_NAMES

    def on_exhausted(self, packet, ghost, old):
        le, le0 = self.le_connections, old.self.le_connections
        return [ghost.sent == old.ghost.sent, others_unchanged(le, le0, packet.initiator_address), iff(mhas(le, packet.initiator_address), mhas(le0, packet.initiator_address))]

    contract(
        'bumble.controller:Controller.on_le_connect_ind',
        key=f'bumble.controller:Controller.on_le_connect_ind@sets{n}',
        prop='C06',
        params=dict(self=Inst(CTRL_ADV, advertising_sets=ext_c06.ConcDictOf(Inst(ADVSET), n)), packet=Inst(CONNECT_IND)),
        ghost=dict(SEND_GHOST, cancelled=Int, **LINK_GHOST),
        requires=requires,
        ensures=ensures,
        ensures_names=names,
        raises={StopIteration: on_exhausted},
        modifies=['self.le_connections', 'self.le_legacy_advertiser.enabled', 'self.le_legacy_advertiser.timer_handle', 'ghost.cancelled']
        + [f'self.advertising_sets[{i}].{f}' for i in range(n) for f in ('enabled', 'timer_handle')] + SEND_MOD,
        uses=['bumble.controller:Controller.allocate_connection_handle'],
        inline=['Controller.public_address', 'Controller.random_address', 'LegacyAdvertiser.address', 'AdvertisingSet.address', 'LegacyAdvertiser.stop',
                'AdvertisingSet.stop', 'Connection.__post_init__', 'HCI_AclDataPacketAssembler.__init__'],
        native_setup=nat_fix,
        note='' if n == 0 else f'bounded(2): {n} extended advertising set(s); the connection tables are of any size',
    )


for _n in (0, 1):
    connect_ind_contract(_n)


# ---------------------------------------------------------------------------
# create_le_connection: the initiator's entry for the advertiser it asked for, with the own address it asked for
# ---------------------------------------------------------------------------
def initiator_address(self, pending):
    """own address of the pending LE Create Connection command: public iff own_address_type is PUBLIC"""
    return self._public_address if pending.own_address_type == OWN_PUBLIC else self._random_address


def create_le_ensures(self, peer_address, ghost, old):
    le, le0 = self.le_connections, old.self.le_connections
    pending = old.self.pending_le_connection
    me = initiator_address(old.self, pending)
    fresh = not mhas(le0, peer_address)
    return [
        # already connected to that peer: nothing happens
        implies(not fresh, ghost.sent == old.ghost.sent and ghost.cc == old.ghost.cc and ghost.adv_sent == old.ghost.adv_sent and ghost.ci == old.ghost.ci and others_unchanged(le, le0, peer_address)
                and no_new_keys(le, le0, peer_address) and mhas(le, peer_address) and h_of(le, peer_address) == h_of(le0, peer_address)),
        # otherwise one CONNECT_IND goes on the air, from the requested own address to the requested advertiser
        implies(fresh and self.link is not None, ghost.ci == old.ghost.ci + 1 and ghost.adv_sent == old.ghost.adv_sent + 1 and ghost.ci_initiator == me and ghost.ci_advertiser == peer_address),
        # the host is told about exactly one connection, as central, to that peer
        implies(fresh, ghost.cc == old.ghost.cc + 1 and ghost.sent == old.ghost.sent + 1 and ghost.cc_status == 0 and ghost.cc_role == CENTRAL and ghost.cc_peer == peer_address),
        # the table entry of that peer carries the same handle and the own address used in the CONNECT_IND
        implies(fresh, mhas(le, peer_address) and mget(le, peer_address, 'peer_address') == peer_address and mget(le, peer_address, 'self_address') == me),
        implies(fresh, mget(le, peer_address, 'role') == CENTRAL and mget(le, peer_address, 'transport') == LE and h_of(le, peer_address) == ghost.cc_handle),
        implies(fresh, unused(old.self, ghost.cc_handle)),
        implies(fresh, others_unchanged(le, le0, peer_address) and no_new_keys(le, le0, peer_address)),
        implies(fresh, self.pending_le_connection is None),
    ] + tables_inv_post(self, old.self)


CREATE_LE_NAMES = ['already-connected-is-a-no-op', 'one-connect-ind-from-own-address-to-the-advertiser', 'one-connection-complete-as-central', 'entry-for-the-advertiser-with-own-address',
                   'entry-role-transport-handle', 'handle-was-unused-in-every-table', 'other-entries-untouched', 'pending-connect-consumed'] + INV_POST_NAMES


def create_le_exhausted(self, peer_address, ghost, old):
    le, le0 = self.le_connections, old.self.le_connections
    return [ghost.sent == old.ghost.sent, ghost.cc == old.ghost.cc, ghost.adv_sent == old.ghost.adv_sent, ghost.ci == old.ghost.ci, others_unchanged(le, le0, peer_address),
            iff(mhas(le, peer_address), mhas(le0, peer_address))]


CREATE_LE = dict(
    params=dict(self=Inst(CTRL_INIT, pending_le_connection=OneOf(Inst(CREATE), Inst(EXT_CREATE))), peer_address=ADDR),
    ghost=dict(SEND_GHOST, **LINK_GHOST),
    # called by on_advertising_pdu for the advertiser the pending LE Create Connection command names (never without one)
    requires=lambda self, peer_address: [self.pending_le_connection.peer_address == peer_address],
    ensures=create_le_ensures,
    ensures_names=CREATE_LE_NAMES,
    raises={StopIteration: create_le_exhausted},
    modifies=['self.le_connections', 'self.pending_le_connection'] + SEND_MOD + ['ghost.' + n for n in LINK_GHOST],
    native_setup=nat_fix,
)
contract(
    'bumble.controller:Controller.create_le_connection',
    prop='C06',
    uses=['bumble.controller:Controller.allocate_connection_handle'],
    inline=['Controller.public_address', 'Controller.random_address', 'Controller.send_advertising_pdu', 'Connection.__post_init__', 'HCI_AclDataPacketAssembler.__init__'],
    **CREATE_LE,
)


# ===========================================================================
# bumble/link.py: routing on the LocalLink bus
# ===========================================================================
def loop_call_soon(ghost, callback, *args):
    """asyncio loop.call_soon(callback, *args): counts what is scheduled and observes *what the callback does* by running
    it right away (the callbacks of link.py only read their own captured locals, so when they run makes no difference
    to what they deliver; the order in which the loop runs scheduled callbacks is environment)"""
    ghost.scheduled = ghost.scheduled + 1
    callback(*args)


model('ghost:Loop', fields={}, methods={'call_soon': Callback('call_soon', effect=loop_call_soon)})
LOOP_STUBS = {asyncio.get_running_loop: Callback('get_running_loop', effect=lambda ghost: ghost.loop)}


def rx_acl(ghost, receiver, sender_address, transport, data):
    """<controller>.on_link_acl_data(sender_address, transport, data) as scheduled by the link"""
    ghost.rx = ghost.rx + 1
    ghost.rx_target = receiver
    ghost.rx_source = sender_address
    ghost.rx_transport = transport
    ghost.rx_data = data


def rx_ll_control(ghost, receiver, sender_address, packet):
    ghost.rx = ghost.rx + 1
    ghost.rx_target = receiver
    ghost.rx_source = sender_address
    ghost.rx_packet = packet


def rx_lmp(ghost, receiver, sender_address, packet):
    ghost.rx = ghost.rx + 1
    ghost.rx_target = receiver
    ghost.rx_source = sender_address
    ghost.rx_packet = packet


def rx_adv(ghost, receiver, packet):
    receiver.rx_adv = receiver.rx_adv + 1
    receiver.rx_adv_packet = packet


# a controller on the link, as the link sees it: its LE table, its public address, and what is scheduled on it
LCTRL = 'bumble.controller:Controller#onlink'
model(
    LCTRL,
    fields=dict(le_connections=MapOf(CONN), _public_address=ADDR, _random_address=ADDR, rx_adv=Int, rx_adv_packet=LOpt(Opaque('pdu'))),
    methods={
        'on_link_acl_data': Callback('on_link_acl_data', effect=rx_acl, with_self=True),
        'on_ll_control_pdu': Callback('on_ll_control_pdu', effect=rx_ll_control, with_self=True),
        'on_lmp_packet': Callback('on_lmp_packet', effect=rx_lmp, with_self=True),
        'on_ll_advertising_pdu': Callback('on_ll_advertising_pdu', effect=rx_adv, with_self=True),
    },
)
LC = Inst(LCTRL)
LINK = 'bumble.link:LocalLink'


def owns_self_address(c, address):
    """controller c has an LE connection whose own address is `address`"""
    return any_key(c.le_connections, lambda k: mget(c.le_connections, k, 'self_address') == address)


def inner_inv(controller, address, _seen):
    """no connection visited so far in this controller has that own address"""
    return [all_keys(_seen, lambda k: mget(controller.le_connections, k, 'self_address') != address)]


for _n in (1, 2, 3):
    model(f'{LINK}#n{_n}', fields=dict(controllers=ConcList(LC, _n, 'set')))

    def _find_le_post(n):
        def post(self, address, res):
            cs = [self.controllers[i] for i in range(n)]
            is_one = False
            for c in cs:
                is_one = is_one or same(res, c)
            nobody = True
            for c in cs:
                nobody = nobody and not owns_self_address(c, address)
            return [
                res is None or is_one,
                res is None or owns_self_address(res, address),
                implies(res is None, nobody),
            ]

        return post

    contract(
        'bumble.link:LocalLink.find_le_controller',
        key=f'bumble.link:LocalLink.find_le_controller@n{_n}',
        prop='C06',
        params=dict(self=Inst(f'{LINK}#n{_n}'), address=ADDR),
        ensures=_find_le_post(_n),
        ensures_names=['a-controller-of-this-link', 'which-owns-a-connection-with-that-own-address', 'none-only-if-nobody-does'],
        invariants={1: inner_inv},
        modifies=[],
        native_setup=nat_fix,
        note=f'bounded(3): {_n} controller(s) on the link; their connection tables are of any size',
    )

    def _find_classic_post(n):
        def post(self, address, res):
            cs = [self.controllers[i] for i in range(n)]
            is_one = False
            for c in cs:
                is_one = is_one or same(res, c)
            nobody = True
            for c in cs:
                nobody = nobody and c._public_address != address
            return [res is None or is_one, res is None or res._public_address == address, implies(res is None, nobody)]

        return post

    contract(
        'bumble.link:LocalLink.find_classic_controller',
        key=f'bumble.link:LocalLink.find_classic_controller@n{_n}',
        prop='C06',
        params=dict(self=Inst(f'{LINK}#n{_n}'), address=ADDR),
        ensures=_find_classic_post(_n),
        ensures_names=['a-controller-of-this-link', 'whose-public-address-is-that-address', 'none-only-if-nobody-has-it'],
        modifies=[],
        inline=['Controller.public_address'],
        native_setup=nat_fix,
        note=f'bounded(3): {_n} controller(s) on the link',
    )

# any number of controllers: the set is abstracted to "some controllers" (every element met is an arbitrary controller),
# which keeps what matters for mis-routing -- whoever is returned does own such a connection / has that public address
model(f'{LINK}#any', fields=dict(controllers=AnyListOf(LC)))
contract(
    'bumble.link:LocalLink.find_le_controller',
    key='bumble.link:LocalLink.find_le_controller@any',
    prop='C06',
    params=dict(self=Inst(f'{LINK}#any'), address=ADDR),
    ensures=lambda address, res: [res is None or owns_self_address(res, address)],
    ensures_names=['which-owns-a-connection-with-that-own-address'],
    invariants={0: lambda address: [address == address], 1: inner_inv},
    modifies=[],
    native_setup=nat_fix,
)
contract(
    'bumble.link:LocalLink.find_classic_controller',
    key='bumble.link:LocalLink.find_classic_controller@any',
    prop='C06',
    params=dict(self=Inst(f'{LINK}#any'), address=ADDR),
    ensures=lambda address, res: [res is None or res._public_address == address],
    ensures_names=['whose-public-address-is-that-address'],
    invariants={0: lambda address: [address == address]},
    modifies=[],
    inline=['Controller.public_address'],
    native_setup=nat_fix,
)


# callee views of the two look-ups (what send_* may rely on: proved above for any number of controllers).  What the
# look-up returns is a ghost of the pre-state (ghost.found_le / ghost.found_classic), so that a counter-model can be
# rebuilt natively as a link holding the sender and that controller.
model(f'{LINK}#routing', fields={})
FOUND_GHOST = dict(found_le=Opt(LC), found_classic=Opt(LC))
contract(
    'bumble.link:LocalLink.find_le_controller',
    key='bumble.link:LocalLink.find_le_controller@callee',
    params=dict(self=Inst(f'{LINK}#routing'), address=ADDR),
    ghost=FOUND_GHOST,
    ensures=lambda address, res: [res is None or owns_self_address(res, address)],
    result=lambda ghost: ghost.found_le,
    modifies=[],
)
contract(
    'bumble.link:LocalLink.find_classic_controller',
    key='bumble.link:LocalLink.find_classic_controller@callee',
    params=dict(self=Inst(f'{LINK}#routing'), address=ADDR),
    ghost=FOUND_GHOST,
    ensures=lambda address, res: [res is None or res._public_address == address],
    result=lambda ghost: ghost.found_classic,
    modifies=[],
)


def nat_link(env):
    """native pre-state of a send_*: a real link whose controllers are the sender and whatever the look-up finds"""
    nat_fix(env)
    g = env['ghost']
    cs = [c for c in (env.get('sender_controller'), getattr(g, 'found_le', None), getattr(g, 'found_classic', None)) if c is not None]
    env['self'].controllers = set(cs)


FIND_USES = ['bumble.link:LocalLink.find_le_controller@callee', 'bumble.link:LocalLink.find_classic_controller@callee']
RX_GHOST = dict(FOUND_GHOST, scheduled=Int, loop=Inst('ghost:Loop'), rx=Int, rx_target=Opt(LC), rx_source=ADDR, rx_transport=Int, rx_data=Bytes, rx_packet=Opt(Opaque('pdu')))
RX_MOD = ['ghost.scheduled', 'ghost.rx', 'ghost.rx_target', 'ghost.rx_source', 'ghost.rx_transport', 'ghost.rx_data', 'ghost.rx_packet']

# ---------------------------------------------------------------------------
# send_acl_data: delivered to the controller owning the peer end, naming as source the sender's own address ON THAT
# CONNECTION -- the receiver looks the connection up by that address (on_link_acl_data above)
# ---------------------------------------------------------------------------
contract(
    'bumble.link:LocalLink.send_acl_data',
    key='bumble.link:LocalLink.send_acl_data@le',
    prop='C06',
    params=dict(self=Inst(f'{LINK}#routing'), sender_controller=LC, destination_address=ADDR, transport=Const(LE), data=Bytes),
    ghost=RX_GHOST,
    # the sender has a connection to that peer: Connection.on_acl_pdu sends to its own peer_address, and every connection
    # is stored under its peer address (table invariant)
    requires=lambda sender_controller, destination_address: [mhas(sender_controller.le_connections, destination_address)],
    ensures=lambda sender_controller, destination_address, transport, data, ghost, old: [
        ghost.rx <= old.ghost.rx + 1 and ghost.scheduled == old.ghost.scheduled + (ghost.rx - old.ghost.rx),
        implies(ghost.rx == old.ghost.rx + 1, ghost.rx_target is not None and owns_self_address(ghost.rx_target, destination_address)),
        implies(ghost.rx == old.ghost.rx + 1, ghost.rx_source == mget(sender_controller.le_connections, destination_address, 'self_address')),
        implies(ghost.rx == old.ghost.rx + 1, ghost.rx_transport == LE and ghost.rx_data == data),
    ],
    ensures_names=['at-most-one-delivery-scheduled', 'to-a-controller-owning-the-peer-end', 'source-is-the-senders-own-address-on-that-connection', 'transport-and-payload-unchanged'],
    modifies=RX_MOD,
    uses=FIND_USES,
    stubs=LOOP_STUBS,
    inline=['Controller.public_address', 'Controller.random_address'],
    native_setup=nat_link,
)
contract(
    'bumble.link:LocalLink.send_acl_data',
    key='bumble.link:LocalLink.send_acl_data@classic',
    prop='C06',
    params=dict(self=Inst(f'{LINK}#routing'), sender_controller=LC, destination_address=ADDR, transport=Const(BR_EDR), data=Bytes),
    ghost=RX_GHOST,
    ensures=lambda sender_controller, destination_address, transport, data, ghost, old: [
        ghost.rx <= old.ghost.rx + 1 and ghost.scheduled == old.ghost.scheduled + (ghost.rx - old.ghost.rx),
        implies(ghost.rx == old.ghost.rx + 1, ghost.rx_target is not None and ghost.rx_target._public_address == destination_address),
        # BR/EDR connections are keyed by the peer's BD_ADDR = its public address
        implies(ghost.rx == old.ghost.rx + 1, ghost.rx_source == sender_controller._public_address),
        implies(ghost.rx == old.ghost.rx + 1, ghost.rx_transport == BR_EDR and ghost.rx_data == data),
    ],
    ensures_names=['at-most-one-delivery-scheduled', 'to-the-controller-with-that-bd-addr', 'source-is-the-senders-bd-addr', 'transport-and-payload-unchanged'],
    modifies=RX_MOD,
    uses=FIND_USES,
    stubs=LOOP_STUBS,
    inline=['Controller.public_address', 'Controller.random_address'],
    native_setup=nat_link,
)
contract(
    'bumble.link:LocalLink.send_acl_data',
    key='bumble.link:LocalLink.send_acl_data@other-transport',
    prop='C06',
    params=dict(self=Inst(f'{LINK}#routing'), sender_controller=LC, destination_address=ADDR, transport=Int, data=Bytes),
    ghost=RX_GHOST,
    requires=lambda transport: [transport != LE, transport != BR_EDR],
    ensures=lambda: [False],
    ensures_names=['never-returns-normally'],
    raises={ValueError: lambda ghost, old: [ghost.scheduled == old.ghost.scheduled]},
    modifies=RX_MOD,
    uses=FIND_USES,
    stubs=LOOP_STUBS,
    native_setup=nat_link,
)

# ---------------------------------------------------------------------------
# send_ll_control_pdu / send_lmp_packet
# ---------------------------------------------------------------------------
contract(
    'bumble.link:LocalLink.send_ll_control_pdu',
    prop='C06',
    params=dict(self=Inst(f'{LINK}#routing'), sender_address=ADDR, receiver_address=ADDR, packet=Opaque('pdu')),
    ghost=RX_GHOST,
    ensures=lambda sender_address, receiver_address, packet, ghost, old: [
        ghost.rx == old.ghost.rx + 1 and ghost.scheduled == old.ghost.scheduled + 1,
        ghost.rx_target is not None and owns_self_address(ghost.rx_target, receiver_address),
        ghost.rx_source == sender_address and ghost.rx_packet == packet,
    ],
    ensures_names=['exactly-one-delivery-scheduled', 'to-a-controller-owning-the-peer-end', 'sender-address-and-pdu-unchanged'],
    raises={core.InvalidArgumentError: lambda ghost, old: [ghost.scheduled == old.ghost.scheduled]},
    modifies=RX_MOD,
    uses=FIND_USES,
    stubs=LOOP_STUBS,
    native_setup=nat_link,
)
contract(
    'bumble.link:LocalLink.send_lmp_packet',
    prop='C06',
    params=dict(self=Inst(f'{LINK}#routing'), sender_controller=LC, receiver_address=ADDR, packet=Opaque('pdu')),
    ghost=RX_GHOST,
    ensures=lambda sender_controller, receiver_address, packet, ghost, old: [
        ghost.rx == old.ghost.rx + 1 and ghost.scheduled == old.ghost.scheduled + 1,
        ghost.rx_target is not None and ghost.rx_target._public_address == receiver_address,
        ghost.rx_source == sender_controller._public_address and ghost.rx_packet == packet,
    ],
    ensures_names=['exactly-one-delivery-scheduled', 'to-the-controller-with-that-bd-addr', 'source-is-the-senders-bd-addr-and-pdu-unchanged'],
    raises={core.InvalidArgumentError: lambda ghost, old: [ghost.scheduled == old.ghost.scheduled]},
    modifies=RX_MOD,
    uses=FIND_USES,
    stubs=LOOP_STUBS,
    inline=['Controller.public_address'],
    native_setup=nat_link,
)


# ---------------------------------------------------------------------------
# send_advertising_pdu: every other controller on the link gets the PDU once, the sender does not
# (ghost driver: it builds a link of n controllers, one of which is the sender, and calls the real function)
# ---------------------------------------------------------------------------
def _drive_send_adv(n, s):
    def drive(link, c0, c1, c2, packet, ghost):
        cs = [c0, c1, c2][:n]
        link.controllers = set(cs)
        before = [c.rx_adv for c in cs]
        scheduled = ghost.scheduled
        link.send_advertising_pdu(cs[s], packet)
        assert ghost.scheduled == scheduled + (n - 1), 'one-delivery-per-other-controller'
        for i in range(n):
            if i == s:
                assert cs[i].rx_adv == before[i], 'sender-does-not-hear-itself'
            else:
                assert cs[i].rx_adv == before[i] + 1 and cs[i].rx_adv_packet == packet, 'every-other-controller-gets-the-pdu-once'

    return drive


for _n in (1, 2, 3):
    for _s in range(_n):
        lemma(
            f'send_advertising_pdu_n{_n}_sender{_s}',
            _drive_send_adv(_n, _s),
            prop='C06',
            params=dict(link=Inst(f'{LINK}#routing'), c0=LC, c1=LC, c2=LC, packet=Opaque('pdu')),
            ghost=dict(scheduled=Int, loop=Inst('ghost:Loop')),
            inline=['LocalLink.send_advertising_pdu'],
            stubs=LOOP_STUBS,
            native_setup=nat_fix,
            note=f'bounded(3): {_n} controller(s) on the link, the sender is number {_s}',
        )


# ===========================================================================
# the two table entries made for ONE CONNECT_IND (lemma connection_pair_established) route to each other, whatever the
# own-address types (lemma reverse_lookup)
# ===========================================================================
def no_own_address(c, a):
    """no connection of controller c uses `a` as its own address (own addresses are unique on the link)"""
    return all_keys(c.le_connections, lambda k: mget(c.le_connections, k, 'self_address') != a)


def paired(central, peripheral, own, P, hc, hp):
    """the two ends of one LE connection: the central's entry for P (own address `own`, handle hc) and the peripheral's
    entry for `own` (own address P, handle hp)"""
    cl, pl = central.le_connections, peripheral.le_connections
    return [
        mhas(cl, P) and mget(cl, P, 'self_address') == own and mget(cl, P, 'peer_address') == P and h_of(cl, P) == hc,
        mhas(pl, own) and mget(pl, own, 'self_address') == P and mget(pl, own, 'peer_address') == own and h_of(pl, own) == hp,
    ]


def connection_pair_established(central, peripheral, ghost):
    P = central.pending_le_connection.peer_address
    own = initiator_address(central, central.pending_le_connection)
    # 1. the central sees P's advertisement while its LE Create Connection to P is pending
    try:
        central.create_le_connection(P)
    except StopIteration:
        return  # all 3839 handles of the central are in use: no connection is made
    hc = ghost.cc_handle
    assert holds(lambda: ghost.cc == 1 and ghost.cc_role == CENTRAL and ghost.cc_peer == P), 'central-reports-the-connection-to-P'
    assert holds(lambda: ghost.ci_advertiser == P and ghost.ci_initiator == own), 'connect-ind-names-both-ends'
    # 2. that CONNECT_IND reaches the peripheral, which advertises with address P (legacy advertising)
    try:
        peripheral.on_le_connect_ind(ll.ConnectInd(initiator_address=ghost.ci_initiator, advertiser_address=ghost.ci_advertiser, interval=0, latency=0, timeout=0))
    except StopIteration:
        return
    hp = ghost.cc_handle
    assert holds(lambda: ghost.cc == 2 and ghost.cc_role == PERIPHERAL and ghost.cc_peer == own), 'peripheral-reports-the-connection-to-the-centrals-address'
    assert holds(lambda: paired(central, peripheral, own, P, hc, hp)), 'both-ends-hold-matching-entries'
    # own addresses stay unique: the central still uses P on no connection, the peripheral the central's address on none
    assert holds(lambda: no_own_address(central, P) and no_own_address(peripheral, own)), 'own-addresses-still-unique'


def pair_requires(central, peripheral, ghost):
    if central.pending_le_connection is None:
        return [False]  # an LE Create Connection command is pending at the central
    return own_addresses_linked(peripheral) + [
        ghost.cc == 0,
        central.link is not None,
        peripheral.link is not None,
        # the central is not connected to P yet; the peripheral advertises (legacy) with the address the central asked for
        not mhas(central.le_connections, central.pending_le_connection.peer_address),
        peripheral.le_legacy_advertiser.enabled,
        legacy_address(peripheral) == central.pending_le_connection.peer_address,
        # own addresses are unique on the link (environment): the two devices use different addresses, the central uses P
        # on no connection, the peripheral uses the central's address on none
        initiator_address(central, central.pending_le_connection) != central.pending_le_connection.peer_address,
        no_own_address(central, central.pending_le_connection.peer_address),
        no_own_address(peripheral, initiator_address(central, central.pending_le_connection)),
    ]


lemma(
    'connection_pair_established',
    connection_pair_established,
    prop='C06',
    params=dict(central=Inst(CTRL_INIT), peripheral=Inst(CTRL_ADV)),
    ghost=dict(SEND_GHOST, cancelled=Int, **LINK_GHOST),
    requires=pair_requires,
    uses=['bumble.controller:Controller.create_le_connection', 'bumble.controller:Controller.on_le_connect_ind@sets0'],
    feas_timeout_ms=300,
    native_setup=nat_fix,
)


def reverse_lookup(link, central, peripheral, central_first, own, P, hc, hp, data_c2p, data_p2c, ghost):
    # LocalLink.controllers is a set: both enumeration orders (a list is enumerated in the order given)
    link.controllers = [central, peripheral] if central_first else [peripheral, central]
    n = ghost.acl
    # central -> peripheral: Connection.on_acl_pdu sends to the connection's peer address
    link.send_acl_data(central, P, LE, data_c2p)
    assert holds(lambda: ghost.acl == n + 1 and ghost.acl_handle == hp and ghost.acl_data == data_c2p), 'central-to-peripheral-delivered-on-the-peripherals-handle'
    # peripheral -> central
    link.send_acl_data(peripheral, own, LE, data_p2c)
    assert holds(lambda: ghost.acl == n + 2 and ghost.acl_handle == hc and ghost.acl_data == data_p2c), 'peripheral-to-central-delivered-on-the-centrals-handle'


lemma(
    'reverse_lookup',
    reverse_lookup,
    prop='C06',
    params=dict(link=Inst(f'{LINK}#routing'), central=C, peripheral=C, central_first=OneOf(True, False), own=ADDR, P=ADDR, hc=Int, hp=Int, data_c2p=Bytes, data_p2c=Bytes),
    ghost=dict(SEND_GHOST, scheduled=Int, loop=Inst('ghost:Loop')),
    requires=lambda central, peripheral, own, P, hc, hp: paired(central, peripheral, own, P, hc, hp) + [
        # own addresses are unique on the link: the central uses P on no connection, the peripheral uses the central's address on none
        no_own_address(central, P),
        no_own_address(peripheral, own),
    ],
    uses=['bumble.controller:Controller.on_link_acl_data@le'],
    inline=['LocalLink.send_acl_data', 'LocalLink.find_le_controller', 'Controller.public_address', 'Controller.random_address'],
    invariants={('LocalLink.find_le_controller', 1): inner_inv},
    loop_modifies={('LocalLink.find_le_controller', 1): []},
    modifies=['link.controllers', 'ghost.scheduled'] + SEND_MOD,
    stubs=LOOP_STUBS,
    native_setup=nat_fix,
)


# ===========================================================================
# what the abstraction of hci.Address to an equality class relies on (proved on the real __eq__ / __hash__)
# ===========================================================================
ADDRESS = 'bumble.hci:Address'
model(ADDRESS, fields=dict(address_bytes=Bytes, address_type=OneOf(*[int(t) for t in hci.AddressType])))
A = Inst(ADDRESS)


def addr_class(a):
    """the equality class of an address: its bytes and whether it is public"""
    return (a.address_bytes, a.address_type == 0 or a.address_type == 2)


def address_eq_is_an_equivalence(a, b, c):
    ab = a == b
    assert ab == (a.address_bytes == b.address_bytes and (a.address_type in (0, 2)) == (b.address_type in (0, 2))), 'eq-compares-bytes-and-publicness'
    assert a == a, 'reflexive'
    assert (b == a) == ab, 'symmetric'
    if ab and b == c:
        assert a == c, 'transitive'
    if ab:
        assert hash(a) == hash(b), 'equal-addresses-hash-alike'
    assert (a != b) == (not ab), 'ne-is-not-eq'


def m_hash(ex, v):
    """hash(x): the class's __hash__ for instances; for byte strings an uninterpreted function of the content"""
    from pyvc.values import Ref, Obj
    from pyvc.seqspec import q_uf

    if isinstance(v, Ref) and isinstance(ex.obj(v), Obj):
        fn = getattr(ex.obj(v).cls, '__hash__', None)
        return ex.call(ex.func_of_native(fn), [v], {})
    return q_uf(ex, ['hash', v], {})


from pyvc import models_calls as _MC  # noqa: E402

_MC.NATIVE_MODELS[hash] = m_hash

lemma(
    'address_eq_is_an_equivalence',
    address_eq_is_an_equivalence,
    prop='C06',
    params=dict(a=A, b=A, c=A),
    inline=['Address.__eq__', 'Address.__hash__', 'Address.is_public'],
)


# ===========================================================================
# controller.Connection: what a connection hands to the link
# ===========================================================================
def link_acl(ghost, sender_controller, destination_address, transport, data):
    ghost.tx = ghost.tx + 1
    ghost.tx_sender = sender_controller
    ghost.tx_destination = destination_address
    ghost.tx_transport = transport
    ghost.tx_data = data


def link_ll(ghost, sender_address, receiver_address, packet):
    ghost.tx = ghost.tx + 1
    ghost.tx_source = sender_address
    ghost.tx_destination = receiver_address
    ghost.tx_packet = packet


model('ghost:Link#conn', fields={}, methods={'send_acl_data': Callback('send_acl_data', effect=link_acl), 'send_ll_control_pdu': Callback('send_ll_control_pdu', effect=link_ll)})
CONN_FULL = 'bumble.controller:Connection'
model(CONN_FULL, fields=dict(controller=Inst(CTRL_ADDR), handle=Int, role=IntRange(0, 1), self_address=ADDR, peer_address=ADDR, link=LOpt(Inst('ghost:Link#conn')),
                             transport=OneOf(LE, BR_EDR), link_type=Int))
TX_GHOST = dict(tx=Int, tx_sender=Opt(Inst(CTRL_ADDR)), tx_source=ADDR, tx_destination=ADDR, tx_transport=Int, tx_data=Bytes, tx_packet=Opt(Opaque('pdu')))
TX_MOD = ['ghost.' + n for n in TX_GHOST]

contract(
    'bumble.controller:Connection.on_acl_pdu',
    prop='C06',
    params=dict(self=Inst(CONN_FULL), pdu=Bytes),
    ghost=TX_GHOST,
    ensures=lambda self, pdu, ghost, old: [
        ghost.tx == old.ghost.tx + (1 if self.link is not None else 0),
        implies(self.link is not None, same(ghost.tx_sender, self.controller) and ghost.tx_destination == self.peer_address and ghost.tx_transport == self.transport and ghost.tx_data == pdu),
    ],
    ensures_names=['handed-to-the-link-once', 'from-this-controller-to-the-peer-address-of-this-connection-unchanged'],
    modifies=TX_MOD,
    native_setup=nat_fix,
)
contract(
    'bumble.controller:Connection.send_ll_control_pdu',
    prop='C06',
    params=dict(self=Inst(CONN_FULL), packet=Opaque('pdu')),
    ghost=TX_GHOST,
    ensures=lambda self, packet, ghost, old: [
        ghost.tx == old.ghost.tx + (1 if self.link is not None else 0),
        implies(self.link is not None, ghost.tx_source == self.self_address and ghost.tx_destination == self.peer_address and ghost.tx_packet == packet),
    ],
    ensures_names=['handed-to-the-link-once', 'from-the-own-address-of-this-connection-to-its-peer-address'],
    modifies=TX_MOD,
    native_setup=nat_fix,
)


# ===========================================================================
# advertising: what an advertiser puts on the air, what a scanner reports, when an initiator connects
# ===========================================================================
LEG_REPORT = hci.HCI_LE_Advertising_Report_Event
EXT_REPORT = hci.HCI_LE_Extended_Advertising_Report_Event
IS_ADV, IS_SCAN_RSP = 1, 2


def report_kind(packet):
    """1: advertising report, 2: scan response report, 0: something else"""
    if isinstance(packet, LEG_REPORT):
        t = packet.reports[0].event_type
        return IS_ADV if t == LEG_REPORT.EventType.ADV_IND else (IS_SCAN_RSP if t == LEG_REPORT.EventType.SCAN_RSP else 0)
    if isinstance(packet, EXT_REPORT):
        t = packet.reports[0].event_type
        return IS_ADV if t == EXT_REPORT.EventType.CONNECTABLE_ADVERTISING else (IS_SCAN_RSP if t == EXT_REPORT.EventType.SCAN_RESPONSE else 0)
    return 0


def scan_send(ghost, packet):
    """Controller.send_hci_packet of a scanner / initiator: advertising reports and connection events"""
    ctl_send(ghost, packet)
    k = report_kind(packet)
    if k == IS_ADV:
        ghost.adv_reports = ghost.adv_reports + 1
        ghost.adv_report_address = packet.reports[0].address
        ghost.adv_report_data = packet.reports[0].data
        ghost.adv_report_extended = isinstance(packet, EXT_REPORT)
    if k == IS_SCAN_RSP:
        ghost.rsp_reports = ghost.rsp_reports + 1
        ghost.rsp_report_address = packet.reports[0].address
        ghost.rsp_report_data = packet.reports[0].data
        ghost.rsp_report_extended = isinstance(packet, EXT_REPORT)


REPORT_GHOST = dict(adv_reports=Int, adv_report_address=ADDR, adv_report_data=Bytes, adv_report_extended=Bool,
                    rsp_reports=Int, rsp_report_address=ADDR, rsp_report_data=Bytes, rsp_report_extended=Bool)
CTRL_SCAN = CTRL + '-scan'
model(
    CTRL_SCAN,
    fields=dict(_BASE_FIELDS, link=LOpt(Inst('ghost:Link')), pending_le_connection=Opt(OneOf(Inst(CREATE), Inst(EXT_CREATE))), le_scan_enable=Bool,
                le_scan_type=IntRange(0, 1), le_features=IntRange(0, (1 << 64) - 1)),
    methods={'send_hci_packet': Callback('send_hci_packet', effect=scan_send)},
)
# the advertising PDU as it travels on the virtual link.  `scan_response_data` is what the advertiser would answer a
# SCAN_REQ with: the unchanged tree has no such field on the PDU (the data never leaves the advertiser), which is
# exactly what the scan-response clauses below detect
ADV_IND = 'bumble.ll:AdvInd#rx'
ADV_EXT_IND = 'bumble.ll:AdvExtInd#rx'
model(ADV_IND, fields=dict(advertiser_address=ADDR, data=Bytes, scan_response_data=Bytes))
model(ADV_EXT_IND, fields=dict(advertiser_address=ADDR, data=Bytes, scan_response_data=Bytes, target_address=LOpt(ADDR)))
EXT_ADV_FEATURE = int(hci.LeFeatureMask.LE_EXTENDED_ADVERTISING)
ACTIVE_SCAN = 1


def wants(self, pdu):
    """this controller has an LE Create Connection pending for exactly that advertiser"""
    return self.pending_le_connection is not None and self.pending_le_connection.peer_address == pdu.advertiser_address


def wants0(self0, pdu):
    if self0.pending_le_connection is None:
        return False
    return self0.pending_le_connection.peer_address == pdu.advertiser_address


def adv_pdu_ensures(self, pdu, ghost, old):
    scanning = old.self.le_scan_enable
    connect = wants0(old.self, pdu) and not mhas(old.self.le_connections, pdu.advertiser_address)
    extended = (self.le_features // EXT_ADV_FEATURE) % 2 == 1
    return [
        # a scanner reports the advertisement once, with the advertiser's address and its advertising data byte for byte
        ghost.adv_reports == old.ghost.adv_reports + (1 if scanning else 0),
        implies(scanning, ghost.adv_report_address == pdu.advertiser_address and ghost.adv_report_data == pdu.data and ghost.adv_report_extended == extended),
        # a scan response is reported only when scanning actively ...
        ghost.rsp_reports == old.ghost.rsp_reports + (1 if scanning and self.le_scan_type == ACTIVE_SCAN else 0),
        # ... names the advertiser and carries its scan-response data byte for byte
        implies(ghost.rsp_reports > old.ghost.rsp_reports, ghost.rsp_report_address == pdu.advertiser_address and ghost.rsp_report_extended == extended),
        implies(ghost.rsp_reports > old.ghost.rsp_reports, ghost.rsp_report_data == pdu.scan_response_data),
        # an initiator connects to the advertiser it asked for and to nobody else
        ghost.cc == old.ghost.cc + (1 if connect else 0),
        implies(connect, ghost.cc_peer == pdu.advertiser_address and ghost.cc_role == CENTRAL and mhas(self.le_connections, pdu.advertiser_address)),
        implies(not connect, others_unchanged(self.le_connections, old.self.le_connections, pdu.advertiser_address) and no_new_keys(self.le_connections, old.self.le_connections, pdu.advertiser_address)
                and iff(mhas(self.le_connections, pdu.advertiser_address), mhas(old.self.le_connections, pdu.advertiser_address)) and ghost.ci == old.ghost.ci),
    ] + tables_inv_post(self, old.self)


ADV_PDU_NAMES = ['one-advertising-report-iff-scanning', 'advertising-report-carries-address-and-advertising-data', 'scan-response-report-iff-scanning-actively',
                 'scan-response-report-names-the-advertiser', 'scan-response-report-carries-the-scan-response-data', 'connects-iff-this-advertiser-was-asked-for', 'connection-is-to-that-advertiser',
                 'otherwise-no-connection-attempt'] + INV_POST_NAMES

# (the connection part reads only pdu.advertiser_address, whatever the PDU class: it is verified with AdvInd; the AdvExtInd
# variant covers the reports, which also carry the PDU's target address, with no LE Create Connection pending)
for _pdu, _pname, _self in ((ADV_IND, 'AdvInd', Inst(CTRL_SCAN)), (ADV_EXT_IND, 'AdvExtInd', Inst(CTRL_SCAN, pending_le_connection=Const(None)))):
    contract(
        'bumble.controller:Controller.on_advertising_pdu',
        key=f'bumble.controller:Controller.on_advertising_pdu@{_pname}',
        prop='C06',
        params=dict(self=_self, pdu=Inst(_pdu)),
        ghost=dict(SEND_GHOST, **LINK_GHOST, **REPORT_GHOST),
        ensures=adv_pdu_ensures,
        ensures_names=ADV_PDU_NAMES,
        raises={StopIteration: lambda self, pdu, ghost, old: [ghost.cc == old.ghost.cc]},
        modifies=['self.le_connections', 'self.pending_le_connection'] + SEND_MOD + ['ghost.' + n for n in LINK_GHOST] + ['ghost.' + n for n in REPORT_GHOST],
        uses=['bumble.controller:Controller.create_le_connection'],
        inline=['HCI_Dataclass_Object.__post_init__'],
        # HCI_Object.fields_from_dataclass: the field table of a report object, reflection used only by the codec (C01)
        stubs={hci.HCI_Object.__dict__['fields_from_dataclass'].__func__: Callback('fields_from_dataclass', returns=Opaque('fieldspec'))},
        native_setup=nat_fix,
    )


# ===========================================================================
# BR/EDR twins and the other creators of handles
# ===========================================================================
CTRL_CLASSIC = ctrl_model('-classic', link=LOpt(Inst('ghost:Link')), classic_allow_role_switch=Bool)
ACL_LINK = int(hci.HCI_Connection_Complete_Event.LinkType.ACL)
SUCCESS = int(hci.HCI_ErrorCode.SUCCESS)


def sco_others_unchanged(t, t0, key):
    return all_keys(t0, lambda k: implies(k != key, mhas(t, k) and h_of(t, k) == h_of(t0, k) and mget(t, k, 'peer_address') == mget(t0, k, 'peer_address')))


def classic_request_ensures(self, peer_address, link_type, ghost, old):
    cl, cl0, sco, sco0 = self.classic_connections, old.self.classic_connections, self.sco_links, old.self.sco_links
    acl = link_type == ACL_LINK
    return [
        # the host is asked exactly once, for that peer
        ghost.creq == old.ghost.creq + 1 and ghost.sent == old.ghost.sent + 1 and ghost.creq_peer == peer_address and ghost.creq_link_type == link_type,
        # a placeholder (handle 0: not live yet) for that peer, as peripheral, under this controller's BD_ADDR
        implies(acl, mhas(cl, peer_address) and h_of(cl, peer_address) == 0 and mget(cl, peer_address, 'peer_address') == peer_address
                and mget(cl, peer_address, 'self_address') == self._public_address and mget(cl, peer_address, 'role') == PERIPHERAL and mget(cl, peer_address, 'transport') == BR_EDR),
        implies(acl, others_unchanged(cl, cl0, peer_address) and no_new_keys(cl, cl0, peer_address)),
        implies(not acl, mhas(sco, peer_address) and h_of(sco, peer_address) == 0 and mget(sco, peer_address, 'peer_address') == peer_address),
        implies(not acl, sco_others_unchanged(sco, sco0, peer_address) and no_new_keys(sco, sco0, peer_address)),
    ] + tables_inv_post(self, old.self)


contract(
    'bumble.controller:Controller.on_classic_connection_request',
    prop='C06',
    params=dict(self=Inst(CTRL_CLASSIC), peer_address=ADDR, link_type=IntRange(0, 2)),
    ghost=SEND_GHOST,
    ensures=classic_request_ensures,
    ensures_names=['one-connection-request-event-for-the-peer', 'acl-placeholder-for-the-peer', 'other-acl-entries-untouched', 'sco-placeholder-for-the-peer', 'other-sco-entries-untouched'] + INV_POST_NAMES,
    modifies=['self.classic_connections', 'self.sco_links'] + SEND_MOD,
    inline=['Controller.public_address', 'Connection.__post_init__', 'HCI_AclDataPacketAssembler.__init__'],
    native_setup=nat_fix,
)


def classic_complete_ensures(self, peer_address, status, ghost, old):
    cl, cl0 = self.classic_connections, old.self.classic_connections
    ok = status == SUCCESS
    return [
        # exactly one Connection Complete event, for that peer, with the given status
        ghost.ccl == old.ghost.ccl + 1 and ghost.sent == old.ghost.sent + 1 and ghost.ccl_peer == peer_address and ghost.ccl_status == status,
        # success: the entry of that peer now carries the handle reported to the host, which no entry of any table had before
        implies(ok, mhas(cl, peer_address) and h_of(cl, peer_address) == ghost.ccl_handle and mget(cl, peer_address, 'peer_address') == peer_address),
        implies(ok, 1 <= ghost.ccl_handle and ghost.ccl_handle <= MAX_HANDLE and conj(unused(old.self, ghost.ccl_handle))),
        # an entry made by an earlier connection request / create connection keeps its role and addresses; a new one is central
        implies(ok and mhas(cl0, peer_address), mget(cl, peer_address, 'role') == mget(cl0, peer_address, 'role') and mget(cl, peer_address, 'self_address') == mget(cl0, peer_address, 'self_address')),
        implies(ok and not mhas(cl0, peer_address), mget(cl, peer_address, 'role') == CENTRAL and mget(cl, peer_address, 'self_address') == self._public_address and mget(cl, peer_address, 'transport') == BR_EDR),
        implies(ok, others_unchanged(cl, cl0, peer_address) and no_new_keys(cl, cl0, peer_address)),
        # failure: no live handle is reported and the table is untouched
        implies(not ok, ghost.ccl_handle == 0 and others_unchanged(cl, cl0, peer_address) and no_new_keys(cl, cl0, peer_address) and iff(mhas(cl, peer_address), mhas(cl0, peer_address))),
    ] + tables_inv_post(self, old.self)


contract(
    'bumble.controller:Controller.on_classic_connection_complete',
    prop='C06',
    params=dict(self=Inst(CTRL_CLASSIC), peer_address=ADDR, status=IntRange(0, 255)),
    ghost=SEND_GHOST,
    # (part of the table invariant) every BR/EDR connection is stored under its peer address
    requires=lambda self: [all_keys(self.classic_connections, lambda k: mget(self.classic_connections, k, 'peer_address') == k)],
    ensures=classic_complete_ensures,
    ensures_names=['one-connection-complete-event-for-the-peer', 'entry-carries-the-reported-handle', 'handle-in-range-and-unused-in-every-table', 'existing-entry-keeps-role-and-address',
                   'new-entry-is-central-under-own-bd-addr', 'other-entries-untouched', 'failure-reports-no-handle-and-changes-nothing'] + INV_POST_NAMES,
    raises={StopIteration: lambda self, peer_address, ghost, old: [ghost.sent == old.ghost.sent, others_unchanged(self.classic_connections, old.self.classic_connections, peer_address)]},
    modifies=['self.classic_connections'] + SEND_MOD,
    uses=['bumble.controller:Controller.allocate_connection_handle'],
    inline=['Controller.public_address', 'Connection.__post_init__', 'HCI_AclDataPacketAssembler.__init__'],
    native_setup=nat_fix,
)

contract(
    'bumble.controller:Controller.on_classic_disconnected',
    prop='C06',
    params=dict(self=C, peer_address=ADDR, reason=IntRange(0, 255)),
    ghost=SEND_GHOST,
    ensures=lambda self, peer_address, reason, ghost, old: [
        # a disconnection is reported iff there was a connection to that peer, on its handle
        ghost.dc == old.ghost.dc + (1 if mhas(old.self.classic_connections, peer_address) else 0) and ghost.sent - old.ghost.sent == ghost.dc - old.ghost.dc,
        implies(mhas(old.self.classic_connections, peer_address), ghost.dc_handle == h_of(old.self.classic_connections, peer_address) and ghost.dc_reason == reason and ghost.dc_status == 0),
        not mhas(self.classic_connections, peer_address),
        others_unchanged(self.classic_connections, old.self.classic_connections, peer_address),
        no_new_keys(self.classic_connections, old.self.classic_connections, peer_address),
    ] + tables_inv_post(self, old.self),
    ensures_names=['disconnection-event-iff-connected', 'event-names-the-connection', 'entry-removed', 'other-entries-untouched', 'no-entry-added'] + INV_POST_NAMES,
    modifies=['self.classic_connections', 'ghost.sent', 'ghost.dc', 'ghost.dc_status', 'ghost.dc_handle', 'ghost.dc_reason'],
    native_setup=nat_fix,
)


def sco_complete_ensures(self, peer_address, status, link_type, ghost, old):
    sco, sco0 = self.sco_links, old.self.sco_links
    ok = status == SUCCESS
    return [
        ghost.sync == old.ghost.sync + 1 and ghost.sent == old.ghost.sent + 1 and ghost.sync_peer == peer_address and ghost.sync_status == status,
        implies(ok, mhas(sco, peer_address) and h_of(sco, peer_address) == ghost.sync_handle and mget(sco, peer_address, 'peer_address') == peer_address),
        implies(ok, 1 <= ghost.sync_handle and ghost.sync_handle <= MAX_HANDLE and conj(unused(old.self, ghost.sync_handle))),
        implies(ok, sco_others_unchanged(sco, sco0, peer_address) and no_new_keys(sco, sco0, peer_address)),
        implies(not ok, ghost.sync_handle == 0 and sco_others_unchanged(sco, sco0, peer_address) and no_new_keys(sco, sco0, peer_address) and iff(mhas(sco, peer_address), mhas(sco0, peer_address))),
    ] + tables_inv_post(self, old.self)


contract(
    'bumble.controller:Controller.on_classic_sco_connection_complete',
    prop='C06',
    params=dict(self=C, peer_address=ADDR, status=IntRange(0, 255), link_type=IntRange(0, 2)),
    ghost=SEND_GHOST,
    ensures=sco_complete_ensures,
    ensures_names=['one-synchronous-connection-complete-event', 'entry-carries-the-reported-handle', 'handle-in-range-and-unused-in-every-table', 'other-entries-untouched',
                   'failure-reports-no-handle-and-changes-nothing'] + INV_POST_NAMES,
    raises={StopIteration: lambda self, peer_address, ghost, old: [ghost.sent == old.ghost.sent, sco_others_unchanged(self.sco_links, old.self.sco_links, peer_address)]},
    modifies=['self.sco_links'] + SEND_MOD,
    uses=['bumble.controller:Controller.allocate_connection_handle'],
    native_setup=nat_fix,
)

contract(
    'bumble.controller:Controller.on_le_cis_request',
    prop='C06',
    params=dict(self=C, connection=Inst(CONN_OBJ), cig_id=IntRange(0, 255), cis_id=IntRange(0, 255)),
    ghost=SEND_GHOST,
    # (part of the table invariant) every CIS link is stored under its handle
    requires=lambda self: [all_keys(self.peripheral_cis_links, lambda k: h_of(self.peripheral_cis_links, k) == k)],
    ensures=lambda self, connection, cig_id, cis_id, ghost, old: [
        ghost.cisreq == old.ghost.cisreq + 1 and ghost.sent == old.ghost.sent + 1 and ghost.cisreq_acl_handle == connection.handle,
        mhas(self.peripheral_cis_links, ghost.cisreq_handle) and h_of(self.peripheral_cis_links, ghost.cisreq_handle) == ghost.cisreq_handle,
        1 <= ghost.cisreq_handle and ghost.cisreq_handle <= MAX_HANDLE and conj(unused(old.self, ghost.cisreq_handle)),
        all_keys(old.self.peripheral_cis_links, lambda k: mhas(self.peripheral_cis_links, k) and h_of(self.peripheral_cis_links, k) == h_of(old.self.peripheral_cis_links, k)),
    ] + tables_inv_post(self, old.self),
    ensures_names=['one-cis-request-event-for-the-acl-connection', 'pending-cis-stored-under-its-handle', 'handle-in-range-and-unused-in-every-table', 'other-cis-entries-untouched'] + INV_POST_NAMES,
    raises={StopIteration: lambda ghost, old: [ghost.sent == old.ghost.sent]},
    modifies=['self.peripheral_cis_links'] + SEND_MOD,
    uses=['bumble.controller:Controller.allocate_connection_handle'],
    native_setup=nat_fix,
)


# ===========================================================================
# look-ups by handle, and the disconnection of an LE connection by either side
# ===========================================================================
def find_post(tables):
    """res is None only if no entry of the tables has that handle; otherwise res is an entry with that handle"""

    def post(self, handle, res):
        nobody = True
        for t in tables:
            m = getattr(self, t)
            nobody = nobody and all_keys(m, lambda k: h_of(m, k) != handle)
        return [implies(res is None, nobody), res is None or res.handle == handle]

    return post


def seen_inv(table):
    def inv(self, handle, _seen):
        m = getattr(self, table)
        return [all_keys(_seen, lambda k: h_of(m, k) != handle)]

    return inv


for _fn, _table in (('find_le_connection_by_handle', 'le_connections'), ('find_classic_connection_by_handle', 'classic_connections'), ('find_classic_sco_link_by_handle', 'sco_links')):
    contract(
        f'bumble.controller:Controller.{_fn}',
        prop='C06',
        params=dict(self=C, handle=Int),
        ensures=find_post([_table]),
        ensures_names=['none-only-if-no-entry-has-the-handle', 'an-entry-with-that-handle'],
        invariants={0: seen_inv(_table)},
        modifies=[],
        native_setup=nat_fix,
    )

contract(
    'bumble.controller:Controller.find_connection_by_handle',
    prop='C06',
    params=dict(self=C, handle=Int),
    ensures=find_post(['le_connections', 'classic_connections']),
    ensures_names=['none-only-if-no-entry-has-the-handle', 'an-entry-with-that-handle'],
    invariants={0: lambda self, handle, _seen0, _seen1: [all_keys(_seen0, lambda k: h_of(self.le_connections, k) != handle), all_keys(_seen1, lambda k: h_of(self.classic_connections, k) != handle)]},
    modifies=[],
    native_setup=nat_fix,
)

TERMINATE = 'bumble.ll:TerminateInd'
model(TERMINATE, fields=dict(error_code=IntRange(0, 255)))


def le_keyed_by_peer(self):
    """(part of the table invariant) every LE connection is stored under its peer address"""
    return [all_keys(self.le_connections, lambda k: mget(self.le_connections, k, 'peer_address') == k)]


DC_MOD = ['self.le_connections', 'ghost.sent', 'ghost.dc', 'ghost.dc_status', 'ghost.dc_handle', 'ghost.dc_reason']

# the peer's LL_TERMINATE_IND: the connection to the sender is reported as disconnected, with the peer's reason
contract(
    'bumble.controller:Controller.on_ll_control_pdu',
    key='bumble.controller:Controller.on_ll_control_pdu@terminate',
    prop='C06',
    params=dict(self=C, sender_address=ADDR, packet=Inst(TERMINATE)),
    ghost=SEND_GHOST,
    requires=le_keyed_by_peer,
    ensures=lambda self, sender_address, packet, ghost, old: [
        ghost.dc == old.ghost.dc + (1 if mhas(old.self.le_connections, sender_address) else 0) and ghost.sent - old.ghost.sent == ghost.dc - old.ghost.dc,
        implies(mhas(old.self.le_connections, sender_address), ghost.dc_handle == h_of(old.self.le_connections, sender_address) and ghost.dc_reason == packet.error_code and ghost.dc_status == 0),
        not mhas(self.le_connections, sender_address),
        others_unchanged(self.le_connections, old.self.le_connections, sender_address),
        no_new_keys(self.le_connections, old.self.le_connections, sender_address),
    ],
    ensures_names=['disconnection-event-iff-connected-to-the-sender', 'event-names-that-connection-and-the-peers-reason', 'entry-removed', 'other-entries-untouched', 'no-entry-added'],
    modifies=DC_MOD,
    uses=['bumble.controller:Controller.on_le_disconnected'],
    native_setup=nat_fix,
)


# ---------------------------------------------------------------------------
# on_hci_disconnect_command for the handle of an LE connection: the peer is told (LL_TERMINATE_IND from the own address
# of that connection to its peer address) and the own host gets the Disconnection Complete event
# ---------------------------------------------------------------------------
# callee views of the look-ups by handle (proved above on the tables): the entry found is handed out as a detached
# Connection object with the columns of the table entry (on_hci_disconnect_command only reads it)
DISC_CMD = 'bumble.hci:HCI_Disconnect_Command#c06'
model(DISC_CMD, fields=dict(connection_handle=IntRange(0, 0xFFFF), reason=IntRange(0, 255), op_code=Const(int(hci.HCI_DISCONNECT_COMMAND))))
# Controller.link is never None after __init__ (representation invariant proved under C03: `link or LocalLink()`, never reassigned)
CTRL_DISC = ctrl_model('-disc', link=Inst('ghost:Link'))
FOUND_CONN_GHOST = dict(found_conn=Opt(Inst(CONN_FULL)))


def le_entry_view(self, handle, res):
    le = self.le_connections
    return [
        implies(res is None, all_keys(le, lambda k: h_of(le, k) != handle)),
        # (every controller.Connection is created with link=self.link, which is never None)
        res is None or (res.handle == handle and mhas(le, res.peer_address) and h_of(le, res.peer_address) == handle
                        and mget(le, res.peer_address, 'self_address') == res.self_address and res.transport == LE and res.link is not None),
    ]


contract('bumble.controller:Controller.find_le_connection_by_handle', key='bumble.controller:Controller.find_le_connection_by_handle@callee',
         params=dict(self=Inst(CTRL_DISC), handle=Int), ghost=FOUND_CONN_GHOST, ensures=le_entry_view, result=lambda ghost: ghost.found_conn, modifies=[])
contract('bumble.controller:Controller.find_classic_connection_by_handle', key='bumble.controller:Controller.find_classic_connection_by_handle@callee',
         params=dict(self=Inst(CTRL_DISC), handle=Int),
         ensures=lambda self, handle, res: [implies(res is None, all_keys(self.classic_connections, lambda k: h_of(self.classic_connections, k) != handle)),
                                            res is None or any_key(self.classic_connections, lambda k: h_of(self.classic_connections, k) == handle)],
         returns=Opt(Opaque('classic-connection')), modifies=[])
contract('bumble.controller:Controller.find_connection_by_handle', key='bumble.controller:Controller.find_connection_by_handle@callee',
         params=dict(self=Inst(CTRL_DISC), handle=Int),
         ensures=lambda self, handle, res: [implies(res is None, all_keys(self.le_connections, lambda k: h_of(self.le_connections, k) != handle)
                                                    and all_keys(self.classic_connections, lambda k: h_of(self.classic_connections, k) != handle))],
         returns=Opt(Opaque('connection')), modifies=[])
contract('bumble.controller:Controller.find_classic_sco_link_by_handle', key='bumble.controller:Controller.find_classic_sco_link_by_handle@callee',
         params=dict(self=Inst(CTRL_DISC), handle=Int),
         ensures=lambda self, handle, res: [res is None or any_key(self.sco_links, lambda k: h_of(self.sco_links, k) == handle)],
         returns=Opt(Opaque('sco-link')), modifies=[])


# callee view of Connection.send_ll_control_pdu (proved above): the PDU object itself is not tracked here
contract(
    'bumble.controller:Connection.send_ll_control_pdu',
    key='bumble.controller:Connection.send_ll_control_pdu@callee',
    params=dict(self=Inst(CONN_FULL), packet=Any),
    ghost=dict(tx=Int, tx_source=ADDR, tx_destination=ADDR),
    ensures=lambda self, ghost, old: [
        ghost.tx == old.ghost.tx + (1 if self.link is not None else 0),
        implies(self.link is not None, ghost.tx_source == self.self_address and ghost.tx_destination == self.peer_address),
    ],
    modifies=['ghost.tx', 'ghost.tx_source', 'ghost.tx_destination'],
)


def disconnect_le_ensures(self, command, ghost, old):
    k = ghost.k
    le, le0 = self.le_connections, old.self.le_connections
    return [
        # the peer is told once, from the own address of that connection to its peer address (the key the peer stored it under)
        ghost.tx == old.ghost.tx + 1,
        ghost.tx_source == mget(le0, k, 'self_address') and ghost.tx_destination == k,
        # the own host gets the Disconnection Complete event for that handle
        ghost.dc == old.ghost.dc + 1 and ghost.dc_handle == command.connection_handle and ghost.dc_reason == command.reason and ghost.dc_status == 0,
        # and the entry is gone, the others stay
        not mhas(le, k) and others_unchanged(le, le0, k) and no_new_keys(le, le0, k),
    ]


def nat_disc(env):
    nat_fix(env)
    g, c = env['ghost'], env['self']
    if getattr(g, 'found_conn', None) is not None and g.found_conn.peer_address in c.le_connections:
        # the detached view of the entry is, natively, the entry itself
        rec = c.le_connections[g.found_conn.peer_address]
        rec.link = g.found_conn.link
        rec.controller = c


contract(
    'bumble.controller:Controller.on_hci_disconnect_command',
    key='bumble.controller:Controller.on_hci_disconnect_command@le',
    prop='C06',
    params=dict(self=Inst(CTRL_DISC), command=Inst(DISC_CMD)),
    ghost=dict(SEND_GHOST, k=ADDR, **TX_GHOST, **FOUND_CONN_GHOST),
    # the command names the handle of the LE connection stored under ghost.k; the table invariant holds
    requires=lambda self, command, ghost: tables_inv(self) + [mhas(self.le_connections, ghost.k), h_of(self.le_connections, ghost.k) == command.connection_handle],
    ensures=disconnect_le_ensures,
    ensures_names=['terminate-ind-handed-to-the-link-once', 'from-the-own-address-to-the-peer-address-of-that-connection', 'disconnection-complete-for-that-handle', 'entry-removed-others-stay'],
    modifies=DC_MOD + TX_MOD,
    uses=['bumble.controller:Controller.find_le_connection_by_handle@callee', 'bumble.controller:Controller.find_classic_connection_by_handle@callee',
          'bumble.controller:Controller.find_connection_by_handle@callee', 'bumble.controller:Controller.find_classic_sco_link_by_handle@callee',
          'bumble.controller:Controller.on_le_disconnected', 'bumble.controller:Connection.send_ll_control_pdu@callee'],
    inline=['Controller.find_iso_link_by_handle', 'Controller._send_hci_command_status'],
    feas_timeout_ms=150,
    native_setup=nat_disc,
)


# ===========================================================================
# what an advertiser puts on the air
# ===========================================================================
ADV_TYPE = hci.HCI_LE_Set_Advertising_Parameters_Command.AdvertisingType
ADV_TX_MOD = ['ghost.' + n for n in ADV_TX_GHOST]


def adv_address(adv):
    return adv.controller._public_address if adv.own_address_type == PUBLIC_ADDRESS_TYPE else adv.controller._random_address


contract(
    'bumble.controller:LegacyAdvertiser.send_advertising_data',
    prop='C06',
    params=dict(self=Inst(LEGACY)),
    ghost=ADV_TX_GHOST,
    ensures=lambda self, ghost, old: [
        # a disabled advertiser is silent
        implies(not self.enabled, ghost.pdus == old.ghost.pdus),
        # an enabled advertiser whose advertising type carries data (ADV_IND, ADV_SCAN_IND, ADV_NONCONN_IND) puts it on the air, under its address
        implies(self.enabled and self.advertising_type in (int(ADV_TYPE.ADV_IND), int(ADV_TYPE.ADV_SCAN_IND), int(ADV_TYPE.ADV_NONCONN_IND)),
                ghost.pdus == old.ghost.pdus + 1 and ghost.pdu_address == adv_address(self) and ghost.pdu_data == self.advertising_data),
        # ... together with what it would answer a scan request with (scannable types: ADV_IND, ADV_SCAN_IND)
        implies(ghost.pdus > old.ghost.pdus and self.advertising_type in (int(ADV_TYPE.ADV_IND), int(ADV_TYPE.ADV_SCAN_IND)), ghost.pdu_scan_rsp == self.scan_response_data),
    ],
    ensures_names=['disabled-advertiser-is-silent', 'advertising-data-on-the-air-under-the-advertisers-address', 'scan-response-data-available-to-scanners'],
    modifies=ADV_TX_MOD,
    inline=['LegacyAdvertiser.address', 'Controller.public_address', 'Controller.random_address'],
    native_setup=nat_fix,
)
contract(
    'bumble.controller:AdvertisingSet.send_extended_advertising_data',
    prop='C06',
    params=dict(self=Inst(ADVSET)),
    ghost=ADV_TX_GHOST,
    ensures=lambda self, ghost, old: [
        ghost.pdus == old.ghost.pdus + (1 if self.controller.link is not None else 0),
        implies(self.controller.link is not None, set_address_is(self.controller, self, ghost.pdu_address) and ghost.pdu_data == bytes(self.data)),
        implies(self.controller.link is not None, ghost.pdu_scan_rsp == bytes(self.scan_response_data)),
    ],
    ensures_names=['one-pdu-when-attached-to-a-link', 'advertising-data-on-the-air-under-the-sets-address', 'scan-response-data-available-to-scanners'],
    # a set that was enabled without parameters / without the random address its parameters ask for has no address
    raises={AssertionError: lambda self, ghost, old: [ghost.pdus == old.ghost.pdus, self.parameters is None or (self.parameters.own_address_type != PUBLIC_ADDRESS_TYPE and self.random_address is None)]},
    modifies=ADV_TX_MOD,
    inline=['AdvertisingSet.address', 'Controller.public_address', 'Controller.random_address'],
    native_setup=nat_fix,
)
