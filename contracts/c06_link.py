"""C06 -- the virtual link connects the right peers and delivers only between them.

Kernel: bumble/controller.py (connection tables, handle allocation, CONNECT_IND acceptance, ACL delivery, advertising
reports, BR/EDR twins), bumble/link.py (routing on the LocalLink bus), bumble/device.py (which connection event
resolves a pending connect).

Representation
--------------
* An `hci.Address` *value* is abstracted to its equality class: `Opaque('addr')` (an integer identity; `==` on two such
  values is equality of the identities).  What that relies on is proved on the real class by the lemma
  `address_eq_is_an_equivalence` below (Address.__eq__ compares (address_bytes, is_public), is reflexive, symmetric and
  transitive, and agrees with __hash__), i.e. a dict keyed by Address objects behaves like a map keyed by the class.
* The controller's connection tables (`le_connections`, `classic_connections`, `sco_links`, `central_cis_links`,
  `peripheral_cis_links`) are *symbolic maps of any size* from keys to records (struct of arrays); the record columns
  are the scalar fields of the real classes (handle, role, self_address, peer_address, transport, ...).
"""
import asyncio

from bumble import controller as _controller
from bumble import core, hci, ll
from pyvc import ext_c06
from pyvc.contracts import (Any, Bool, Bytes, Callback, ConcList, Const, Inst, Int, IntRange, OneOf, Opaque, Opt, Str, MapOf,
                            contract, forall, iff, implies, lemma, mget, mhas, model, same)
from pyvc.ext_c06 import all_keys, any_key

ENVIRONMENT = [
    'C06: asyncio call_soon scheduling (what runs between two scheduled callbacks, in which order deliveries of '
    'different senders interleave) is environment; the contracts state what is scheduled, for whom, with which arguments',
]

ADDR = Opaque('addr')
LE = core.PhysicalTransport.LE
BR_EDR = core.PhysicalTransport.BR_EDR
CENTRAL = hci.Role.CENTRAL
PERIPHERAL = hci.Role.PERIPHERAL
MAX_HANDLE = 0xEFF

# ---------------------------------------------------------------------------
# native side: abstract address identities become real hci.Address objects (replay, CPython cross-check)
# ---------------------------------------------------------------------------
ADDR_KEYED = ('le_connections', 'classic_connections', 'sco_links')


def nat_addr(n):
    """injective on the integers a counter-model uses: distinct identities -> distinct (unequal) addresses"""
    n = int(n)
    v = (abs(n) * 2 + (1 if n < 0 else 0)) % (1 << 48)
    return hci.Address(v.to_bytes(6, 'little'), hci.Address.RANDOM_DEVICE_ADDRESS)


def _is_tok(x):
    return type(x).__name__ == 'OpaqueToken' and getattr(x, 'tag', None) == 'addr'


def _conv(x, memo, depth=0):
    if _is_tok(x):
        return nat_addr(x.n)
    if isinstance(x, dict) and '__opq__' in x:
        return nat_addr(x['__opq__'][1]) if x['__opq__'][0] == 'addr' else x
    if depth > 8 or id(x) in memo:
        return x
    if isinstance(x, (list, dict)) or (hasattr(x, '__dict__') and not isinstance(x, type) and not callable(x) and type(x).__module__.split('.')[0] in ('bumble', 'types', 'pyvc')):
        memo.add(id(x))
    if isinstance(x, list):
        for i, y in enumerate(x):
            x[i] = _conv(y, memo, depth + 1)
        return x
    if isinstance(x, tuple):
        return tuple(_conv(y, memo, depth + 1) for y in x)
    if isinstance(x, dict):
        for k in list(x.keys()):
            x[k] = _conv(x[k], memo, depth + 1)
        return x
    if hasattr(x, '__dict__') and not isinstance(x, type) and not callable(x) and type(x).__module__.split('.')[0] in ('bumble', 'types', 'pyvc'):
        for n, y in list(vars(x).items()):
            y = _conv(y, memo, depth + 1)
            if n in ADDR_KEYED and isinstance(y, dict):
                y = {(nat_addr(k) if isinstance(k, int) else k): v for k, v in y.items()}
            try:
                object.__setattr__(x, n, y)
            except Exception:  # noqa: BLE001
                pass
    return x


def nat_fix(env):
    memo = set()
    for n in list(env):
        env[n] = _conv(env[n], memo)


# ---------------------------------------------------------------------------
# records of the connection tables
# ---------------------------------------------------------------------------
CONN = 'bumble.controller:Connection#rec'
SCO = 'bumble.controller:ScoLink#rec'
CIS = 'bumble.controller:CisLink#rec'
model(CONN, fields=dict(handle=Int, role=Int, self_address=ADDR, peer_address=ADDR, transport=Int, link_type=Int, classic_allow_role_switch=Bool))
model(SCO, fields=dict(handle=Int, link_type=Int, peer_address=ADDR))
model(CIS, fields=dict(handle=Int, cis_id=Int, cig_id=Int))
ext_c06.key_kind(CONN, ('opq', 'addr'))
ext_c06.key_kind(SCO, ('opq', 'addr'))

TABLES = ('le_connections', 'classic_connections', 'sco_links', 'central_cis_links', 'peripheral_cis_links')


def table_fields():
    return dict(
        le_connections=MapOf(CONN),
        classic_connections=MapOf(CONN),
        sco_links=MapOf(SCO),
        central_cis_links=MapOf(CIS),
        peripheral_cis_links=MapOf(CIS),
    )


# ---------------------------------------------------------------------------
# handle allocation
# ---------------------------------------------------------------------------
def unused(self, h):
    """h is the handle of no entry of any of the five tables"""
    return [
        all_keys(self.le_connections, lambda k: mget(self.le_connections, k, 'handle') != h),
        all_keys(self.classic_connections, lambda k: mget(self.classic_connections, k, 'handle') != h),
        all_keys(self.sco_links, lambda k: mget(self.sco_links, k, 'handle') != h),
        all_keys(self.central_cis_links, lambda k: mget(self.central_cis_links, k, 'handle') != h),
        all_keys(self.peripheral_cis_links, lambda k: mget(self.peripheral_cis_links, k, 'handle') != h),
    ]


model('bumble.controller:Controller#tables', fields=table_fields())
CTRL_T = Inst('bumble.controller:Controller#tables')

UNUSED_NAMES = ['not-an-le-handle', 'not-a-classic-handle', 'not-a-sco-handle', 'not-a-central-cis-handle', 'not-a-peripheral-cis-handle']

ALLOC = dict(
    params=dict(self=CTRL_T),
    ensures=lambda self, res: [1 <= res, res <= MAX_HANDLE] + unused(self, res),
    ensures_names=['handle>=1', 'handle<=0xEFF'] + UNUSED_NAMES,
    raises={StopIteration: None},
    modifies=[],
    native_setup=nat_fix,
)
contract('bumble.controller:Controller.allocate_connection_handle', prop='C06', **ALLOC)


# ---------------------------------------------------------------------------
# table invariant
# ---------------------------------------------------------------------------
def h_of(t, k):
    return mget(t, k, 'handle')


def distinct_in(t):
    """two entries of one table never share a live (non-zero) handle"""
    return all_keys(t, lambda a: all_keys(t, lambda b: implies(a != b and h_of(t, a) != 0, h_of(t, a) != h_of(t, b))))


def distinct_x(t, u):
    """entries of two different tables never share a live (non-zero) handle"""
    return all_keys(t, lambda a: all_keys(u, lambda b: implies(h_of(t, a) != 0, h_of(t, a) != h_of(u, b))))


def tables_inv(self):
    le, cl, sco, cc, pc = self.le_connections, self.classic_connections, self.sco_links, self.central_cis_links, self.peripheral_cis_links
    return [
        # every record is stored under its peer address / its handle
        all_keys(le, lambda k: mget(le, k, 'peer_address') == k),
        all_keys(cl, lambda k: mget(cl, k, 'peer_address') == k),
        all_keys(sco, lambda k: mget(sco, k, 'peer_address') == k),
        all_keys(cc, lambda k: h_of(cc, k) == k),
        all_keys(pc, lambda k: h_of(pc, k) == k),
        # handles are in range; 0 is the placeholder of a BR/EDR ACL or SCO link that is not complete yet
        all_keys(le, lambda k: 1 <= h_of(le, k) and h_of(le, k) <= MAX_HANDLE),
        all_keys(cl, lambda k: 0 <= h_of(cl, k) and h_of(cl, k) <= MAX_HANDLE),
        all_keys(sco, lambda k: 0 <= h_of(sco, k) and h_of(sco, k) <= MAX_HANDLE),
        all_keys(cc, lambda k: 1 <= h_of(cc, k) and h_of(cc, k) <= MAX_HANDLE),
        all_keys(pc, lambda k: 1 <= h_of(pc, k) and h_of(pc, k) <= MAX_HANDLE),
        # live handles are distinct within and across the five tables
        distinct_in(le), distinct_in(cl), distinct_in(sco),
        distinct_x(le, cl), distinct_x(le, sco), distinct_x(le, cc), distinct_x(le, pc),
        distinct_x(cl, le), distinct_x(cl, sco), distinct_x(cl, cc), distinct_x(cl, pc),
        distinct_x(sco, le), distinct_x(sco, cl), distinct_x(sco, cc), distinct_x(sco, pc),
        distinct_x(cc, pc),
    ]


INV_NAMES = [
    'inv-le-keyed-by-peer', 'inv-classic-keyed-by-peer', 'inv-sco-keyed-by-peer', 'inv-central-cis-keyed-by-handle', 'inv-peripheral-cis-keyed-by-handle',
    'inv-le-handle-range', 'inv-classic-handle-range', 'inv-sco-handle-range', 'inv-central-cis-handle-range', 'inv-peripheral-cis-handle-range',
    'inv-le-distinct', 'inv-classic-distinct', 'inv-sco-distinct',
    'inv-le/classic', 'inv-le/sco', 'inv-le/central-cis', 'inv-le/peripheral-cis',
    'inv-classic/le', 'inv-classic/sco', 'inv-classic/central-cis', 'inv-classic/peripheral-cis',
    'inv-sco/le', 'inv-sco/classic', 'inv-sco/central-cis', 'inv-sco/peripheral-cis',
    'inv-central-cis/peripheral-cis',
]


# ---------------------------------------------------------------------------
# the controller as seen by the link-level functions
# ---------------------------------------------------------------------------
def ctl_send(ghost, packet):
    """Controller.send_hci_packet (schedules host.on_packet(bytes(packet))): what goes to the host, last of each kind"""
    ghost.sent = ghost.sent + 1
    if isinstance(packet, hci.HCI_LE_Connection_Complete_Event):
        ghost.cc = ghost.cc + 1
        ghost.cc_status = packet.status
        ghost.cc_handle = packet.connection_handle
        ghost.cc_role = packet.role
        ghost.cc_peer = packet.peer_address
    if isinstance(packet, hci.HCI_Disconnection_Complete_Event):
        ghost.dc = ghost.dc + 1
        ghost.dc_status = packet.status
        ghost.dc_handle = packet.connection_handle
        ghost.dc_reason = packet.reason
    if isinstance(packet, hci.HCI_AclDataPacket):
        ghost.acl = ghost.acl + 1
        ghost.acl_handle = packet.connection_handle
        ghost.acl_pb = packet.pb_flag
        ghost.acl_len = packet.data_total_length
        ghost.acl_data = packet.data


SEND_GHOST = dict(
    sent=Int,
    cc=Int, cc_status=Int, cc_handle=Int, cc_role=Int, cc_peer=ADDR,
    dc=Int, dc_status=Int, dc_handle=Int, dc_reason=Int,
    acl=Int, acl_handle=Int, acl_pb=Int, acl_len=Int, acl_data=Bytes,
)
SEND_MOD = ['ghost.' + n for n in SEND_GHOST]

CTRL = 'bumble.controller:Controller#c06'
model(
    CTRL,
    fields=dict(table_fields(), _public_address=ADDR, _random_address=ADDR, name=Str),
    methods={'send_hci_packet': Callback('send_hci_packet', effect=ctl_send)},
)
C = Inst(CTRL)


# ---------------------------------------------------------------------------
# on_link_acl_data: a PDU that arrives from `sender_address` goes to the host on the handle of the connection whose
# peer is that address (and nowhere else); a PDU from an address without connection is dropped
# ---------------------------------------------------------------------------
def table_of(self, transport):
    return self.le_connections if transport == LE else self.classic_connections


for _t, _tname in ((LE, 'le'), (BR_EDR, 'classic')):
    contract(
        'bumble.controller:Controller.on_link_acl_data',
        key=f'bumble.controller:Controller.on_link_acl_data@{_tname}',
        prop='C06',
        params=dict(self=C, sender_address=ADDR, transport=Const(_t), data=Bytes),
        ghost=SEND_GHOST,
        requires=tables_inv,
        ensures=lambda self, sender_address, transport, data, ghost, old: [
            # exactly one ACL packet for a known sender, none for an unknown one
            ghost.acl == old.ghost.acl + (1 if mhas(table_of(self, transport), sender_address) else 0),
            ghost.sent == old.ghost.sent + (1 if mhas(table_of(self, transport), sender_address) else 0),
            implies(mhas(table_of(self, transport), sender_address), ghost.acl_handle == mget(table_of(self, transport), sender_address, 'handle')),
            implies(mhas(table_of(self, transport), sender_address), ghost.acl_data == data and ghost.acl_len == len(data)),
        ],
        ensures_names=['one-packet-iff-connection-to-sender', 'nothing-else-sent', 'on-the-handle-of-the-senders-connection', 'payload-byte-for-byte'],
        modifies=['ghost.sent', 'ghost.acl', 'ghost.acl_handle', 'ghost.acl_pb', 'ghost.acl_len', 'ghost.acl_data'],
        native_setup=nat_fix,
    )
