"""C12 group 2 -- every discovery procedure of the GATT client terminates whatever the peer answers.

Each call of Client.send_request yields a fresh, arbitrary answer: no answer (None), an Error Response with any error
code, or a response of the expected class whose entry list is any list of (handle, ...) tuples of unconstrained
integers (more adversarial than the 16-bit wire types).  profile='skeleton': everything that does not influence the
control flow of the loops (UUID parsing, proxy objects, result lists) is left uninterpreted; the termination measures
and the loop invariants that carry them are over real integers and are proved.  A path leaves the loop by the guard,
break, return or an escaping exception; every path that continues strictly decreases the measure.
"""
import struct

from bumble import att
from pyvc.contracts import (Any, Bytes, Callback, Const, Inst, Int, ListOf, OneOf, Opt, TupleOf, contract, forall, model)

ENVIRONMENT = [
    'termination: one loop iteration = one request/response round trip; that send_request itself returns (answer, '
    'GATT_REQUEST_TIMEOUT or disconnection) is asyncio/transport environment',
    'termination of discover_characteristics is proved for a given service (the services=None variant iterates '
    'Client.services, a finite list, with the same inner loops)',
]

model('bumble.att:ATT_Error_Response#t', fields=dict(error_code=Int))
model('bumble.att:ATT_Read_By_Group_Type_Response#t', fields=dict(attributes=ListOf(TupleOf(Int, Int, Bytes))))
model('bumble.att:ATT_Find_By_Type_Value_Response#t', fields=dict(handles_information=ListOf(TupleOf(Int, Int))))
model('bumble.att:ATT_Read_By_Type_Response#t', fields=dict(attributes=ListOf(TupleOf(Int, Bytes))))
model('bumble.att:ATT_Find_Information_Response#t', fields=dict(information=ListOf(TupleOf(Int, Bytes))))
ERR = Inst('bumble.att:ATT_Error_Response#t')


def client(resp_model):
    name = 'bumble.gatt_client:Client#' + resp_model.split(':')[1]
    model(name, fields={}, methods={'send_request': Callback('send_request', returns=OneOf(None, ERR, Inst(resp_model)), is_async=True)})
    return Inst(name)


model('bumble.gatt_client:ServiceProxy#t', fields=dict(handle=Int, end_group_handle=Int))
model('bumble.gatt_client:CharacteristicProxy#t', fields=dict(handle=Int, end_group_handle=Int))
SERVICE = Inst('bumble.gatt_client:ServiceProxy#t')
CHARACTERISTIC = Inst('bumble.gatt_client:CharacteristicProxy#t')

# exceptions that may end a discovery (all of them leave the loop)
EXITS = {att.ATT_Error: None, struct.error: None}
COMMON = dict(prop='C12', profile='skeleton', raises=EXITS, modifies=[])


def to_top(starting_handle):
    return 0x10000 - starting_handle


def checked2(entries, n, starting_handle):
    """every entry seen so far starts at or after the requested handle and ends at or after its start"""
    return forall(0, n, lambda j: entries[j][0] >= starting_handle and entries[j][1] >= entries[j][0])


def checked1(entries, n, starting_handle):
    return forall(0, n, lambda j: entries[j][0] >= starting_handle)


contract(
    'bumble.gatt_client:Client.discover_services',
    params=dict(self=client('bumble.att:ATT_Read_By_Group_Type_Response#t'), uuids=Const(())),
    invariants={
        0: lambda starting_handle: [starting_handle >= 1],
        1: lambda response, starting_handle, _i: [_i >= 0, checked2(response.attributes, _i, starting_handle)],
    },
    decreases={0: lambda starting_handle: to_top(starting_handle)},
    loop_locals={0: {'services': Any}, 1: {'services': Any}},
    **COMMON,
)

contract(
    'bumble.gatt_client:Client.discover_service',
    params=dict(self=client('bumble.att:ATT_Find_By_Type_Value_Response#t'), uuid=Any),
    invariants={
        0: lambda starting_handle: [starting_handle >= 1],
        1: lambda response, starting_handle, _i: [_i >= 0, checked2(response.handles_information, _i, starting_handle)],
    },
    decreases={0: lambda starting_handle: to_top(starting_handle)},
    loop_locals={0: {'services': Any}, 1: {'services': Any}},
    **COMMON,
)

contract(
    'bumble.gatt_client:Client.discover_included_services',
    params=dict(self=client('bumble.att:ATT_Read_By_Type_Response#t'), service=SERVICE),
    invariants={
        0: lambda ending_handle, service: [ending_handle == service.end_group_handle],
        1: lambda response, starting_handle, _i: [_i >= 0, checked1(response.attributes, _i, starting_handle)],
    },
    decreases={0: lambda starting_handle, ending_handle: ending_handle - starting_handle + 1},
    loop_locals={0: {'included_services': Any}, 1: {'included_services': Any}},
    **dict(COMMON, modifies=['service.included_services']),
)

contract(
    'bumble.gatt_client:Client.discover_characteristics',
    params=dict(self=client('bumble.att:ATT_Read_By_Type_Response#t'), uuids=Const(()), service=SERVICE),
    invariants={
        1: lambda ending_handle, service: [ending_handle == service.end_group_handle],
        2: lambda response, starting_handle, _i: [_i >= 0, checked1(response.attributes, _i, starting_handle)],
    },
    decreases={1: lambda starting_handle, ending_handle: ending_handle - starting_handle + 1},
    loop_locals={1: {'characteristics': Any}, 2: {'characteristics': Any}},
    **dict(COMMON, modifies=['service.characteristics']),
)

contract(
    'bumble.gatt_client:Client.discover_descriptors',
    params=dict(self=client('bumble.att:ATT_Find_Information_Response#t'), characteristic=Opt(CHARACTERISTIC), start_handle=Opt(Int), end_handle=Opt(Int)),
    invariants={
        0: lambda ending_handle: [ending_handle == ending_handle],
        1: lambda response, starting_handle, _i: [_i >= 0, checked1(response.information, _i, starting_handle)],
    },
    decreases={0: lambda starting_handle, ending_handle: ending_handle - starting_handle + 1},
    loop_locals={0: {'descriptors': Any}, 1: {'descriptors': Any}},
    **dict(COMMON, modifies=['characteristic.descriptors']),
)

contract(
    'bumble.gatt_client:Client.discover_attributes',
    params=dict(self=client('bumble.att:ATT_Find_Information_Response#t')),
    invariants={
        0: lambda starting_handle: [starting_handle >= 1],
        1: lambda response, starting_handle, _i: [_i >= 0, checked1(response.information, _i, starting_handle)],
    },
    decreases={0: lambda starting_handle, ending_handle: ending_handle - starting_handle + 1},
    loop_locals={0: {'attributes': Any}, 1: {'attributes': Any}},
    **COMMON,
)
