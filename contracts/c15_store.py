"""C15 (part 2) -- JsonKeyStore over an abstract file system.

File system = ghost state.  The real file is (exists, content) where `content` is the parsed JSON document (a dynamic
value: the text on disk is json.dumps(content); assumption: json.load(json.dump(v)) == v for JSON-representable v); the
temporary sibling is (tmp_state, tmp_content); `trace` is the list of file-system effects.  `open`, `json.load`,
`json.dump`, `os.replace` and the pathlib operations are recorded callbacks (ghost code below) -- each of them asserts
what it is allowed to do, and after every single effect `crash_ok` is asserted: the real file holds the complete previous
or the complete new document.  That is crash atomicity stated for every prefix of the effect trace.
"""
import json
import os

from bumble.keys import JsonKeyStore, PairingKeys

from pyvc.contracts import Bool, Callback, Const, Inst, Int, IntRange, ListOf, Opaque, Opt, contract, exists, forall, implies, lemma, model
from pyvc import ext_c15 as X
from pyvc.ext_c15 import AnyDyn, DynDict, SymStr, drop, forall_items, frozen, is_dict, mutable, put, sole_key

from contracts.c15_keys import ENVIRONMENT, P_FROM, wf_db, wf_entry, wf_map  # noqa: F401 (ENVIRONMENT: one list for both files)


DEFAULT = JsonKeyStore.DEFAULT_NAMESPACE
EV_MKDIR, EV_OPEN_W, EV_WRITE, EV_CLOSE, EV_REPLACE = 1, 2, 3, 4, 5
H_READ, H_WRITE = 1, 2


# ---------------------------------------------------------------------------
# ghost file system (ghost code: runs symbolically in the proof and natively in the replay)
# ---------------------------------------------------------------------------
def crash_ok(ghost):
    """the real file is untouched, or it holds the complete document that was written to the temporary file"""
    return ((ghost.exists == ghost.exists0 and (not ghost.exists or ghost.content == ghost.content0))
            or (ghost.exists and ghost.replaced and ghost.content == ghost.written))


def fs_dir_exists(ghost):
    return ghost.dir_exists


def fs_mkdir(ghost, mode=0o777, parents=False, exist_ok=False):
    assert exist_ok or not ghost.dir_exists
    ghost.dir_exists = True
    ghost.trace = ghost.trace + [EV_MKDIR]
    assert crash_ok(ghost)


def fs_with_name(ghost, new_name):
    assert new_name == ghost.real_name + '.tmp'
    return ghost.tmp_path


def fs_open(ghost, path, mode='r', encoding=None):
    if mode == 'w':
        assert path.pid == ghost.tmp_path.pid and path.pid != ghost.real_pid  # the real file is never opened for writing
        assert ghost.dir_exists
        ghost.tmp_state = 1  # exists, empty / partially written
        ghost.trace = ghost.trace + [EV_OPEN_W]
        assert crash_ok(ghost)
        return H_WRITE
    assert mode == 'r' and path.pid == ghost.real_pid
    # an operation starts by reading the file: (exists0, content0) is the state of the real file at that moment
    ghost.exists0 = ghost.exists
    ghost.content0 = ghost.content
    ghost.replaced = False
    if not ghost.exists:
        raise FileNotFoundError()
    return H_READ


def fs_json_load(ghost, f):
    assert f == H_READ
    return mutable(ghost.content)


def fs_json_dump(ghost, obj, f, sort_keys=False, indent=None):
    assert f == H_WRITE and ghost.tmp_state == 1
    ghost.written = frozen(obj)
    ghost.tmp_state = 2  # complete document written, still open
    ghost.trace = ghost.trace + [EV_WRITE]
    assert crash_ok(ghost)


def fs_close(ghost, f):
    if f == H_WRITE:
        if ghost.tmp_state == 2:
            ghost.tmp_state = 3  # complete and closed
        ghost.trace = ghost.trace + [EV_CLOSE]
        assert crash_ok(ghost)


def fs_replace(ghost, src, dst):
    assert src.pid == ghost.tmp_path.pid and dst.pid == ghost.real_pid
    assert ghost.tmp_state == 3  # only a complete, closed temporary file replaces the real one
    ghost.content = ghost.written
    ghost.exists = True
    ghost.replaced = True
    ghost.tmp_state = 0
    ghost.trace = ghost.trace + [EV_REPLACE]
    assert crash_ok(ghost)


CLOSE_CB = Callback('close', effect=fs_close)


def with_enter(path, cm):
    return cm


def with_exit(path, cm):
    path.cfg.call_callback(path, path.cfg.fresh(path, CLOSE_CB, 'close'), [cm], {})


STUBS = {
    open: Callback('open', effect=fs_open, raises=(FileNotFoundError,)),
    json.load: Callback('json_load', effect=fs_json_load),
    json.dump: Callback('json_dump', effect=fs_json_dump),
    os.replace: Callback('os_replace', effect=fs_replace),
}


class _NativeHandle:
    """what the fake `open` returns in the native replay: a context manager around the ghost handle"""

    def __init__(self, ghost, h):
        self.ghost, self.h = ghost, h

    def __enter__(self):
        return self.h

    def __exit__(self, *exc):
        fs_close(self.ghost, self.h)
        return False


def native_fs(env):
    """native replay: the module under test gets `open`, `json`, `os` that run the same ghost code on the ghost state"""
    import types

    import bumble.keys as K

    g = env['ghost']
    K.open = lambda path, mode='r', encoding=None: _NativeHandle(g, fs_open(g, path, mode, encoding))
    K.json = types.SimpleNamespace(load=lambda f: fs_json_load(g, f), dump=lambda obj, f, **kw: fs_json_dump(g, obj, f, **kw))
    K.os = types.SimpleNamespace(replace=lambda src, dst: fs_replace(g, src, dst))


FSKW = dict(stubs=STUBS, with_enter=with_enter, with_exit=with_exit, native_setup=native_fs,
            native_patches=[('bumble.keys', 'open'), ('bumble.keys', 'json'), ('bumble.keys', 'os')])

model('ghost:TmpPath', fields=dict(pid=SymStr))
model('ghost:FilePath', fields=dict(pid=SymStr, name=SymStr), methods={'with_name': Callback('with_name', effect=fs_with_name)})
model('ghost:DirPath', fields=dict(pid=SymStr), methods={'exists': Callback('dir_exists', effect=fs_dir_exists), 'mkdir': Callback('mkdir', effect=fs_mkdir)})
model('bumble.keys:JsonKeyStore', fields=dict(namespace=SymStr, filename=Inst('ghost:FilePath'), directory_name=Inst('ghost:DirPath')))
STORE = Inst('bumble.keys:JsonKeyStore')

FS = dict(
    exists=Bool, content=AnyDyn, dir_exists=Bool, tmp_state=IntRange(0, 3), written=AnyDyn, replaced=Bool, trace=ListOf(Int),
    exists0=Bool, content0=AnyDyn, real_pid=SymStr, real_name=SymStr, tmp_path=Inst('ghost:TmpPath'),
)
TX_MOD = ['ghost.exists0', 'ghost.content0', 'ghost.replaced']  # set when an operation starts (the read)
FS_MOD = TX_MOD + ['ghost.exists', 'ghost.content', 'ghost.dir_exists', 'ghost.tmp_state', 'ghost.written', 'ghost.trace']


# ---------------------------------------------------------------------------
# the abstract view  namespace -> peer -> entry  and the namespace rule of load()
# ---------------------------------------------------------------------------
def base_of(g):
    """the database a store sees: the parsed file, or {} when there is no file yet"""
    return g.content if g.exists else {}


def eff_ns(db, ns):
    """the namespace a store created with `ns` operates on (class docstring: a default-namespace store adopts the only
    namespace of the file)"""
    return ns if ns in db else (sole_key(db) if (ns == DEFAULT and len(db) == 1) else ns)


def map_of(db, e):
    return db[e] if e in db else {}


def view_of(g, ns):
    """peer -> entry, as the store with namespace `ns` sees it"""
    b = base_of(g)
    return map_of(b, eff_ns(b, ns))


def updated(b, e, name, kd):
    return put(b, e, put(map_of(b, e), name, kd))


def deleted(b, e, name):
    return put(b, e, drop(map_of(b, e), name))


def cleared(b, e):
    return put(b, e, {})


def wf_ns(db, e):
    return is_dict(db) and (e not in db or is_dict(db[e]))


def fs_paths(self, ghost):
    return [
        self.filename.pid == ghost.real_pid,
        self.filename.name == ghost.real_name,
        ghost.tmp_path.pid != ghost.real_pid,
        implies(ghost.exists, ghost.dir_exists),
    ]


def fs_tx(ghost):
    """(exists0, content0) is the state of the real file when the operation started, and nothing replaced it since"""
    return [ghost.exists0 == ghost.exists, ghost.content0 == ghost.content, not ghost.replaced]


def store_pre(self, ghost):
    # of the representation invariant of the file (wf_db: a well-formed database) only the instance at the store's
    # namespace is needed by the code; that the whole invariant is preserved is lemma wf_preserved below
    return fs_paths(self, ghost) + [not ghost.exists or wf_ns(ghost.content, eff_ns(ghost.content, self.namespace))]


def wf_at(g, ns, name):
    """the entry of peer `name` in the store's namespace, if there is one, is well formed"""
    m = view_of(g, ns)
    return name not in m or wf_entry(m[name])


def fs_untouched(old, ghost):
    return [ghost.exists == old.ghost.exists, ghost.content == old.ghost.content, ghost.trace == old.ghost.trace, ghost.dir_exists == old.ghost.dir_exists]


UNTOUCHED = ['file-exists-unchanged', 'content-unchanged', 'no-effects', 'dir-unchanged']


# ---------------------------------------------------------------------------
# save
# ---------------------------------------------------------------------------
def save_trace():
    return [EV_OPEN_W, EV_WRITE, EV_CLOSE, EV_REPLACE]


contract(
    'bumble.keys:JsonKeyStore.save',
    prop='C15',
    params=dict(self=STORE, db=AnyDyn),
    ghost=FS,
    requires=lambda self, ghost: fs_paths(self, ghost) + fs_tx(ghost),
    ensures=lambda self, db, old, ghost: [
        ghost.exists and ghost.content == db,
        ghost.replaced and ghost.written == db,
        implies(old.ghost.dir_exists, ghost.trace == old.ghost.trace + save_trace()),
        implies(not old.ghost.dir_exists, ghost.trace == old.ghost.trace + [EV_MKDIR] + save_trace()),
        ghost.dir_exists and ghost.tmp_state == 0,
        ghost.exists0 == old.ghost.exists0 and ghost.content0 == old.ghost.content0,
    ],
    ensures_names=['file-holds-the-new-document', 'via-the-temporary-file', 'effects-open-write-close-replace', 'effects-mkdir-first', 'directory-exists-no-temporary-left', 'tx-start-kept'],
    modifies=FS_MOD,
    **FSKW,
)
SAVE = 'bumble.keys:JsonKeyStore.save'


# ---------------------------------------------------------------------------
# load
# ---------------------------------------------------------------------------
def loaded_db(g, ns):
    b = base_of(g)
    e = eff_ns(b, ns)
    return b if e in b else put(b, e, {})


contract(
    'bumble.keys:JsonKeyStore.load',
    prop='C15',
    params=dict(self=STORE),
    ghost=FS,
    requires=lambda self, ghost: store_pre(self, ghost),
    ensures=lambda self, res, old, ghost: [
        is_dict(res[0]) and res[0] == loaded_db(old.ghost, self.namespace),
        # the key map is the namespace's dict *inside* db (so that mutating it reaches what save(db) writes)
        is_dict(res[0]) and eff_ns(base_of(old.ghost), self.namespace) in res[0] and res[1] is res[0][eff_ns(base_of(old.ghost), self.namespace)],
    ]
    + fs_untouched(old, ghost),
    ensures_names=['db-is-the-parsed-file-plus-the-namespace', 'key-map-is-the-namespace-dict-inside-db'] + UNTOUCHED,
    modifies=TX_MOD,
    **FSKW,
)
LOAD_INLINE = ['JsonKeyStore.load']


# ---------------------------------------------------------------------------
# update / delete / delete_all
# ---------------------------------------------------------------------------
def keys_to_dict(ghost):
    return ghost.kd


model('ghost:Keys', fields={}, methods={'to_dict': Callback('to_dict', effect=keys_to_dict)})


def mutation_post(new, old, ghost):
    return [
        ghost.exists and ghost.content == new,
        is_dict(ghost.content),
        ghost.replaced and ghost.written == new,
        implies(old.ghost.dir_exists, ghost.trace == old.ghost.trace + save_trace()),
        implies(not old.ghost.dir_exists, ghost.trace == old.ghost.trace + [EV_MKDIR] + save_trace()),
        ghost.dir_exists and ghost.tmp_state == 0,
    ]


MUT_NAMES = ['file-holds-exactly-the-new-database', 'file-is-a-json-object', 'written-through-the-temporary-file', 'effects', 'effects-mkdir-first', 'directory-exists-no-temporary-left']


def update_post(self, name, old, ghost):
    b = base_of(old.ghost)
    e = eff_ns(b, self.namespace)
    c = ghost.content
    return [
        is_dict(c) and e in c and is_dict(c[e]) and name in c[e] and c[e][name] == ghost.kd,
        is_dict(c) and e in c and is_dict(c[e]) and drop(c[e], name) == drop(map_of(b, e), name),
        is_dict(c) and drop(c, e) == drop(b, e),
    ] + mutation_post(updated(b, e, name, ghost.kd), old, ghost)


contract(
    'bumble.keys:JsonKeyStore.update',
    prop='C15',
    params=dict(self=STORE, name=SymStr, keys=Inst('ghost:Keys')),
    ghost=dict(FS, kd=DynDict),
    requires=lambda self, name, ghost: store_pre(self, ghost) + [wf_at(ghost, self.namespace, name), wf_entry(ghost.kd)],
    ensures=update_post,
    ensures_names=['entry-is-exactly-the-given-keys', 'other-peers-of-the-namespace-unchanged', 'other-namespaces-unchanged'] + MUT_NAMES,
    modifies=FS_MOD,
    inline=LOAD_INLINE,
    uses=[SAVE],
    **FSKW,
)
UPDATE = 'bumble.keys:JsonKeyStore.update'


def delete_post(self, name, old, ghost):
    b = base_of(old.ghost)
    e = eff_ns(b, self.namespace)
    c = ghost.content
    return [
        is_dict(c) and e in c and is_dict(c[e]) and name not in c[e],
        is_dict(c) and e in c and is_dict(c[e]) and drop(c[e], name) == drop(map_of(b, e), name),
        is_dict(c) and drop(c, e) == drop(b, e),
    ] + mutation_post(deleted(b, e, name), old, ghost)


contract(
    'bumble.keys:JsonKeyStore.delete',
    prop='C15',
    params=dict(self=STORE, name=SymStr),
    ghost=FS,
    requires=lambda self, name, ghost: store_pre(self, ghost),
    ensures=delete_post,
    ensures_names=['entry-is-gone', 'other-peers-of-the-namespace-unchanged', 'other-namespaces-unchanged'] + MUT_NAMES,
    # deleting a peer that is not there: KeyError, and nothing at all happened to the file
    raises={KeyError: lambda self, name, old, ghost: [name not in view_of(old.ghost, self.namespace)] + fs_untouched(old, ghost)},
    modifies=FS_MOD,
    inline=LOAD_INLINE,
    uses=[SAVE],
    **FSKW,
)
DELETE = 'bumble.keys:JsonKeyStore.delete'


def delete_all_post(self, old, ghost):
    b = base_of(old.ghost)
    e = eff_ns(b, self.namespace)
    c = ghost.content
    return [
        is_dict(c) and e in c and c[e] == {},
        is_dict(c) and drop(c, e) == drop(b, e),
    ] + mutation_post(cleared(b, e), old, ghost)


contract(
    'bumble.keys:JsonKeyStore.delete_all',
    prop='C15',
    params=dict(self=STORE),
    ghost=FS,
    requires=lambda self, ghost: store_pre(self, ghost),
    ensures=delete_all_post,
    ensures_names=['namespace-is-empty', 'other-namespaces-unchanged'] + MUT_NAMES,
    modifies=FS_MOD,
    inline=LOAD_INLINE,
    uses=[SAVE],
    **FSKW,
)
DELETE_ALL = 'bumble.keys:JsonKeyStore.delete_all'


# ---------------------------------------------------------------------------
# get / get_all
# ---------------------------------------------------------------------------
def keys_of(entry):
    """the key set an entry denotes: PairingKeys.from_dict is a function of the *value* of its argument (contract
    bumble.keys:PairingKeys.from_dict, result == spec_keys_of(keys_dict)); here it is left uninterpreted"""
    return PairingKeys.from_dict(entry)


X.register_uf(keys_of, 'pairing_keys')
PK = Opaque('pairing_keys')

contract(
    'bumble.keys:PairingKeys.from_dict',
    key=P_FROM + '@value',
    params=dict(cls=Const(PairingKeys), keys_dict=DynDict),
    requires=lambda keys_dict: [wf_entry(keys_dict)],
    result=lambda keys_dict: keys_of(keys_dict),
    modifies=[],
    note='callee view: weakening of the verified contract of PairingKeys.from_dict (result == spec_keys_of(keys_dict)): only "a function of the value of the argument" is kept',
)


def get_post(self, name, res, old, ghost):
    m = view_of(old.ghost, self.namespace)
    return [(res is None) == (name not in m), name not in m or res == keys_of(m[name])] + fs_untouched(old, ghost)


contract(
    'bumble.keys:JsonKeyStore.get',
    prop='C15',
    params=dict(self=STORE, name=SymStr),
    ghost=FS,
    requires=lambda self, name, ghost: store_pre(self, ghost) + [wf_at(ghost, self.namespace, name)],
    ensures=get_post,
    ensures_names=['none-iff-no-entry', 'keys-of-the-stored-entry'] + UNTOUCHED,
    returns=Opt(PK),
    modifies=TX_MOD,
    inline=LOAD_INLINE,
    uses=[P_FROM + '@value'],
    **FSKW,
)
GET = 'bumble.keys:JsonKeyStore.get'


def wf_view(g, ns):
    """every entry of the store's namespace is well formed (instance of the file invariant wf_db at that namespace)"""
    return forall_items(view_of(g, ns), lambda name, e: wf_entry(e))


def pairs_of(m):
    """(peer, keys of its entry) for every peer of the key map, in the iteration order of the dict"""
    return [(name, keys_of(e)) for (name, e) in m.items()]


def get_all_post(self, res, old, ghost):
    m = view_of(old.ghost, self.namespace)
    return [res == pairs_of(m), len(res) == len(m)] + fs_untouched(old, ghost)


contract(
    'bumble.keys:JsonKeyStore.get_all',
    prop='C15',
    params=dict(self=STORE),
    ghost=FS,
    requires=lambda self, ghost: store_pre(self, ghost) + [wf_view(ghost, self.namespace)],
    ensures=get_all_post,
    ensures_names=['one-pair-per-peer-with-the-keys-of-its-entry', 'as-many-pairs-as-peers'] + UNTOUCHED,
    modifies=TX_MOD,
    inline=LOAD_INLINE,
    uses=[P_FROM + '@value'],
    **FSKW,
)


# ---------------------------------------------------------------------------
# lemmas over the contracts: invariant of the file, history exactness, persistence, namespace isolation
# ---------------------------------------------------------------------------
def lemma_nothing(b, e, ns, name, kd):
    pass


# the three abstract mutations keep the file a well-formed database (for every namespace e they are applied to); together
# with `file-holds-exactly-the-new-database` of update / delete / delete_all: wf_db is an invariant of the file
lemma('wf_preserved', lemma_nothing, prop='C15', params=dict(b=DynDict, e=SymStr, ns=SymStr, name=SymStr, kd=DynDict),
      requires=lambda b, kd: [wf_db(b), wf_entry(kd)],
      ensures=lambda b, e, name, kd: [wf_db({}), wf_db(updated(b, e, name, kd)), wf_db(deleted(b, e, name)), wf_db(cleared(b, e))],
      ensures_names=['empty-database', 'update', 'delete', 'delete_all'])

# what the operation contracts require of the file is an instance of the invariant wf_db
lemma('wf_instances', lemma_nothing, prop='C15', params=dict(b=DynDict, e=SymStr, ns=SymStr, name=SymStr, kd=DynDict),
      requires=lambda b: [wf_db(b)],
      ensures=lambda b, ns, name: [
          wf_ns(b, eff_ns(b, ns)),
          name not in map_of(b, eff_ns(b, ns)) or wf_entry(map_of(b, eff_ns(b, ns))[name]),
          forall_items(map_of(b, eff_ns(b, ns)), lambda n, x: wf_entry(x)),
      ],
      ensures_names=['namespace-is-a-dict', 'entry-well-formed', 'all-entries-well-formed'])

OPS = [UPDATE, DELETE, DELETE_ALL, GET]


def fs_lemma(name, fn, **kw):
    """a lemma over store objects: its native replay runs on the fake file system too"""
    l = lemma(name, fn, prop='C15', uses=OPS, native_patches=FSKW['native_patches'], **kw)
    l.native_setup = native_fs
    return l


def two_stores_pre(a, b, name, other, ghost):
    """two store objects on the same file; of the file invariant the instances at the places the lemma looks at"""
    return store_pre(a, ghost) + store_pre(b, ghost) + [
        wf_at(ghost, a.namespace, name), wf_at(ghost, a.namespace, other), wf_at(ghost, b.namespace, name), wf_at(ghost, b.namespace, other),
        wf_entry(ghost.kd),
    ]


async def lemma_update_then_get(a, b, name, other, keys):
    """exactness + persistence: after update(name, keys) any store object on the same file with the same namespace
    (the same instance, or one created later: "re-opening") returns the keys of exactly the stored entry for `name`
    and what it returned before for every other peer"""
    before = await b.get(other)
    await a.update(name, keys)
    assert (await b.get(name)) == keys_of(kd_of(keys))
    assert (await b.get(other)) == before


def kd_of(keys):
    return keys.to_dict()


fs_lemma('update_then_get', lemma_update_then_get,
      params=dict(a=STORE, b=STORE, name=SymStr, other=SymStr, keys=Inst('ghost:Keys')), ghost=dict(FS, kd=DynDict),
      requires=lambda a, b, name, other, ghost: two_stores_pre(a, b, name, other, ghost) + [a.namespace == b.namespace, other != name],
      inline=['kd_of'])


async def lemma_delete_then_get(a, b, name, other):
    before = await b.get(other)
    await a.delete(name)
    assert (await b.get(name)) is None
    assert (await b.get(other)) == before


fs_lemma('delete_then_get', lemma_delete_then_get,
      params=dict(a=STORE, b=STORE, name=SymStr, other=SymStr), ghost=dict(FS, kd=DynDict),
      requires=lambda a, b, name, other, ghost: two_stores_pre(a, b, name, other, ghost) + [a.namespace == b.namespace, other != name, name in view_of(ghost, a.namespace)])


async def lemma_delete_all_then_get(a, b, other):
    await a.delete_all()
    assert (await b.get(other)) is None


fs_lemma('delete_all_then_get', lemma_delete_all_then_get,
      params=dict(a=STORE, b=STORE, other=SymStr), ghost=dict(FS, kd=DynDict),
      requires=lambda a, b, other, ghost: two_stores_pre(a, b, other, other, ghost) + [a.namespace == b.namespace])


def explicit(s, ghost):
    """the store's namespace does not depend on what else is in the file: it was given explicitly, or the file already has
    a "__DEFAULT__" namespace"""
    return s.namespace != DEFAULT or DEFAULT in base_of(ghost)


async def lemma_isolation(a, b, name, other, keys):
    """namespace isolation: whatever a store does in its namespace, a store with another namespace sees no change"""
    before = await b.get(other)
    await a.update(name, keys)
    assert (await b.get(other)) == before
    await a.delete_all()
    assert (await b.get(other)) == before


fs_lemma('isolation', lemma_isolation,
      params=dict(a=STORE, b=STORE, name=SymStr, other=SymStr, keys=Inst('ghost:Keys')), ghost=dict(FS, kd=DynDict),
      requires=lambda a, b, name, other, ghost: two_stores_pre(a, b, name, other, ghost)
      + [eff_ns(base_of(ghost), a.namespace) != eff_ns(base_of(ghost), b.namespace), explicit(b, ghost)])


async def lemma_default_alias(a, b, name, other, keys):
    """the same for a store created *without* a namespace (namespace "__DEFAULT__", adopting the only namespace of the
    file): NOT true -- when another store adds a second namespace, the default store stops seeing the namespace it has
    been reading and writing (documented in the class docstring; see notes/C15/NOTES.md, finding)"""
    before = await b.get(other)
    await a.update(name, keys)
    return (before, await b.get(other))


fs_lemma('isolation_default_namespace', lemma_default_alias, ensures=lambda res: [res[0] == res[1]],
           params=dict(a=STORE, b=STORE, name=SymStr, other=SymStr, keys=Inst('ghost:Keys')), ghost=dict(FS, kd=DynDict),
           requires=lambda a, b, name, other, ghost: two_stores_pre(a, b, name, other, ghost)
           + [eff_ns(base_of(ghost), a.namespace) != eff_ns(base_of(ghost), b.namespace), b.namespace == DEFAULT],
           )


# ---------------------------------------------------------------------------
# __init__ with a file name: namespace defaulting and the two paths
# ---------------------------------------------------------------------------
import pathlib  # noqa: E402

from pyvc import models_calls as _MC  # noqa: E402
from pyvc.contracts import REG as _REG  # noqa: E402
from pyvc.values import Obj as _Obj  # noqa: E402


def fs_resolve(ghost):
    return ghost.resolved


model('ghost:RawPath', fields=dict(arg=SymStr), methods={'resolve': Callback('resolve', effect=fs_resolve)})
model('ghost:ResolvedPath', fields=dict(pid=SymStr, name=SymStr, parent=Inst('ghost:DirPath')))


def _m_path(ex, *args):
    """pathlib.Path(x) inside the kernel: a ghost path object that remembers its argument (environment: pathlib)"""
    o = ex.alloc(_Obj(None, {'arg': args[0] if args else '.'}, _REG.models['ghost:RawPath']))
    ex.wobj(ex.ghost).fields['path_arg'] = args[0] if args else '.'
    return o


_MC.CLASS_MODELS[pathlib.Path] = _m_path
model('bumble.keys:JsonKeyStore#new', fields={})

contract(
    'bumble.keys:JsonKeyStore.__init__',
    prop='C15',
    params=dict(self=Inst('bumble.keys:JsonKeyStore#new'), namespace=Opt(SymStr), filename=SymStr),
    ghost=dict(resolved=Inst('ghost:ResolvedPath'), path_arg=SymStr),
    requires=lambda filename: [filename != ''],  # (without a file name: platformdirs, deferred import -- not covered)
    ensures=lambda self, namespace, filename, ghost: [
        self.namespace == (DEFAULT if (namespace is None or namespace == '') else namespace),
        ghost.path_arg == filename and self.filename is ghost.resolved,
        self.directory_name is ghost.resolved.parent,
    ],
    ensures_names=['namespace-or-default', 'file-is-the-resolved-path-of-the-argument', 'directory-is-its-parent'],
    modifies=['self.*', 'ghost.path_arg'],
    note='pathlib.Path(..).resolve()/.parent are environment (ghost path objects); the branch without a file name is outside',
)
